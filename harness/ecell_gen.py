"""Seeded generator of E-cell histories (all randomness from the rng given)."""

ROOT = 2000


def gen_history(rng, profile=None, max_ops=40):
    """profile: dict of weights/biases. Returns a JSON-able case {'root':..., 'ops':[...], 'profile':...}."""
    p = {'pressure': 0.6, 'identity': 0.3, 'affinity': 0.4, 'failure': 0.4, 'partitions': 0.3,
         'lease': 0.2, 'traits': 0.3, 'alloc': 0.5, 'raw_remove': 0.1, 'renew': 0.1, 'once': 0.1,
         'blacklist': 0.15, 'maxutil': 0.15, 'prio0': 0.15, 'deep': 0.0, 'move': 0.03, 'few_shapes': 0.0,
         'scenarios': 0.0, 'many_allocs': 0, 'sparse_demand': 0.0, 'frozen': 0.25, 'restore': 0.05,
         'frozen_evict': 0.0}
    if profile:
        p.update(profile)
    ops = []
    now = [1000]
    order = [0]
    st = {'servers': {}, 'racks': [], 'apps': {}, 'groups': {}, 'next_app': 1, 'next_srv': 1000, 'next_bkt': 2001,
          'labels': [4000], 'allocs': [], 'removed_servers': []}
    if rng.random() < p['partitions']:
        st['labels'].append(4001)

    # ---- topology -------------------------------------------------------
    use_pods = rng.random() < 0.4
    pods = []
    if use_pods:
        for _ in range(rng.randint(1, 2)):
            b = st['next_bkt']
            st['next_bkt'] += 1
            ops.append(['AddBucket', b, 2, ROOT])
            pods.append(b)
    for _ in range(rng.randint(1, 3)):
        b = st['next_bkt']
        st['next_bkt'] += 1
        parent = rng.choice(pods) if pods else ROOT
        ops.append(['AddBucket', b, 3, parent])
        st['racks'].append(b)
    base = rng.choice([64, 100, 256, 1000])
    trait_bits = [1, 2, 4]

    def new_server(parent=None):
        n = st['next_srv']
        st['next_srv'] += 1
        parent = parent or rng.choice(st['racks'])
        cap = [base * rng.randint(1, 4), base * rng.randint(1, 4), base * rng.randint(1, 4)]
        label = rng.choice(st['labels']) if rng.random() < 0.5 else st['labels'][0]
        traits = 0
        if rng.random() < p['traits']:
            traits = rng.choice([1, 2, 3, 4, 5, 6, 7])
        vu = 0 if rng.random() > p['lease'] else now[0] + rng.choice([5, 20, 100])
        st['servers'][n] = {'parent': parent, 'state': 0, 'label': label, 'cap': cap, 'traits': traits}
        ops.append(['AddServer', n, parent, cap, label, traits, vu])
        return n
    for _ in range(rng.randint(2, 6)):
        new_server()

    # ---- allocations ----------------------------------------------------
    for label in st['labels']:
        st['allocs'].append((label, []))
        for _ in range(rng.randint(0, 2) + p['many_allocs']):
            path = [6000 + rng.randint(0, 2)]
            if rng.random() < 0.5:
                path.append(6010 + rng.randint(0, 2))
            while rng.random() < p['deep'] and len(path) < 5:
                path.append(6020 + rng.randint(0, 1))
            st['allocs'].append((label, path))
            if rng.random() < p['alloc']:
                res = [rng.choice([0, base, 2 * base]) for _ in range(3)]
                rank = rng.choice([100, 100, 50, 120])
                adj = rng.choice([0, 10, 20])
                maxu = rng.choice([[3, 2], [2, 1], [5, 2], [3, 1]]) if rng.random() < p['maxutil'] else None
                atr = rng.choice(trait_bits) if rng.random() < p['traits'] * 0.5 else 0
                ops.append(['UpdateAlloc', label, path, res, rank, adj, maxu, atr])

    groups = []
    if rng.random() < p['identity'] * 2:
        for g in range(rng.randint(1, 2)):
            gid = 5000 + g
            cnt = rng.randint(0, 4)
            groups.append(gid)
            st['groups'][gid] = cnt
            ops.append(['ConfigGroup', gid, cnt])

    affs = [3000 + i for i in range(rng.randint(1, 3))]
    aff_limits = {}
    for a in affs:
        lim = []
        if rng.random() < p['affinity']:
            for lvl in (0, 3, 2, 1):
                if rng.random() < 0.4:
                    lim.append([lvl, rng.choice([1, 1, 2, 3])])
        # a declared limit of 0 ("none of this affinity below such a node") on about one limited affinity in eight; chosen
        # from the values already drawn, so the random stream of everything that follows is the one it was before
        if lim and (sum(v for _l, v in lim) + 3 * len(lim) + a) % 8 == 0:
            lim[-1][1] = 0
        aff_limits[a] = lim

    def new_app():
        n = st['next_app']
        st['next_app'] += 1
        order[0] += 1
        aff = rng.choice(affs)
        big = rng.random() < p['pressure']
        scale = base * (2 if big else 1)
        demand = [max(1, rng.randint(scale // 4, scale)), max(1, rng.randint(scale // 4, scale)),
                  max(1, rng.randint(scale // 4, scale))]
        if rng.random() < p['few_shapes']:
            d0 = rng.choice([base // 2, base, base * 2])
            demand = [d0, d0, d0]
        if rng.random() < p['sparse_demand']:
            keep = rng.randrange(3)
            demand = [d if i == keep else 0 for i, d in enumerate(demand)]   # demand in one dimension only: exact ties
        if rng.random() < 0.1:
            demand[rng.randrange(3)] = base * 5      # fits nowhere in one dimension
        prio = 0 if rng.random() < p['prio0'] else rng.randint(1, 10)
        a = {'name': n, 'prio': prio, 'demand': demand, 'aff': aff, 'limits': aff_limits[aff],
             'traits': (rng.choice([1, 2, 4, 3]) if rng.random() < p['traits'] * 0.6 else 0),
             'lease': (rng.choice([3, 10, 50]) if rng.random() < p['lease'] else 0),
             'drt': rng.choice([None, None, 0, 2, 5, 10]),
             'group': (rng.choice(groups) if groups and rng.random() < p['identity'] * 1.5 else
                       (5009 if rng.random() < 0.03 else None)),
             'once': rng.random() < p['once'], 'order': order[0]}
        label, path = rng.choice(st['allocs'])
        st['apps'][n] = {'label': label}
        ops.append(['AddApp', label, path, a])
        return n
    for _ in range(rng.randint(2, 8)):
        new_app()
    ops.append(['Schedule'])

    # ---- events -----------------------------------------------------------
    while len(ops) < max_ops:
        r = rng.random()
        srv = list(st['servers'])
        apps = list(st['apps'])
        if groups and srv and rng.random() < p['scenarios'] * 0.2:
            # between two cycles: group shrunk, a server removed the way the loader does it, group grown again
            g = rng.choice(groups)
            n = rng.choice(srv)
            st['servers'].pop(n)
            ops.append(['Schedule'])
            ops.append(['ConfigGroup', g, rng.choice([0, 1])])
            ops.append(['RemoveServer', n, False])
            ops.append(['ConfigGroup', g, rng.randint(2, 5)])
            ops.append(['Schedule'])
            continue
        if groups and srv and apps and rng.random() < p['scenarios'] * 0.2:
            # an identity holder loses its server between cycles and a same-shaped instance is queued ahead of it
            n = rng.choice(srv)
            st['servers'].pop(n)
            ops.append(['Schedule'])
            ops.append(['RemoveServer', n, False])
            new_app()
            ops[-1][3]['prio'] = 50
            ops.append(['Schedule'])
            continue
        if srv and apps and rng.random() < p['renew'] * 0.5:
            # a renewal that cannot be honoured: every server is about to reboot; the instance may also have been moved
            # to another allocation since it was placed (its old server then refuses the restore)
            n = rng.choice(apps)
            ops.append(['Schedule'])
            if rng.random() < 0.5:
                label, path = rng.choice(st['allocs'])
                ops.append(['AddApp', label, path, {'name': n, 'prio': 1, 'demand': [1, 1, 1], 'aff': affs[0],
                                                    'limits': [], 'traits': 0, 'lease': 0, 'drt': None, 'group': None,
                                                    'once': False, 'order': 0}])
            for sv in srv:
                if rng.random() < 0.85:
                    ops.append(['SetValidUntil', sv, now[0] + rng.choice([0, 1, 2])])
            ops.append(['SetRenew', n])
            ops.append(['Schedule'])
            continue
        if srv and rng.random() < p['frozen_evict']:
            # a server is frozen while it hosts instances; a more urgent instance then arrives under capacity pressure:
            # the eviction scan must not take room on the frozen server
            n = rng.choice(srv)
            ops.append(['Schedule'])
            st['servers'][n]['state'] = 2
            ops.append(['SetState', n, 2, now[0]])
            a = new_app()
            ops[-1][3]['prio'] = 60
            ops[-1][3]['demand'] = [base * rng.randint(1, 3), base * rng.randint(1, 3), base * rng.randint(1, 3)]
            ops[-1][3]['traits'] = 0
            ops.append(['Schedule'])
            continue
        if srv and rng.random() < p['restore'] * 0.4:
            # Loader.reload_server: the server is taken out with its instances, declared again (possibly smaller) and
            # the recorded placements are put back (identities are kept, leases re-evaluated)
            n = rng.choice(srv)
            info = st['servers'][n]
            ops.append(['Schedule'])
            ops.append(['RemoveServer', n, False])
            cap = info['cap'] if rng.random() < 0.6 else [max(1, c // 2) for c in info['cap']]
            info['cap'] = cap
            ops.append(['AddServer', n, info['parent'], cap, info['label'], info['traits'], 0])
            for k in range(rng.randint(1, 4)):
                ops.append(['Restore', n, k, rng.random() < 0.3, rng.choice([0, 5, 50]), 'own'])
            if rng.random() < 0.7:
                ops.append(['Schedule'])
            continue
        if srv and rng.random() < p['restore'] * 0.6:
            # Loader.restore_placement after a restart: a recorded placement is put back as recorded (verbatim, with
            # its expiry and identity) or, when the server restarted since, by Server.put
            ops.append(['Restore', rng.choice(srv), rng.randrange(8), rng.random() < 0.6,
                        rng.choice([-5, 0, 3, 20, 100]), rng.choice(['free', 'free', 'own', 'beyond'])])
            continue
        if r < 0.22:
            ops.append(['Schedule'])
        elif r < 0.36:
            new_app()
        elif r < 0.42 and apps:
            n = rng.choice(apps)
            del st['apps'][n]
            ops.append(['RemoveApp', n])
        elif r < 0.50:
            now[0] += rng.choice([1, 1, 2, 3, 5, 10])
            ops.append(['Tick', now[0]])
        elif r < 0.50 + 0.16 * p['failure'] / 0.4 and srv:
            n = rng.choice(srv)
            stt = 2 if rng.random() < p['frozen'] else rng.choice([0, 1, 1])
            since = now[0] if rng.random() < 0.8 else now[0] - rng.randint(0, 5)
            st['servers'][n]['state'] = stt
            ops.append(['SetState', n, stt, since])
        elif r < 0.70 and srv and rng.random() < 0.5:
            n = rng.choice(srv)
            info = st['servers'].pop(n)
            st['removed_servers'].append(info)
            ops.append(['RemoveServer', n, rng.random() < p['raw_remove']])
        elif r < 0.74:
            if srv and rng.random() < p['move'] * 10:
                # topology change: a server (with whatever runs on it) is moved to another rack
                ops.append(['MoveServer', rng.choice(srv), rng.choice(st['racks'])])
            else:
                new_server()
        elif r < 0.78 and apps:
            ops.append(['SetPrio', rng.choice(apps), rng.choice([0, 1, 5, 10, 50])])
        elif r < 0.81 and apps and rng.random() < p['blacklist'] * 4:
            ops.append(['SetBlacklisted', rng.choice(apps), rng.random() < 0.7])
        elif r < 0.85 and groups:
            g = rng.choice(groups)
            if rng.random() < 0.2:
                ops.append(['RemoveGroup', g])
            else:
                ops.append(['ConfigGroup', g, rng.randint(0, 5)])
        elif r < 0.89 and apps:
            # move an instance to another allocation (possibly another partition)
            n = rng.choice(apps)
            label, path = rng.choice(st['allocs'])
            ops.append(['AddApp', label, path, {'name': n, 'prio': 1, 'demand': [1, 1, 1], 'aff': affs[0],
                                                'limits': [], 'traits': 0, 'lease': 0, 'drt': None, 'group': None,
                                                'once': False, 'order': 0}])
        elif r < 0.92 and st['allocs']:
            label, path = rng.choice(st['allocs'])
            res = [rng.choice([0, base, 2 * base, 4 * base]) for _ in range(3)]
            maxu = rng.choice([[3, 2], [2, 1], [5, 2]]) if rng.random() < p['maxutil'] else None
            ops.append(['UpdateAlloc', label, path, res, rng.choice([100, 100, 50, 120]), rng.choice([0, 10, 20]),
                        maxu, (rng.choice(trait_bits) if rng.random() < p['traits'] * 0.5 else 0)])
        elif r < 0.94 and apps and rng.random() < p['renew'] * 5:
            # the flag is only meaningful for the next cycle (the scheduler asserts that a flagged instance is placed)
            ops.append(['SetRenew', rng.choice(apps)])
            ops.append(['Schedule'])
        elif r < 0.96 and apps:
            ops.append(['SetUnschedule', rng.choice(apps)])
        elif r < 0.98 and srv:
            ops.append(['SetValidUntil', rng.choice(srv), now[0] + rng.choice([0, 2, 5, 20, 100])])
        elif apps:
            ops.append(['SetDrt', rng.choice(apps), rng.choice([None, 0, 1, 3, 10])])
    if ops[-1][0] != 'Schedule':
        ops.append(['Schedule'])
    return {'root': ROOT, 'ops': ops}
