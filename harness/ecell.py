"""E-cell: drives the real treadmill.scheduler objects with generated histories and
produces (a) the per-op digests compared with the Gallina model (Sched/Events.v run_case)
and (b) Python-native snapshots for the property oracles."""
import sys
import time as _time

from . import core, gallina as G

HP = 2305843009213693951
LEVELS = {'server': 0, 'cell': 1, 'pod': 2, 'rack': 3}
LEVEL_NAMES = {v: k for k, v in LEVELS.items()}
STATES = ['up', 'down', 'frozen']
UNPLACED = sys.maxsize

_S = None


def sched():
    global _S
    if _S is None:
        if core.PYLIB not in sys.path:
            sys.path.insert(0, core.PYLIB)
        from treadmill import scheduler
        scheduler.DIMENSION_COUNT = 3
        _S = scheduler
    return _S


def digest(xs):
    h = 17
    for x in xs:
        h = (h * 1000003 + (x % HP) + 7) % HP
    return h


def dopt(v):
    return [-1] if v is None else [1, int(v)]


def dlist(l):
    return [len(l)] + list(l)


def dcounters(items):
    nz = sorted((int(k), int(v)) for k, v in items if v != 0)
    out = [len(nz)]
    for k, v in nz:
        out += [k, v]
    return out


# ---------------------------------------------------------------------------
# names <-> ids.  Cases carry ids only; the driver derives the strings.
#   apps 1..999: 'proid<k>.app<j>#<id:010d>' is derived from the case's app table
#   servers 1000.., buckets 2000.., affinities 3000.., labels 4000.., groups 5000.., alloc path parts 6000..
# ---------------------------------------------------------------------------
def sname(i):
    return 'srv%d' % i


def bname(i):
    return 'bkt:%d' % i


def label_name(i):
    return 'part%d' % i


def group_name(i):
    return 'grp%d' % i


def part_name(i):
    return 'al%d' % i


def aff_name(i):
    return 'proid.aff%d' % i


def app_name(i):
    return 'proid.app#%010d' % i


class Clock:
    def __init__(self):
        self.now = 0
        self.order = 0


class Impl:
    """One cell built from the real classes."""

    def __init__(self, root_id):
        s = sched()
        self.s = s
        self.clock = Clock()
        self._orig_time = s.time.time
        self._orig_order = s._global_order
        self.root_id = root_id
        self.next_order = None
        self.cell = None
        self.buckets = {}
        self.servers = {}      # id -> Server (attached)
        self.app_ids = {}      # name -> id
        self.srv_ids = {}
        self.bkt_ids = {}
        self.aff_ids = {}
        self.label_ids = {}
        self.group_ids = {}
        self.part_ids = {}
        self.choices = []
        self.queues = []
        self.put_log = []      # (app id, server id, call site) for every successful Server.put in a cycle
        self.tracker_skipped = []   # instances the PlacementFeasibilityTracker declared infeasible in the cycle

    # -- patching -----------------------------------------------------------
    def __enter__(self):
        s = self.s
        clock = self.clock
        self._time_mod = s.time
        self._real_time = s.time.time

        class _T:
            """stand-in for the time module inside treadmill.scheduler"""
            def __init__(self, real):
                self._real = real

            def time(self_inner):
                return clock.now

            def __getattr__(self_inner, k):
                return getattr(self_inner._real, k)
        s.time = _T(self._time_mod)
        s._global_order = lambda: self.next_order if self.next_order is not None else 0
        impl = self
        self._orig_acquire = s.Application.acquire_identity

        def acquire_identity(app):
            had = app.identity
            rc = impl._orig_acquire(app)
            if app.identity_group_ref is not None and had is None and app.identity is not None:
                impl.choices.append((impl.app_ids[app.name], app.identity))
            return rc
        s.Application.acquire_identity = acquire_identity
        self._orig_record = s.Cell._record_rank_and_util

        def record(cell, queue):
            queue = list(queue)
            impl.queues[-1][1].extend(
                (impl.app_ids[item[-1].name], int(item[0]), int(item[3])) for item in queue)
            return impl._orig_record(cell, queue)
        s.Cell._record_rank_and_util = record
        self._orig_sched_alloc = s.Cell.schedule_alloc

        def schedule_alloc(cell, allocation, servers):
            impl.queues.append((impl.label_ids[allocation.label], []))
            return impl._orig_sched_alloc(cell, allocation, servers)
        s.Cell.schedule_alloc = schedule_alloc
        self._orig_put = s.Server.put

        def put(server, app):
            rc = impl._orig_put(server, app)
            if rc:
                f = sys._getframe(1)
                site = f.f_code.co_name
                if site == 'restore':
                    site = 'restore<-' + f.f_back.f_code.co_name
                impl.put_log.append((impl.app_ids[app.name], impl.srv_ids[server.name], site))
            return rc
        s.Server.put = put
        self._orig_feasible = s.PlacementFeasibilityTracker.feasible

        def feasible(tracker, app):
            rc = impl._orig_feasible(tracker, app)
            if not rc:
                impl.tracker_skipped.append(impl.app_ids[app.name])
            return rc
        s.PlacementFeasibilityTracker.feasible = feasible
        self.cell = s.Cell(bname(self.root_id))
        self.buckets[self.root_id] = self.cell
        self.bkt_ids[self.cell.name] = self.root_id
        return self

    def __exit__(self, *a):
        s = self.s
        s.time = self._time_mod
        s._global_order = self._orig_order
        s.Application.acquire_identity = self._orig_acquire
        s.Cell._record_rank_and_util = self._orig_record
        s.Cell.schedule_alloc = self._orig_sched_alloc
        s.Server.put = self._orig_put
        s.PlacementFeasibilityTracker.feasible = self._orig_feasible

    # -- ops ---------------------------------------------------------------
    def _alloc(self, label, path):
        self.label_ids[label_name(label)] = label
        alloc = self.cell.partitions[label_name(label)].allocation
        for p in path:
            self.part_ids[part_name(p)] = p
            alloc = alloc.get_sub_alloc(part_name(p))
        return alloc

    def apply(self, op):
        s = self.s
        k = op[0]
        if k == 'AddBucket':
            _, name, level, parent = op
            b = s.Bucket(bname(name), level=LEVEL_NAMES[level])
            self.buckets[name] = b
            self.bkt_ids[b.name] = name
            self.buckets[parent].add_node(b)
        elif k == 'AddServer':
            _, name, parent, cap, label, traits, vu = op
            self.label_ids[label_name(label)] = label
            srv = s.Server(sname(name), list(cap), valid_until=vu, label=label_name(label), traits=traits)
            self.srv_ids[srv.name] = name
            self.buckets[parent].add_node(srv)
            self.servers[name] = srv
        elif k == 'RemoveServer':
            _, name, raw = op
            srv = self.servers.pop(name, None)
            if srv is not None:
                if not raw:
                    srv.remove_all()
                srv.parent.remove_node(srv)
        elif k == 'MoveServer':
            _, name, newparent = op
            srv = self.servers.get(name)
            if srv is not None:
                srv.parent.remove_node(srv)
                self.buckets[newparent].add_node(srv)
        elif k == 'SetState':
            _, name, st, since = op
            if name in self.servers:
                self.servers[name].set_state(s.State(STATES[st]), since)
        elif k == 'SetValidUntil':
            _, name, t = op
            if name in self.servers:
                self.servers[name].valid_until = t
        elif k == 'AddApp':
            _, label, path, a = op
            nm = app_name(a['name'])
            if nm not in self.cell.apps and a.get('order') == 0:
                return 'noop'     # see below; decided before _alloc creates the allocations along the path
            alloc = self._alloc(label, path)
            if nm in self.cell.apps:
                self.cell.add_app(alloc, self.cell.apps[nm])
            elif a.get('order') == 0:
                # a re-assignment record (the generator's stub for "move this instance to another allocation") for an
                # instance that no longer exists - a schedule-once instance the loader's restore removed: the loader
                # would not submit it again under other attributes
                return 'noop'
            else:
                self.next_order = a['order']
                self.aff_ids[aff_name(a['aff'])] = a['aff']
                if a['group'] is not None:
                    self.group_ids[group_name(a['group'])] = a['group']
                app = s.Application(
                    nm, a['prio'], list(a['demand']), affinity=aff_name(a['aff']),
                    affinity_limits={LEVEL_NAMES[l]: v for l, v in a['limits']},
                    data_retention_timeout=a['drt'], lease=a['lease'],
                    identity_group=(group_name(a['group']) if a['group'] is not None else None),
                    traits=a['traits'], schedule_once=a['once'])
                self.app_ids[nm] = a['name']
                # what the submitter declared, kept apart from what the Application object made of it: the C04 / C02
                # oracles judge against the declaration (a declared limit the object lost is a violation, not a licence)
                self.__dict__.setdefault('declared_limits', {})[a['name']] = {l: v for l, v in a['limits']}
                self.cell.add_app(alloc, app)
        elif k == 'RemoveApp':
            self.cell.remove_app(app_name(op[1]))
        elif k == 'SetPrio':
            a = self.cell.apps.get(app_name(op[1]))
            if a is not None:
                a.priority = op[2]
        elif k == 'SetDrt':
            a = self.cell.apps.get(app_name(op[1]))
            if a is not None:
                a.data_retention_timeout = op[2]
        elif k == 'SetBlacklisted':
            a = self.cell.apps.get(app_name(op[1]))
            if a is not None:
                a.blacklisted = bool(op[2])
        elif k == 'SetRenew':
            a = self.cell.apps.get(app_name(op[1]))
            if a is not None and a.server:
                a.renew = True
            else:
                return 'noop'
        elif k == 'SetUnschedule':
            a = self.cell.apps.get(app_name(op[1]))
            if a is not None:
                a.unschedule = True
        elif k == 'UpdateAlloc':
            _, label, path, res, rank, adj, maxu, traits = op
            alloc = self._alloc(label, path)
            alloc.update(list(res), rank, adj, (maxu[0] / maxu[1]) if maxu is not None else None)
            alloc.set_traits(traits)
        elif k == 'ConfigGroup':
            self.group_ids[group_name(op[1])] = op[1]
            self.cell.configure_identity_group(group_name(op[1]), op[2])
        elif k == 'RemoveGroup':
            self.cell.remove_identity_group(group_name(op[1]))
        elif k == 'Tick':
            self.clock.now = op[1]
        elif k == 'Restore':
            # Loader.restore_placement, the body of its loop for one recorded instance. The generator names the server
            # and says how to choose; instance and identity are resolved here against the live state so that the call
            # is one the loader can make (the instance is on no server; a recorded identity is one nobody else holds).
            _, sid, pick, verbatim, exp_delta, ident_mode = op
            srv = self.servers.get(sid)
            if len(op) > 6:
                unplaced = [op[6]] if (app_name(op[6]) in self.cell.apps and not self.cell.apps[app_name(op[6])].server) else []
            else:
                unplaced = sorted(self.app_ids[a.name] for a in self.cell.apps.values() if not a.server)
            if srv is None or not unplaced:
                return 'noop'
            aid = unplaced[pick % len(unplaced)]
            app = self.cell.apps[app_name(aid)]
            grp = app.identity_group_ref
            ident = None
            if grp is not None:
                held = {a.identity for a in self.cell.apps.values()
                        if a is not app and a.identity_group == app.identity_group and a.identity is not None}
                if ident_mode == 'own' and app.identity is not None:
                    ident = None
                elif ident_mode == 'beyond':
                    ident = next(i for i in range(grp.count + pick % 3, grp.count + 50) if i not in held)
                else:
                    free = sorted(i for i in grp.available if i not in held)
                    if free:
                        ident = free[pick % len(free)]
                    elif app.identity is None:
                        return 'noop'
            expires = self.clock.now + exp_delta
            if verbatim:
                restored = srv.restore(app, expires)
            elif app.schedule_once:
                restored = False
            else:
                restored = srv.put(app)
            if not restored:
                if app.schedule_once:
                    self.cell.remove_app(app.name)
            elif ident is not None:
                app.force_set_identity(ident)
            return ('resolved', ['RestoreAt', sid, aid, bool(verbatim), expires, ident])
        elif k == 'Schedule':
            self.choices = []
            self.queues = []
            self.put_log = []
            self.tracker_skipped = []
            placement = self.cell.schedule()
            return placement
        else:
            raise ValueError(k)
        return None

    # -- canonical dump (mirrors Sched/Events.v dump_cell) ------------------
    def dump_alloc(self, alloc):
        out = dlist([int(x) for x in alloc.reserved]) + [int(alloc.rank), int(alloc.rank_adjustment), int(alloc.traits)]
        out += dlist([self.app_ids[n] for n in alloc.apps])
        out.append(len(alloc.sub_allocations))
        for n, sub in alloc.sub_allocations.items():
            out.append(self.part_ids[n])
            out += self.dump_alloc(sub)
        return out

    def dump(self):
        cell = self.cell
        out = [int(self.clock.now)]
        out.append(len(cell.apps))
        for app in cell.apps.values():
            out += [self.app_ids[app.name], int(app.priority)]
            out += dopt(self.srv_ids[app.server] if app.server else None)
            out += dopt(app.identity) + dopt(app.placement_expiry)
            out += [int(app.evicted), int(app.unschedule), int(app.renew), int(app.blacklisted),
                    int(getattr(app, 'final_rank', -1))]
            if app.allocation is not None:
                out += [self.label_ids[app.allocation.label]] + dlist([self.part_ids[p] for p in app.allocation.path])
            else:
                out += [-1]
        members = cell.members()
        out.append(len(members))
        for srv in sorted(members.values(), key=lambda x: self.srv_ids[x.name]):
            state, since = srv.get_state()
            out += [self.srv_ids[srv.name], STATES.index(state.value), int(since), int(srv.valid_until)]
            out += dlist([int(x) for x in srv.free_capacity])
            out += dlist([self.app_ids[n] for n in srv.apps])
            out += dcounters((self.aff_ids[k], v) for k, v in srv.affinity_counters.items())
        out.append(len(self.buckets))
        for bid in sorted(self.buckets):
            b = self.buckets[bid]
            out += [bid] + dlist([int(x) for x in b.free_capacity])
            out += dlist(sorted(self.label_ids[l] for l in b.labels))
            out += [int(b.traits.traits)]
            out += dcounters((self.aff_ids[k], v) for k, v in b.affinity_counters.items())
            out += dcounters((self.aff_ids[k], st.current_idx) for k, st in b.affinity_strategies.items())
            out += dlist([(-1 if ch is None else
                           (self.srv_ids[ch.name] if ch.name in self.srv_ids else self.bkt_ids[ch.name]))
                          for ch in b.children])
        groups = cell.identity_groups
        out.append(len(groups))
        for name in sorted(groups, key=lambda n: self.group_ids[n]):
            g = groups[name]
            out += [self.group_ids[name], int(g.count)] + dlist(sorted(g.available))
        out.append(len(cell.partitions))
        for label, part in cell.partitions.items():
            out.append(self.label_ids[label])
            out += self.dump_alloc(part.allocation)
        return out

    def dump_sched(self, placement):
        out = []
        for label, q in self.queues:
            out += [label, len(q)]
            for (a, rank, pending) in q:
                out += [a, rank, pending]
        for (name, sb, eb, sa, ea) in placement:
            out.append(self.app_ids[name])
            out += dopt(self.srv_ids[sb] if sb else None) + dopt(eb)
            out += dopt(self.srv_ids[sa] if sa else None) + dopt(ea)
        return out

    # -- python-native snapshot for the oracles --------------------------------
    def snapshot(self):
        cell = self.cell
        apps = {}
        for app in cell.apps.values():
            al = app.allocation
            apps[self.app_ids[app.name]] = {
                'server': self.srv_ids.get(app.server) if app.server else None,
                'server_name': app.server,
                'identity': app.identity, 'expiry': app.placement_expiry, 'prio': app.priority,
                'demand': [int(x) for x in app.demand], 'aff': self.aff_ids[app.affinity.name],
                'limits': self.__dict__.get('declared_limits', {}).get(
                    self.app_ids[app.name],
                    {LEVELS[k]: v for k, v in app.affinity.limits.items() if v != float('inf')}),
                'traits': int(app.traits), 'lease': app.lease, 'drt': app.data_retention_timeout,
                'group': self.group_ids.get(app.identity_group) if app.identity_group else None,
                'once': bool(app.schedule_once), 'evicted': bool(app.evicted), 'blacklisted': bool(app.blacklisted),
                'renew': bool(app.renew), 'unschedule': bool(app.unschedule),
                'rank': getattr(app, 'final_rank', -1),
                'label': self.label_ids[al.label] if al is not None else None,
                'alloc_path': [self.part_ids[x] for x in al.path] if al is not None else None,
                'order': app.global_order,
                'alloc_traits': int(al.traits) if al is not None else 0,
            }
        servers = {}
        for srv in cell.members().values():
            state, since = srv.get_state()
            chain = []
            n = srv.parent
            while n is not None:
                chain.append(self.bkt_ids[n.name])
                n = n.parent
            servers[self.srv_ids[srv.name]] = {
                'state': state.value, 'since': since, 'cap': [int(x) for x in srv.init_capacity],
                'free': [int(x) for x in srv.free_capacity], 'apps': [self.app_ids[n] for n in srv.apps],
                'label': self.label_ids[next(iter(srv.labels))], 'traits': int(srv.traits.traits),
                'valid_until': srv.valid_until, 'chain': chain,
                'counters': {self.aff_ids[k]: v for k, v in srv.affinity_counters.items() if v},
            }
        buckets = {}
        for bid, b in self.buckets.items():
            buckets[bid] = {
                'level': LEVELS[b.level], 'free': [int(x) for x in b.free_capacity],
                'labels': sorted(self.label_ids[l] for l in b.labels), 'traits': int(b.traits.traits),
                'counters': {self.aff_ids[k]: v for k, v in b.affinity_counters.items() if v},
                'children': [(None if ch is None else
                              (self.srv_ids[ch.name] if ch.name in self.srv_ids else self.bkt_ids[ch.name]))
                             for ch in b.children],
                'parent': self.bkt_ids[b.parent.name] if b.parent is not None else None,
            }
        groups = {self.group_ids[n]: {'count': g.count, 'available': sorted(g.available)}
                  for n, g in cell.identity_groups.items()}
        return {'now': self.clock.now, 'apps': apps, 'servers': servers, 'buckets': buckets, 'groups': groups}


def run_history(case, want_trace=True):
    """Execute a case on the implementation. Returns dict with digests, ops_with_choices, trace, error."""
    digests = []
    ops_out = []
    trace = []
    error = None
    with Impl(case['root']) as impl:
        for op in case['ops']:
            try:
                if op[0] == 'Schedule':
                    before = impl.snapshot() if want_trace else None
                    placement = impl.apply(op)
                    ops_out.append(['Schedule', [list(c) for c in impl.choices]])
                    d = impl.dump_sched(placement) + impl.dump()
                    if want_trace:
                        trace.append({'op': 'Schedule', 'before': before, 'after': impl.snapshot(),
                                      'queues': [[l, [list(e) for e in q]] for l, q in impl.queues],
                                      'placement': [[impl.app_ids[n], impl.srv_ids.get(sb) if sb else None, eb,
                                                     impl.srv_ids.get(sa) if sa else None, ea]
                                                    for (n, sb, eb, sa, ea) in placement],
                                      'puts': [list(p) for p in impl.put_log],
                                      'tracker_skipped': list(impl.tracker_skipped)})
                else:
                    rc = impl.apply(op)
                    if isinstance(rc, tuple) and rc[0] == 'resolved':
                        op = rc[1]
                    ops_out.append(['Tick', impl.clock.now] if rc == 'noop' else op)
                    d = impl.dump()
                    if want_trace:
                        trace.append({'op': op[0], 'args': op, 'now': impl.clock.now})
                digests.append(digest(d))
            except Exception as e:   # noqa
                import traceback
                error = {'at': len(digests), 'op': op, 'type': type(e).__name__, 'msg': str(e)[:300],
                         'tb': traceback.format_exc()[-1500:]}
                break
    return {'digests': digests, 'ops': ops_out, 'trace': trace, 'error': error}


def impl_dumps(case):
    """Full dumps after each op (diagnostics)."""
    out = []
    with Impl(case['root']) as impl:
        for op in case['ops']:
            if op[0] == 'Schedule':
                placement = impl.apply(op)
                out.append(impl.dump_sched(placement) + impl.dump())
            else:
                impl.apply(op)
                out.append(impl.dump())
    return out


# ---------------------------------------------------------------------------
# Gallina terms
# ---------------------------------------------------------------------------
def t_vec(v):
    return G.zlist(v)


def t_app(a):
    limits = G.lst(['(%s, %s)' % (G.z(l), G.z(v)) for l, v in a['limits']])
    return ('(mkApp %s %s %s %s %s %s %s %s %s %s %s None None None None false false false false (-1)%%Z)'
            % (G.z(a['name']), G.z(a['prio']), t_vec(a['demand']), G.z(a['aff']), limits, G.z(a['traits']),
               G.z(a['lease']), G.opt(a['drt'], G.z), G.opt(a['group'], G.z), G.b(a['once']), G.z(a['order'])))


def t_op(op):
    k = op[0]
    if k == 'AddBucket':
        return '(OAddBucket %s %s %s)' % (G.z(op[1]), G.z(op[2]), G.z(op[3]))
    if k == 'AddServer':
        return '(OAddServer %s %s %s %s %s %s)' % (G.z(op[1]), G.z(op[2]), t_vec(op[3]), G.z(op[4]), G.z(op[5]),
                                                   G.z(op[6]))
    if k == 'RemoveServer':
        return '(ORemoveServer %s %s)' % (G.z(op[1]), G.b(op[2]))
    if k == 'MoveServer':
        return '(OMoveServer %s %s)' % (G.z(op[1]), G.z(op[2]))
    if k == 'SetState':
        return '(OSetState %s %s %s)' % (G.z(op[1]), ['Up', 'Down', 'Frozen'][op[2]], G.z(op[3]))
    if k == 'SetValidUntil':
        return '(OSetValidUntil %s %s)' % (G.z(op[1]), G.z(op[2]))
    if k == 'AddApp':
        return '(OAddApp %s %s %s)' % (G.z(op[1]), G.zlist(op[2]), t_app(op[3]))
    if k == 'RemoveApp':
        return '(ORemoveApp %s)' % G.z(op[1])
    if k == 'SetPrio':
        return '(OSetPrio %s %s)' % (G.z(op[1]), G.z(op[2]))
    if k == 'SetDrt':
        return '(OSetDrt %s %s)' % (G.z(op[1]), G.opt(op[2], G.z))
    if k == 'SetBlacklisted':
        return '(OSetBlacklisted %s %s)' % (G.z(op[1]), G.b(op[2]))
    if k == 'SetRenew':
        return '(OSetRenew %s)' % G.z(op[1])
    if k == 'SetUnschedule':
        return '(OSetUnschedule %s)' % G.z(op[1])
    if k == 'UpdateAlloc':
        maxu = 'None' if op[6] is None else '(Some (%d # %d)%%Q)' % (op[6][0], op[6][1])
        return '(OUpdateAlloc %s %s %s %s %s %s %s)' % (G.z(op[1]), G.zlist(op[2]), t_vec(op[3]), G.z(op[4]),
                                                        G.z(op[5]), maxu, G.z(op[7]))
    if k == 'ConfigGroup':
        return '(OConfigGroup %s %s)' % (G.z(op[1]), G.z(op[2]))
    if k == 'RemoveGroup':
        return '(ORemoveGroup %s)' % G.z(op[1])
    if k == 'Tick':
        return '(OTick %s)' % G.z(op[1])
    if k == 'RestoreAt':
        return '(ORestore %s %s %s %s %s)' % (G.z(op[1]), G.z(op[2]), G.b(op[3]), G.z(op[4]), G.opt(op[5], G.z))
    if k == 'Schedule':
        return '(OSchedule %s)' % G.lst(['(%s, %s)' % (G.z(a), G.z(i)) for a, i in op[1]])
    raise ValueError(k)


def case_term(case, ops_with_choices):
    return '(3%%nat, %s, 1%%Z, %s)' % (G.z(case['root']), G.lst([t_op(o) for o in ops_with_choices]))


PREAMBLE = ('From Coq Require Import ZArith QArith List.\nImport ListNotations.\n'
            'From TM Require Import Sched.Vec Sched.Types Sched.Queue Sched.Tree Sched.Cycle Sched.Events.\n'
            'Open Scope Z_scope.\n')
IN_TYPE = 'nat * Z * Z * list op'
MODEL_VOS = ['Sched/Events']
