"""Translator section `svcframe` (Node/SvcFrame.v, Node/SvcFrameRun.v, Props/C14Frame.v): the resource-service
framework, services/_base_service.py and services/_linux_base_service.py.

Regenerated from the source on every run, fail closed (stdlib types only, so Gen/Tables.v does not depend on a model
file):

  module values, read from the imported treadmill.services._base_service (each bound exactly once: REQ_FILE, REP_FILE,
  RSRC_DIR by one module-level assignment, _REQ_UID_FILE by one assignment in the body of ResourceServiceClient), emitted
  as lists of character codes:
    svcframe_req_file, svcframe_rep_file, svcframe_rsrc_dir, svcframe_uid_file
  shape pinned by template (the function's AST - docstring dropped, every constant replaced by a hole - must equal the
  template's; every constant must have the template's value, except texts with a blank or a '%' in them: log and
  exception messages, only required to stay strings):
    _base_service.py: wait_for_file; ResourceServiceClient.put / delete / get / wait / _req_dirname;
      ResourceService.make_client / clt_new_request / clt_del_request / _check_requests / _on_created / _on_deleted
    _linux_base_service.py: the statements of LinuxResourceService._run up to and including impl.synchronize();
      LinuxResourceService.clt_update_request; _update_request
  each class is defined once at module level, each pinned method once in its class body and undecorated; no attribute of
  these names is assigned anywhere in the two files; LinuxResourceService derives from _base_service.ResourceService and
  does not override the pinned methods of the base class.
"""
import ast
import copy
import importlib
import sys

from . import gallina as G
from . import tables
from .tables import TranslatorError

_FILES = {'B': 'treadmill/services/_base_service.py', 'L': 'treadmill/services/_linux_base_service.py'}
_HOLE = '\x00hole'
CONSTS = ('REQ_FILE', 'REP_FILE', 'RSRC_DIR')
UID = '_REQ_UID_FILE'

_PINS = [
    ('B', None, 'wait_for_file', False, r'''
def wait_for_file(filename, timeout=None):
    """Wait at least ``timeout`` seconds for a file to appear or be modified.

    :param ``int`` timeout:
        Minimum amount of seconds to wait for the file.
    :returns ``bool``:
        ``True`` if there was an event, ``False`` otherwise (timeout).
    """
    if timeout is None:
        timeout = DEFAULT_TIMEOUT

    elif timeout == 0:
        return os.path.exists(filename)

    filedir = os.path.dirname(filename)
    # TODO: Fine tune the watcher mask for efficiency.
    watcher = dirwatch.DirWatcher(filedir)

    now = time.time()
    end_time = now + timeout
    while not os.path.exists(filename):
        if watcher.wait_for_events(timeout=max(0, end_time - now)):
            watcher.process_events()

        now = time.time()
        if now > end_time:
            return False

    return True
'''),
    ('B', 'ResourceServiceClient', 'put', False, r'''
def put(self, rsrc_id, rsrc_data):
    """Request creation/update of a resource.

    :param `str` rsrc_id:
        Unique identifier for the requested resource.
    :param `str` rsrc_data:
        (New) Parameters for the requested resource.
    """
    req_dir = self._req_dirname(rsrc_id)
    fs.mkdir_safe(req_dir)

    with io.open(os.path.join(req_dir, REQ_FILE), 'w') as f:
        if os.name == 'posix':
            os.fchmod(f.fileno(), 0o644)
        yaml.dump(rsrc_data,
                  explicit_start=True, explicit_end=True,
                  default_flow_style=False,
                  stream=f)

    req_uuid_file = os.path.join(req_dir, self._REQ_UID_FILE)
    try:
        with io.open(req_uuid_file) as f:
            svc_req_uuid = f.read().strip()
    except IOError as err:
        if err.errno == errno.ENOENT:
            svc_req_uuid = None
        else:
            raise

    with lc.LogContext(_LOGGER, rsrc_id):
        if svc_req_uuid is None:
            try:
                # New request
                svc_req_uuid = self._serviceinst.clt_new_request(rsrc_id,
                                                                 req_dir)
                # Write down the UUID
                with io.open(req_uuid_file, 'w') as f:
                    f.write(svc_req_uuid)
                    os.fchmod(f.fileno(), 0o644)

            except OSError:
                # Error registration failed, delete the request.
                _LOGGER.exception('Unable to submit request')
                fs.rmtree_safe(req_dir)

        else:
            self._serviceinst.clt_update_request(svc_req_uuid)
'''),
    ('B', 'ResourceServiceClient', 'delete', False, r'''
def delete(self, rsrc_id):
    """Delete an existing resource.

    :param `str` rsrc_id:
        Unique identifier for the requested resource.
    """
    with lc.LogContext(_LOGGER, rsrc_id,
                       adapter_cls=lc.ContainerAdapter) as log:
        req_dir = self._req_dirname(rsrc_id)
        try:
            with io.open(os.path.join(req_dir, self._REQ_UID_FILE)) as f:
                svc_req_uuid = f.read().strip()
        except IOError as err:
            if err.errno == errno.ENOENT:
                log.warning('Resource %r does not exist', rsrc_id)
                return
            raise
        self._serviceinst.clt_del_request(svc_req_uuid)
        os.rename(
            req_dir,
            self._bck_dirname(svc_req_uuid)
        )
'''),
    ('B', 'ResourceServiceClient', 'get', False, r'''
def get(self, rsrc_id):
    """Get the result of a resource request.

    :param `str` rsrc_id:
        Unique identifier for the requested resource.
    :raises ``ResourceServiceRequestError``:
        If the request resulted in error.
    """
    try:
        res = self.wait(rsrc_id, timeout=0)
    except ResourceServiceTimeoutError:
        res = None
    return res
'''),
    ('B', 'ResourceServiceClient', 'wait', False, r'''
def wait(self, rsrc_id, timeout=None):
    """Wait for a requested resource to be ready.

    :param `str` rsrc_id:
        Unique identifier for the requested resource.
    :raises ``ResourceServiceRequestError``:
        If the request resulted in error.
    :raises ``ResourceServiceTimeoutError``:
        If the request was not available before timeout.
    """
    req_dir = self._req_dirname(rsrc_id)
    rep_file = os.path.join(req_dir, REP_FILE)

    if not wait_for_file(rep_file, timeout):
        raise ResourceServiceTimeoutError(
            'Resource %r not available in time' % rsrc_id
        )

    try:
        with io.open(rep_file) as f:
            reply = yaml.load(stream=f)

    except (IOError, OSError) as err:
        if err.errno == errno.ENOENT:
            raise ResourceServiceTimeoutError(
                'Resource %r not available in time' % rsrc_id
            )

    if isinstance(reply, dict) and '_error' in reply:
        raise ResourceServiceRequestError(reply['_error']['why'],
                                          reply['_error']['input'])

    return reply
'''),
    ('B', 'ResourceServiceClient', '_req_dirname', False, r'''
def _req_dirname(self, rsrc_id):
    """Request directory name for a given resource id.

    :param `str` rsrc_id:
        Unique identifier for the requested resource.
    """
    req_dir_name = 'req-{name}-{rsrc_id}'.format(
        name=self._serviceinst.name,
        rsrc_id=rsrc_id
    )
    req_dir = os.path.join(self._clientdir, req_dir_name)
    return req_dir
'''),
    ('B', 'ResourceService', 'make_client', False, r'''
def make_client(self, client_dir):
    """Create a client using `clientdir` as request dir location.
    """
    return ResourceServiceClient(self, client_dir)
'''),
    ('B', 'ResourceService', 'clt_new_request', False, r'''
def clt_new_request(self, req_id, req_data_dir):
    """Add a request data dir as `req_id` to the service.

    This should only be called by the client instance.
    """
    svc_req_lnk = os.path.join(self._rsrc_dir, req_id)
    _LOGGER.info('Registering %r: %r -> %r',
                 req_id, svc_req_lnk, req_data_dir)
    # NOTE(boysson): We use a temporary file + rename behavior to override
    #                any potential old symlinks.
    tmpsymlink = tempfile.mktemp(dir=self._rsrc_dir,
                                 prefix='.tmp' + req_id)
    os.symlink(req_data_dir, tmpsymlink)
    os.rename(tmpsymlink, svc_req_lnk)
    return req_id
'''),
    ('B', 'ResourceService', 'clt_del_request', False, r'''
def clt_del_request(self, req_id):
    """Remove an existing request.

    This should only be called by the client instance.
    """
    svc_req_lnk = os.path.join(self._rsrc_dir, req_id)
    _LOGGER.info('Unregistering %r: %r', req_id, svc_req_lnk)
    fs.rm_safe(svc_req_lnk)

    return req_id
'''),
    ('B', 'ResourceService', '_check_requests', False, r'''
def _check_requests(self):
    """Check each existing request and remove stale ones.
    """
    svcs = collections.deque()
    for svc in glob.glob(os.path.join(self._rsrc_dir, '*')):
        try:
            os.stat(svc)
            svcs.append(svc)

        except OSError as err:
            if err.errno == errno.ENOENT:
                _LOGGER.warning('Deleting stale request: %r', svc)
                fs.rm_safe(svc)
            else:
                raise

    return svcs
'''),
    ('B', 'ResourceService', '_on_created', False, r'''
def _on_created(self, impl, filepath):
    """Private handler for request creation events.
    """
    # Avoid triggering on changes to the service directory itself.
    if filepath == self._rsrc_dir:
        return False

    req_id = os.path.basename(filepath)

    # Avoid triggerring on temporary files
    if req_id[0] == '.':
        return False

    req_file = os.path.join(filepath, REQ_FILE)
    rep_file = os.path.join(filepath, REP_FILE)

    try:
        with io.open(req_file) as f:
            req_data = yaml.load(stream=f)

    except IOError as err:
        if (err.errno == errno.ENOENT or
                err.errno == errno.ENOTDIR):
            _LOGGER.exception('Removing invalid request: %r', req_id)
            try:
                fs.rm_safe(filepath)
            except OSError as rm_err:
                if rm_err.errno == errno.EISDIR:
                    fs.rmtree_safe(filepath)
                else:
                    raise
            return False
        raise

    # TODO: We should also validate the req_id format
    with lc.LogContext(_LOGGER, req_id,
                       adapter_cls=lc.ContainerAdapter) as log:

        log.debug('created %r: %r', req_id, req_data)

        try:
            # TODO: We should also validate the req_id format
            utils.validate(req_data, impl.PAYLOAD_SCHEMA)
            res = impl.on_create_request(req_id, req_data)

        except exc.InvalidInputError as err:
            log.error('Invalid request data: %r: %s', req_data, err)
            res = {'_error': {'input': req_data, 'why': str(err)}}

        except Exception as err:  # pylint: disable=W0703
            log.exception('Unable to process request: %r %r:',
                          req_id, req_data)
            res = {'_error': {'input': req_data, 'why': str(err)}}

    if res is None:
        # Request was not actioned
        return False

    fs.write_safe(
        rep_file,
        lambda f: yaml.dump(
            res, explicit_start=True, explicit_end=True,
            default_flow_style=False, stream=f
        ),
        mode='w',
        permission=0o644
    )

    # Return True if there were no error
    return not bool(res.get('_error', False))
'''),
    ('B', 'ResourceService', '_on_deleted', False, r'''
def _on_deleted(self, impl, filepath):
    """Private handler for request deletion events.
    """
    req_id = os.path.basename(filepath)

    # Avoid triggerring on temporary files
    if req_id[0] == '.':
        return None

    # TODO: We should also validate the req_id format
    with lc.LogContext(_LOGGER, req_id,
                       adapter_cls=lc.ContainerAdapter) as log:

        log.debug('deleted %r', req_id)
        try:
            res = impl.on_delete_request(req_id)

        except Exception as err:  # pylint: disable=W0703
            log.exception('Unable to delete request: %r', req_id)
            res = {'_error': {'why': str(err)}}

    return res
'''),
    ('L', 'LinuxResourceService', '_run', True, r'''
def _run(self, impl, watchdog_lease):
    """Linux implementation of run.
    """
    # Run initialization
    impl.initialize(self._dir)

    # Create the status socket
    ss = self._create_status_socket()

    watcher = dirwatch.DirWatcher(self._rsrc_dir)
    # Call all the callbacks with the implementation instance
    watcher.on_created = functools.partial(self._on_created, impl)
    watcher.on_deleted = functools.partial(self._on_deleted, impl)
    # NOTE: A modified request is treated as a brand new request
    watcher.on_modified = functools.partial(self._on_created, impl)

    self._io_eventfd = eventfd.eventfd(0, eventfd.EFD_CLOEXEC)

    # Before starting, check the request directory
    svcs = self._check_requests()
    # and "fake" a created event on all the existing requests
    for existing_svcs in svcs:
        self._on_created(impl, existing_svcs)

    # Before starting, make sure backend state and service state are
    # synchronized.
    impl.synchronize()
'''),
    ('L', 'LinuxResourceService', 'clt_update_request', False, r'''
def clt_update_request(self, req_id):
    """Update an existing request.

    This should only be called by the client instance.
    """
    _update_request(self._rsrc_dir, req_id)
'''),
    ('L', None, '_update_request', False, r'''
def _update_request(rsrc_dir, req_id):
    """Update an existing request.

    This should only be called by the client instance.
    """
    svc_req_lnk = os.path.join(rsrc_dir, req_id)
    _LOGGER.debug('Updating %r: %r', req_id, svc_req_lnk)
    # Remove any reply if it exists
    fs.rm_safe(os.path.join(svc_req_lnk, _base_service.REP_FILE))

    # NOTE: This does the equivalent of a touch on the symlink
    try:
        os.lchown(
            svc_req_lnk,
            os.getuid(),
            os.getgid()
        )
    except OSError as err:
        if err.errno != errno.ENOENT:
            raise
'''),
]


class _Holes(ast.NodeTransformer):
    def __init__(self):
        self.values = []

    def visit_Constant(self, node):
        self.values.append(node.value)
        return ast.copy_location(ast.Constant(value=_HOLE), node)


def _strip_doc(node, what):
    node = copy.deepcopy(node)
    if node.body and isinstance(node.body[0], ast.Expr) and isinstance(node.body[0].value, ast.Constant) \
            and isinstance(node.body[0].value.value, str):
        node.body = node.body[1:]
    if not node.body:
        raise TranslatorError('%s has an empty body' % what)
    return node


def _shape(node, what):
    h = _Holes()
    node = h.visit(_strip_doc(node, what))
    return ast.dump(node, annotate_fields=True, include_attributes=False), h.values


def _is_msg(v):
    return isinstance(v, str) and (' ' in v or '%' in v)


def _compare(what, node, template_node):
    want_shape, want_vals = _shape(template_node, what)
    got_shape, got_vals = _shape(node, what)
    if got_shape != want_shape:
        i = next((k for k, (a, b) in enumerate(zip(got_shape, want_shape)) if a != b),
                 min(len(got_shape), len(want_shape)))
        raise TranslatorError('%s: the code no longer has the modelled shape (near %r, expected %r)'
                              % (what, got_shape[max(0, i - 50):i + 70], want_shape[max(0, i - 50):i + 70]))
    if len(got_vals) != len(want_vals):
        raise TranslatorError('%s: constant count changed' % what)
    for i, (g, w) in enumerate(zip(got_vals, want_vals)):
        if _is_msg(w):
            if not isinstance(g, str):
                raise TranslatorError('%s: the message constant #%d is %r' % (what, i, g))
        elif type(g) is not type(w) or g != w:
            raise TranslatorError('%s: constant #%d is %r, the model has %r' % (what, i, g, w))


def _the_class(tree, where, name):
    defs = [n for n in ast.walk(tree) if isinstance(n, (ast.ClassDef, ast.FunctionDef, ast.AsyncFunctionDef))
            and n.name == name]
    top = [n for n in tree.body if n in defs]
    if len(defs) != 1 or len(top) != 1 or not isinstance(top[0], ast.ClassDef):
        raise TranslatorError('%s: expected exactly one definition of class %s, at module level (found %d)'
                              % (where, name, len(defs)))
    for x in ast.walk(tree):
        if isinstance(x, ast.Name) and x.id == name and isinstance(x.ctx, (ast.Store, ast.Del)):
            raise TranslatorError('%s: %s is rebound (line %d)' % (where, name, x.lineno))
    return top[0]


def _the_function(body, where, owner, name):
    """the one undecorated def of `name` directly in `body` (a module or a class body)"""
    defs = [n for n in body if isinstance(n, (ast.FunctionDef, ast.AsyncFunctionDef, ast.ClassDef)) and n.name == name]
    if len(defs) != 1 or not isinstance(defs[0], ast.FunctionDef):
        raise TranslatorError('%s: expected exactly one def %s%s (found %d)' % (where, owner, name, len(defs)))
    if defs[0].decorator_list:
        raise TranslatorError('%s: %s%s is decorated' % (where, owner, name))
    for st in body:
        for x in ast.walk(st) if not isinstance(st, (ast.FunctionDef, ast.AsyncFunctionDef, ast.ClassDef)) else []:
            if isinstance(x, ast.Name) and x.id == name and isinstance(x.ctx, (ast.Store, ast.Del)):
                raise TranslatorError('%s: %s%s is rebound (line %d)' % (where, owner, name, x.lineno))
    return defs[0]


def _no_patching(tree, where, names):
    """nobody assigns or deletes an attribute / a global of one of the pinned names (monkey patching), no setattr"""
    for x in ast.walk(tree):
        if isinstance(x, ast.Attribute) and x.attr in names and isinstance(x.ctx, (ast.Store, ast.Del)):
            raise TranslatorError('%s: an attribute %s is assigned (line %d)' % (where, x.attr, x.lineno))
        if isinstance(x, ast.Call) and isinstance(x.func, ast.Name) and x.func.id in ('setattr', 'delattr'):
            raise TranslatorError('%s: %s() is used (line %d)' % (where, x.func.id, x.lineno))
        if isinstance(x, ast.Global) and set(x.names) & set(names):
            raise TranslatorError('%s: "global" on a pinned name (line %d)' % (where, x.lineno))
        if isinstance(x, ast.ImportFrom) and any(a.name == '*' for a in x.names):
            raise TranslatorError('%s: "import *" (line %d)' % (where, x.lineno))


def _prefix(fn, where):
    """the statements of _run up to and including the expression statement impl.synchronize()"""
    fn = copy.deepcopy(fn)
    for i, st in enumerate(fn.body):
        if isinstance(st, ast.Expr) and isinstance(st.value, ast.Call) and isinstance(st.value.func, ast.Attribute) \
                and st.value.func.attr == 'synchronize' and isinstance(st.value.func.value, ast.Name) \
                and st.value.func.value.id == 'impl' and not st.value.args and not st.value.keywords:
            fn.body = fn.body[:i + 1]
            return fn
    raise TranslatorError('%s: LinuxResourceService._run has no top-level statement impl.synchronize()' % where)


def _import(modname):
    if tables.PY not in sys.path:
        sys.path.insert(0, tables.PY)
    try:
        mod = importlib.import_module(modname)
    except Exception as e:   # fail closed
        raise TranslatorError('cannot import %s: %s: %s' % (modname, type(e).__name__, e))
    if getattr(mod, '__file__', None) is None or not mod.__file__.startswith(tables.PY):
        raise TranslatorError('%s was imported from %r, not from %s' % (modname, getattr(mod, '__file__', None),
                                                                      tables.PY))
    return mod


def _bound_once(tree, where):
    for name in CONSTS:
        n_all = sum(1 for x in ast.walk(tree) if isinstance(x, ast.Name) and x.id == name
                    and isinstance(x.ctx, (ast.Store, ast.Del)))
        top = [st for st in tree.body if isinstance(st, ast.Assign) and len(st.targets) == 1
               and isinstance(st.targets[0], ast.Name) and st.targets[0].id == name
               and isinstance(st.value, ast.Constant) and isinstance(st.value.value, str)]
        if n_all != 1 or len(top) != 1:
            raise TranslatorError('%s: %s must be assigned exactly once, a string literal at module level (found %d '
                                  'bindings)' % (where, name, n_all))
        for x in ast.walk(tree):
            if isinstance(x, ast.arg) and x.arg == name:
                raise TranslatorError('%s: %s is shadowed by a parameter (line %d)' % (where, name, x.lineno))
            if isinstance(x, (ast.FunctionDef, ast.AsyncFunctionDef, ast.ClassDef)) and x.name == name:
                raise TranslatorError('%s: %s is also a def/class (line %d)' % (where, name, x.lineno))
            if isinstance(x, (ast.Import, ast.ImportFrom)):
                for a in x.names:
                    if (a.asname or a.name.split('.')[0]) == name:
                        raise TranslatorError('%s: %s may be rebound by an import (line %d)' % (where, name, x.lineno))
    cls = _the_class(tree, where, 'ResourceServiceClient')
    uid = [st for st in cls.body if isinstance(st, ast.Assign) and len(st.targets) == 1
           and isinstance(st.targets[0], ast.Name) and st.targets[0].id == UID
           and isinstance(st.value, ast.Constant) and isinstance(st.value.value, str)]
    n_uid = sum(1 for x in ast.walk(tree) if isinstance(x, ast.Name) and x.id == UID
                and isinstance(x.ctx, (ast.Store, ast.Del)))
    if len(uid) != 1 or n_uid != 1:
        raise TranslatorError('%s: ResourceServiceClient.%s must be assigned exactly once, a string literal in the '
                              'class body' % (where, UID))


def svcframe_facts():
    trees = {k: ast.parse(tables._src(v)) for k, v in _FILES.items()}
    pinned_names = set(p[2] for p in _PINS) | set(CONSTS) | {UID}
    for k, tree in trees.items():
        _no_patching(tree, _FILES[k], pinned_names)
    classes = {}
    for f, cls, name, prefix, template in _PINS:
        where = _FILES[f]
        if cls is None:
            body, owner = trees[f].body, ''
            if sum(1 for n in ast.walk(trees[f]) if isinstance(n, (ast.FunctionDef, ast.ClassDef)) and n.name == name) != 1:
                raise TranslatorError('%s: %s is defined more than once' % (where, name))
        else:
            if (f, cls) not in classes:
                classes[(f, cls)] = _the_class(trees[f], where, cls)
            body, owner = classes[(f, cls)].body, cls + '.'
        fn = _the_function(body, where, owner, name)
        want = ast.parse(template).body[0]
        if prefix:
            fn = _prefix(fn, where)
        _compare('%s %s%s' % (where, owner, name), fn, want)
    # the linux class derives from the pinned base class and does not override what is pinned there
    lin = classes[('L', 'LinuxResourceService')]
    if [ast.dump(b) for b in lin.bases] != [ast.dump(ast.parse('_base_service.ResourceService').body[0].value)] \
            or lin.keywords:
        raise TranslatorError('%s: LinuxResourceService no longer derives from _base_service.ResourceService only'
                              % _FILES['L'])
    base_pinned = set(p[2] for p in _PINS if p[1] == 'ResourceService')
    for st in lin.body:
        for x in ast.walk(st) if not isinstance(st, ast.FunctionDef) else [st]:
            nm = x.name if isinstance(x, (ast.FunctionDef, ast.ClassDef)) else x.id if isinstance(x, ast.Name) \
                and isinstance(x.ctx, ast.Store) else None
            if nm in base_pinned:
                raise TranslatorError('%s: LinuxResourceService overrides %s' % (_FILES['L'], nm))
    imps = [st for st in trees['L'].body if isinstance(st, ast.ImportFrom) and st.level == 1 and st.module is None
            and [(a.name, a.asname) for a in st.names] == [('_base_service', None)]]
    if len(imps) != 1:
        raise TranslatorError('%s: expected exactly one "from . import _base_service"' % _FILES['L'])
    for x in ast.walk(trees['L']):
        if isinstance(x, ast.Name) and x.id == '_base_service' and isinstance(x.ctx, (ast.Store, ast.Del)):
            raise TranslatorError('%s: _base_service is rebound (line %d)' % (_FILES['L'], x.lineno))
    _bound_once(trees['B'], _FILES['B'])
    base = _import('treadmill.services._base_service')
    lin_mod = _import('treadmill.services._linux_base_service')
    if lin_mod._base_service is not base:   # pylint: disable=protected-access
        raise TranslatorError('_linux_base_service._base_service is not treadmill.services._base_service')
    f = {}
    for name in CONSTS:
        f[name] = getattr(base, name, None)
    f[UID] = getattr(base.ResourceServiceClient, UID, None)
    for name, v in f.items():
        if type(v) is not str or not v or len(v) > 64 or any(ord(ch) > 126 or ord(ch) < 33 for ch in v):
            raise TranslatorError('%s = %r is not a plain file name' % (name, v))
    return f


def _codes(s):
    return '[' + '; '.join(str(ord(ch)) for ch in s) + ']'


def _emit():
    f = svcframe_facts()
    return (
        '(* services/_base_service.py: the file names of a request directory and of the service directory (character\n'
        '   codes); the shape of the client, of _check_requests / _on_created / _on_deleted and of the start-up sequence of\n'
        '   LinuxResourceService._run pinned by AST template (harness/tables_svcframe.py) *)\n'
        'Definition svcframe_req_file : list Z := %s.\n'
        'Definition svcframe_rep_file : list Z := %s.\n'
        'Definition svcframe_rsrc_dir : list Z := %s.\n'
        'Definition svcframe_uid_file : list Z := %s.\n'
        % (_codes(f['REQ_FILE']), _codes(f['REP_FILE']), _codes(f['RSRC_DIR']), _codes(f[UID])))


tables.register('svcframe', _emit)
