"""Property statements C01..C08 restated over E-cell implementation traces (Schedule records).

Each oracle takes one Schedule record {'before','after','queues','placement','puts'} and returns a list of
(signature, what). They are the search procedure for failing inputs, never the claim."""
from .ecell import UNPLACED


def _vec_le(a, b):
    return all(x <= y for x, y in zip(a, b))


def c01(rec):
    out = []
    aft = rec['after']
    apps, servers = aft['apps'], aft['servers']
    seen = {}
    for sid, s in servers.items():
        tot = [0, 0, 0]
        for a in s['apps']:
            if a in seen:
                out.append(('instance-on-two-servers', 'instance %d is listed on servers %d and %d' % (a, seen[a], sid)))
            seen[a] = sid
            if a not in apps:
                out.append(('server-lists-unknown-instance', 'server %d lists instance %d which is not scheduled' % (sid, a)))
                continue
            tot = [t + d for t, d in zip(tot, apps[a]['demand'])]
            if apps[a]['server'] != sid:
                out.append(('views-disagree', 'server %d lists instance %d whose own server is %r' % (sid, a, apps[a]['server'])))
        if not _vec_le(tot, s['cap']):
            out.append(('oversubscribed', 'server %d: summed demand %r exceeds capacity %r' % (sid, tot, s['cap'])))
        if [c - t for c, t in zip(s['cap'], tot)] != s['free']:
            out.append(('free-capacity-wrong', 'server %d: free %r != capacity %r - demand %r' % (sid, s['free'], s['cap'], tot)))
    for aid, a in apps.items():
        if a['server_name'] is not None:
            if a['server'] is None or a['server'] not in servers:
                out.append(('placed-on-missing-server', 'instance %d is placed on %r which is not in the cell' % (aid, a['server_name'])))
            elif aid not in servers[a['server']]['apps']:
                out.append(('views-disagree', 'instance %d says server %d which does not list it' % (aid, a['server'])))
    return out


def _true_counts(aft):
    """(node id -> aff -> count) for servers and buckets, recounted from the leaves. An instance counts on the server
    that lists it and on the server it names itself (the two views agree when C01 holds; when they do not, an instance
    that says it runs on a server is running there for the purposes of its affinity limits)."""
    apps, servers, buckets = aft['apps'], aft['servers'], aft['buckets']
    cnt = {}
    on = {sid: [a for a in s['apps'] if a in apps] for sid, s in servers.items()}
    for a, ap in apps.items():
        sid = ap.get('server')
        if sid is not None and sid in on and a not in on[sid]:
            on[sid].append(a)
    for sid, s in servers.items():
        for a in on[sid]:
            aff = apps[a]['aff']
            for node in [sid] + s['chain']:
                cnt.setdefault(node, {}).setdefault(aff, 0)
                cnt[node][aff] += 1
    return cnt, on


def c04(rec, state=None):
    out = []
    state = state if state is not None else {}
    tainted = state.setdefault('tainted', set())
    # servers re-attached since the last cycle: remember which instances travelled with them
    for sid in state.pop('moved', set()):
        if sid in rec['before']['servers']:
            state.setdefault('moved_apps', {})[sid] = set(rec['before']['servers'][sid]['apps'])
    aft = rec['after']
    apps, servers, buckets = aft['apps'], aft['servers'], aft['buckets']
    cnt, on = _true_counts(aft)
    for node in list(servers) + list(buckets):
        stored = (servers[node] if node in servers else buckets[node])['counters']
        true = {k: v for k, v in cnt.get(node, {}).items() if v}
        if stored != true:
            out.append(('affinity-counter-wrong', 'node %d stores counters %r, true counts %r' % (node, stored, true)))
    direct = {a: site for a, _s, site in rec['puts'] if site != 'put'}
    reported = set()
    for sid, s in servers.items():
        for a in on[sid]:
            ap = apps[a]
            for node in [sid] + s['chain']:
                level = 0 if node in servers else buckets[node]['level']
                lim = ap['limits'].get(level)
                if lim is None or cnt[node][ap['aff']] <= lim or (node, ap['aff']) in reported:
                    continue
                reported.add((node, ap['aff']))
                under = [b for s2id, s2 in servers.items() if node == s2id or node in s2['chain']
                         for b in on[s2id] if apps[b]['aff'] == ap['aff']]
                sites = sorted({direct[b] for b in under if b in direct})
                if sites:
                    tainted.add((node, ap['aff']))
                # a populated server that was re-attached under this node since it was populated (topology change)
                moved = state.get('moved_apps', {})
                if any(s2id in moved and (node == s2id or node in s2['chain']) and
                       any(b in apps and b in moved[s2id] and apps[b]['aff'] == ap['aff'] for b in s2['apps'])
                       for s2id, s2 in servers.items()):
                    state.setdefault('tainted_topo', set()).add((node, ap['aff']))
                # an instance below this node was put there by the loader's restore (Server.put / Server.restore check the
                # server's own limit only; the histories C04 quantifies over are those of the scheduler's own puts)
                restored = state.get('restored', set())
                if level != 0 and any(b in restored for b in under):
                    continue
                sig = 'affinity-limit-exceeded'
                if level != 0 and (node, ap['aff']) in tainted:
                    sig = 'affinity-limit-exceeded-above-server-level-after-direct-put'
                elif level != 0 and (node, ap['aff']) in state.get('tainted_topo', ()):
                    sig = 'affinity-limit-exceeded-above-server-level-after-topology-change'
                out.append((sig, 'node %d (level %d): %d instances of affinity %d, limit %d (direct puts this cycle: %s)'
                            % (node, level, cnt[node][ap['aff']], ap['aff'], lim, ','.join(sites) or '-')))
    return out


def c05(rec):
    out = []
    aft = rec['after']
    apps, groups = aft['apps'], aft['groups']
    holders = {}
    for aid, a in apps.items():
        g = a['group']
        if g is None:
            continue
        if a['identity'] is not None:
            if (g, a['identity']) in holders:
                out.append(('duplicate-identity', 'instances %d and %d both hold identity %d of group %d'
                            % (holders[(g, a['identity'])], aid, a['identity'], g)))
            holders[(g, a['identity'])] = aid
            if g in groups and a['identity'] >= groups[g]['count']:
                out.append(('identity-out-of-range', 'instance %d holds identity %d, group %d has count %d'
                            % (aid, a['identity'], g, groups[g]['count'])))
            if g in groups and a['identity'] in groups[g]['available']:
                out.append(('held-identity-also-available', 'identity %d of group %d is held by %d and offered as free'
                            % (a['identity'], g, aid)))
            if a['server'] is None:
                why = ('schedule-once-evicted' if (a['once'] and a['evicted'])
                       else 'renewal-restore-refused' if a.get('renew') else 'other')
                out.append(('pending-instance-holds-identity:' + why,
                            'instance %d is not placed but holds identity %d of group %d' % (aid, a['identity'], g)))
        elif a['server'] is not None:
            out.append(('placed-instance-without-identity', 'instance %d is placed on %d without an identity of group %d'
                        % (aid, a['server'], g)))
    return out


def _queue_pos(rec):
    pos = {}
    ranks = {}
    label_of = {}
    for label, q in rec['queues']:
        for i, (a, rank, pending) in enumerate(q):
            pos[a] = i
            ranks[a] = rank
            label_of[a] = label
    return pos, ranks, label_of


def c03(rec, state=None):
    out = []
    requested = (state or {}).get('lease', {})
    bef, aft = rec['before'], rec['after']
    for (a, sb, _eb, sa, ea) in rec['placement']:
        if a not in aft['apps'] or sa is None:
            continue
        ap = aft['apps'][a]
        srv = aft['servers'].get(sa)
        if srv is None:
            continue
        need = ap['traits']
        if sa != sb:
            if srv['state'] != 'up':
                out.append(('assigned-to-non-up-server', 'instance %d assigned to server %d in state %s' % (a, sa, srv['state'])))
            if srv['label'] != ap['label']:
                out.append(('assigned-to-wrong-partition', 'instance %d (partition %r) assigned to server %d of partition %d'
                            % (a, ap['label'], sa, srv['label'])))
            if need and (srv['traits'] & need) != need:
                out.append(('assigned-without-traits', 'instance %d needs traits %d, server %d has %d' % (a, need, sa, srv['traits'])))
            # the lease the instance ASKED for (from the submitted record, not from the object the scheduler may have changed)
            lease = requested.get(a, ap['lease'])
            if lease and not (aft['now'] + lease < srv['valid_until']):
                out.append(('assigned-past-reboot', 'instance %d lease %d from %d does not end before server %d reboots at %d'
                            % (a, lease, aft['now'], sa, srv['valid_until'])))
        else:
            if srv['label'] != ap['label']:
                out.append(('kept-on-server-of-other-partition', 'instance %d now belongs to partition %r but stays on server %d of partition %d'
                            % (a, ap['label'], sa, srv['label'])))
            elif need and (srv['traits'] & need) != need:
                out.append(('kept-on-server-without-traits', 'instance %d needs traits %d, stays on server %d with %d'
                            % (a, need, sa, srv['traits'])))
    return out


def _pending_after_phases(bef, ap):
    """is the instance without a server once _fix_invalid_placements, _handle_inactive_servers,
    _handle_blacklisted_apps and _fix_invalid_identities have run?"""
    sid = ap['server']
    if sid is None or sid not in bef['servers']:
        return True
    s = bef['servers'][sid]
    now = bef['now']
    if s['state'] == 'down' and (ap['drt'] is None or s['since'] + ap['drt'] <= now):
        return True
    if s['state'] == 'frozen' and ap['unschedule']:
        return True
    if ap['blacklisted']:
        return True
    g = ap['group']
    if g is not None and ap['identity'] is not None and g in bef['groups'] and ap['identity'] >= bef['groups'][g]['count']:
        return True
    return False


def c06(rec):
    out = []
    bef = rec['before']
    for label, q in rec['queues']:
        names = [a for a, _r, _p in q]
        if len(set(names)) != len(names):
            out.append(('queue-duplicate', 'partition %d queue considers an instance twice' % label))
        expect = sorted(a for a, ap in bef['apps'].items() if ap['label'] == label)
        if sorted(names) != expect:
            out.append(('queue-not-all-instances', 'partition %d queue %r != instances %r' % (label, sorted(names), expect)))
        ranks = [r for _a, r, _p in q]
        if any(x > y for x, y in zip(ranks, ranks[1:])):
            out.append(('queue-rank-not-monotone', 'partition %d queue ranks %r' % (label, ranks)))
        # running/pending as the statement means it: the state in which the instance is when the loop considers it,
        # i.e. after the four phases that precede the queue (recomputed here from the snapshot before the cycle)
        for a, _r, pend in q:
            ap = bef['apps'].get(a)
            if ap is None:
                continue
            exp = _pending_after_phases(bef, ap)
            if bool(pend) != exp:
                out.append(('queue-running-flag-stale',
                            'partition %d: instance %d is %s when the loop considers it but was queued as %s'
                            % (label, a, 'pending' if exp else 'running', 'pending' if pend else 'running')))
        groups = {}
        for a, _r, pend in q:
            ap = bef['apps'].get(a)
            if ap is not None and ap.get('alloc_path') is not None:
                # running/pending as the queue saw it (after the cycle's first phases), not as before the cycle
                groups.setdefault(tuple(ap['alloc_path']), []).append(((-ap['prio'], pend, ap['order']), a))
        for path, seq in groups.items():
            keys = [k for k, _a in seq]
            if keys != sorted(keys):
                out.append(('allocation-order-not-priority-running-firstcome',
                            'partition %d allocation %r: instances appear as %r (keys %r)'
                            % (label, list(path), [a for _k, a in seq], keys)))
        for i in range(len(q) - 1):
            a, r, _ = q[i]
            b, r2, _ = q[i + 1]
            if r == r2 and a in bef['apps'] and b in bef['apps']:
                if bef['apps'][a]['prio'] == 0 and bef['apps'][b]['prio'] != 0:
                    out.append(('priority0-before-others', 'partition %d: priority-0 instance %d precedes %d at rank %d' % (label, a, b, r)))
    return out


def c07(rec):
    out = []
    bef, aft = rec['before'], rec['after']
    pos, ranks, label_of = _queue_pos(rec)
    after_srv = {a: sa for (a, _sb, _eb, sa, _ea) in rec['placement']}
    before_srv = {a: sb for (a, sb, _eb, _sa, _ea) in rec['placement']}
    gained = {a for a in after_srv if after_srv[a] is not None and after_srv[a] != before_srv.get(a)}
    for a, ap in bef['apps'].items():
        sb = ap['server']
        if sb is None or sb not in bef['servers'] or bef['servers'][sb]['state'] != 'up':
            continue
        if a not in pos or a not in aft['apps']:
            continue
        if ap['blacklisted'] or ranks[a] == UNPLACED:
            continue
        g = ap['group']
        if g is not None and ap['identity'] is not None and g in bef['groups'] and ap['identity'] >= bef['groups'][g]['count']:
            continue
        if ap['renew'] and ap['lease'] and not (bef['now'] + ap['lease'] < bef['servers'][sb]['valid_until']):
            continue
        if aft['apps'][a]['server'] == sb:
            continue
        ahead = [b for b in gained if label_of.get(b) == label_of[a] and pos.get(b, 1 << 30) < pos[a]]
        if not ahead:
            srv0 = bef['servers'][sb]
            stale = (srv0['label'] != ap['label']) or (ap['traits'] and (srv0['traits'] & ap['traits']) != ap['traits'])
            out.append(('displaced-without-beneficiary-ahead' + (':placement-stale-for-its-allocation' if stale else ''),
                        'instance %d (queue position %d) lost server %d -> %r and no instance ahead of it gained a placement'
                        % (a, pos[a], sb, aft['apps'][a]['server'])))
    return out


def c08(rec, state=None):
    out = []
    state = state if state is not None else {}
    tracked = state.get('srv', {})
    bef, aft = rec['before'], rec['after']
    pos, ranks, label_of = _queue_pos(rec)
    now = bef['now']
    for sid, s in bef['servers'].items():
        if sid not in aft['servers']:
            continue
        if s['state'] == 'up':
            continue
        since = s['since']
        if sid in tracked and tracked[sid][0] == s['state'] and tracked[sid][1] != s['since']:
            out.append(('server-state-since-changed-without-transition',
                        'server %d has been %s since %r but the scheduler says since %r'
                        % (sid, s['state'], tracked[sid][1], s['since'])))
            since = tracked[sid][1]
        s = dict(s, since=since)
        new = [a for a in aft['servers'][sid]['apps'] if a not in s['apps']]
        if new:
            out.append(('non-up-server-received-instance', 'server %d (%s) received %r' % (sid, s['state'], new)))
        for a in s['apps']:
            ap = bef['apps'].get(a)
            if ap is None or a not in aft['apps']:
                continue
            if ap['blacklisted'] or ranks.get(a) == UNPLACED:
                continue
            still = aft['apps'][a]['server'] == sid
            g = ap['group']
            invalid_ident = (g is not None and ap['identity'] is not None and g in bef['groups']
                             and ap['identity'] >= bef['groups'][g]['count'])
            if s['state'] == 'down':
                if ap['drt'] is None or s['since'] + ap['drt'] <= now:
                    if still:
                        out.append(('kept-on-down-server-after-retention', 'instance %d still on down server %d at %d (down since %d, retention %r)'
                                    % (a, sid, now, s['since'], ap['drt'])))
                else:
                    if not still:
                        sig = 'removed-from-down-server-within-retention'
                        if invalid_ident:
                            sig += ':identity-group-shrunk'
                        elif ap['renew']:
                            sig += ':lease-renewal'
                        out.append((sig, 'instance %d left down server %d at %d although retention lasts until %d'
                                    % (a, sid, now, s['since'] + ap['drt'])))
            elif s['state'] == 'frozen':
                if not still and not ap['unschedule']:
                    sig = 'removed-from-frozen-server'
                    if invalid_ident:
                        sig += ':identity-group-shrunk'
                    elif ap['renew']:
                        sig += ':lease-renewal'
                    out.append((sig, 'instance %d left frozen server %d without being marked for unscheduling' % (a, sid)))
                if still and ap['unschedule']:
                    out.append(('unschedule-ignored-on-frozen-server', 'instance %d marked for unscheduling stays on frozen server %d' % (a, sid)))
    for a, ap in aft['apps'].items():
        if ap['blacklisted'] and ap['server'] is not None:
            out.append(('blacklisted-instance-placed', 'blacklisted instance %d is on server %d after the cycle' % (a, ap['server'])))
    return out


ORACLES = {'C02': (lambda rec: []), 'C01': c01, 'C03': c03, 'C04': c04, 'C05': c05, 'C06': c06, 'C07': c07, 'C08': c08}


STATE_NAMES = ['up', 'down', 'frozen']


def run_oracle(pid, trace):
    out = []
    state = {'srv': {}}
    for i, rec in enumerate(trace):
        if rec.get('op') != 'Schedule':
            # the harness's own record of server state transitions (independent of the scheduler's bookkeeping)
            args = rec.get('args')
            if args and args[0] == 'AddServer':
                state['srv'][args[1]] = ('up', rec.get('now'))
            elif args and args[0] == 'RemoveServer':
                state['srv'].pop(args[1], None)
                state.setdefault('moved', set()).discard(args[1])
                state.setdefault('moved_apps', {}).pop(args[1], None)
            elif args and args[0] == 'MoveServer':
                state.setdefault('moved', set()).add(args[1])
            elif args and args[0] == 'RestoreAt':
                state.setdefault('restored', set()).add(args[2])
            elif args and args[0] == 'AddApp' and isinstance(args[3], dict):
                # the first submission of a name carries its real attributes (later ones only re-assign it)
                state.setdefault('lease', {}).setdefault(args[3]['name'], args[3].get('lease', 0))
            elif args and args[0] == 'RemoveApp':
                state.setdefault('lease', {}).pop(args[1], None)
            elif args and args[0] == 'SetState' and args[1] in state['srv']:
                if state['srv'][args[1]][0] != STATE_NAMES[args[2]]:
                    state['srv'][args[1]] = (STATE_NAMES[args[2]], args[3])
            continue
        fn = ORACLES[pid]
        res = fn(rec, state) if fn in (c03, c04, c08) else fn(rec)
        # an instance the loader restored stays marked until the scheduler itself takes it off its server
        state['restored'] = {a for a in state.get('restored', ()) if rec['after']['apps'].get(a, {}).get('server') is not None}
        for sig, what in res:
            out.append((sig, 'at op %d: %s' % (i, what)))
    return out
