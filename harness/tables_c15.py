"""Translator sections of property C15 (codecs).  Everything emitted here uses stdlib
types only (list Z, pairs, bool) so that Gen/Tables.v never depends on a C15 model file.

Sections
  c15_names   utils._DEFAULT_BASE_ALPHABET; gen_uniqueid numerals, shifts, masks, format template;
              _fmt_unique_name template and replace(); rsplit/join separators of app_name / app_unique_id
  c15_events  AppTraceEventTypes / ServerTraceEventTypes member tables (name, class name, __slots__), base-class
              slots; event-node name templates (trace/app/zk.py publish, zknamespace._path_trace_shard) and the
              decoder's split/unpack (trace/_zk.py TraceLoop._process_events)
  c15_rules   rulefile._DNAT/_SNAT/_PASSTHROUGH_FILE_PATTERN, the .pattern text of the three compiled regular
              expressions, rulefile._ANY, firewall.ANY_PORT / ANY_IP
  c15_ldap    the _schema / sub-schema tables and the combined schema() of Application, CellAllocation, Partition
"""
import ast
import importlib
import string
import sys

from . import gallina as G
from . import tables
from .tables import TranslatorError


def _codes(s):
    if not isinstance(s, str):
        raise TranslatorError('expected str, got %r' % (s,))
    return G.zlist([ord(c) for c in s])


def _defz(name, value, comment=''):
    return 'Definition %s : Z := %s.%s\n' % (name, G.z(value), ('   (* %s *)' % comment) if comment else '')


def _defs(name, value, comment=''):
    c = ('(* %s *)\n' % comment.replace('*)', '* )').replace('(*', '( *').replace('"', "'")) if comment else ''
    return '%sDefinition %s : list Z := %s.\n' % (c, name, _codes(value))


def _import(modname):
    """import a treadmill module from the tree under verification (fresh sys.path entry first)."""
    if tables.PY not in sys.path:
        sys.path.insert(0, tables.PY)
    try:
        return importlib.import_module(modname)
    except Exception as e:   # fail closed
        raise TranslatorError('cannot import %s: %s: %s' % (modname, type(e).__name__, e))


def _is_pow(node, base, what):
    """<base> ** <k>  -> k"""
    if (isinstance(node, ast.BinOp) and isinstance(node.op, ast.Pow) and isinstance(node.left, ast.Constant)
            and node.left.value == base and isinstance(node.right, ast.Constant)
            and isinstance(node.right.value, int)):
        return node.right.value
    raise TranslatorError('%s: expected %d ** k, got %s' % (what, base, ast.dump(node)))


def _is_mask(node, what):
    """(2 ** k) - 1 -> k"""
    if (isinstance(node, ast.BinOp) and isinstance(node.op, ast.Sub) and isinstance(node.right, ast.Constant)
            and node.right.value == 1):
        return _is_pow(node.left, 2, what)
    raise TranslatorError('%s: expected (2 ** k) - 1, got %s' % (what, ast.dump(node)))


def _name(node, name):
    return isinstance(node, ast.Name) and node.id == name


def _call_attr(node, attr):
    return isinstance(node, ast.Call) and isinstance(node.func, ast.Attribute) and node.func.attr == attr


def parse_pad_template(template, what):
    """'{lit}{field:>0Ws}...' -> list of (literal, field, fill, width) ; width None = no padding.

    Only right-aligned string fields are recognised (fail closed otherwise); cross-checked against
    str.format on a probe value."""
    out = []
    for lit, field, spec, conv in string.Formatter().parse(template):
        if field is None:
            out.append((lit, None, None, None))
            continue
        if conv is not None or not field.isidentifier():
            raise TranslatorError('%s: unsupported replacement field %r' % (what, field))
        if spec == '':
            out.append((lit, field, None, None))
            continue
        import re
        m = re.match(r'^(?:(.)?([<>^=]))?(0)?(\d+)s$', spec)
        if not m or m.group(2) != '>':
            raise TranslatorError('%s: unsupported format spec %r (expected [fill]>[0]<width>s)' % (what, spec))
        fill = m.group(1) if m.group(1) is not None else ('0' if m.group(3) else ' ')
        width = int(m.group(4))
        probe = ('{x:%s}' % spec).format(x='Q')
        if probe != fill * (width - 1) + 'Q':
            raise TranslatorError('%s: format spec %r does not behave as fill=%r width=%d' % (what, spec, fill, width))
        out.append((lit, field, fill, width))
    return out


def names_tables():
    """dict of values read from utils.py / appcfg/__init__.py (see module docstring)."""
    utils = _import('treadmill.utils')
    t = {'default_alphabet': utils._DEFAULT_BASE_ALPHABET}
    if not isinstance(t['default_alphabet'], str):
        raise TranslatorError('utils._DEFAULT_BASE_ALPHABET is not a str')
    tree = ast.parse(tables._src('treadmill/appcfg/__init__.py'))

    # ---- gen_uniqueid
    fn = tables._func(tree, 'gen_uniqueid')
    body = tables._body(fn)
    seen = set()
    for st in body:
        w = 'gen_uniqueid'
        if isinstance(st, ast.Assign) and len(st.targets) == 1 and isinstance(st.targets[0], ast.Name):
            tgt, v = st.targets[0].id, st.value
            if tgt == 'event_stat':
                if not (_call_attr(v, 'stat') and _name(v.func.value, 'os') and _name(v.args[0], 'event_file')):
                    raise TranslatorError('%s: event_stat is not os.stat(event_file)' % w)
            elif tgt == 'event_time':
                ok = (isinstance(v, ast.Call) and _name(v.func, 'int') and isinstance(v.args[0], ast.BinOp)
                      and isinstance(v.args[0].op, ast.Mult) and isinstance(v.args[0].left, ast.Attribute)
                      and v.args[0].left.attr == 'st_ctime' and _name(v.args[0].left.value, 'event_stat'))
                if not ok:
                    raise TranslatorError('%s: event_time is not int(event_stat.st_ctime * 10**k)' % w)
                t['time_scale'] = 10 ** _is_pow(v.args[0].right, 10, w)
            elif tgt == 'event_data':
                ok = (isinstance(v, ast.Call) and _name(v.func, 'int') and isinstance(v.args[0], ast.Attribute)
                      and v.args[0].attr == 'st_ino' and _name(v.args[0].value, 'event_stat'))
                if not ok:
                    raise TranslatorError('%s: event_data is not int(event_stat.st_ino)' % w)
            elif tgt == 'seed':
                ok = (isinstance(v, ast.BinOp) and isinstance(v.op, ast.Add) and isinstance(v.left, ast.BinOp)
                      and isinstance(v.left.op, ast.LShift) and _name(v.left.left, 'event_time')
                      and isinstance(v.left.right, ast.Constant) and isinstance(v.right, ast.Call)
                      and _name(v.right.func, 'int') and _name(v.right.args[0], 'event_data'))
                if not ok:
                    raise TranslatorError('%s: seed is not (event_time << k) + int(event_data)' % w)
                t['time_shift'] = v.left.right.value
            elif tgt == 'numerals':
                parts = []

                def flat(n):
                    if isinstance(n, ast.BinOp) and isinstance(n.op, ast.Add):
                        flat(n.left)
                        flat(n.right)
                    elif isinstance(n, ast.Attribute) and _name(n.value, 'string') and hasattr(string, n.attr):
                        parts.append(getattr(string, n.attr))
                    elif isinstance(n, ast.Constant) and isinstance(n.value, str):
                        parts.append(n.value)
                    else:
                        raise TranslatorError('%s: numerals: unrecognised term %s' % (w, ast.dump(n)))
                flat(v)
                t['alphabet'] = ''.join(parts)
            elif tgt == 'ret':
                kw = {k.arg: k.value for k in v.keywords} if isinstance(v, ast.Call) else {}
                ok = (_call_attr(v, 'to_base_n') and _name(v.func.value, 'utils') and len(v.args) == 1
                      and _name(v.args[0], 'seed') and set(kw) == {'base', 'alphabet'}
                      and _name(kw['alphabet'], 'numerals') and isinstance(kw['base'], ast.Call)
                      and _name(kw['base'].func, 'len') and _name(kw['base'].args[0], 'numerals'))
                if not ok:
                    raise TranslatorError('%s: ret is not utils.to_base_n(seed, base=len(numerals), '
                                          'alphabet=numerals)' % w)
            else:
                raise TranslatorError('%s: unexpected assignment to %s' % (w, tgt))
            seen.add(tgt)
        elif isinstance(st, ast.Assign) and isinstance(st.targets[0], ast.Tuple):
            v = st.value
            ok = (_call_attr(v, 'rpartition') and isinstance(v.args[0], ast.Constant) and v.args[0].value == '#'
                  and [e.id for e in st.targets[0].elts][-1] == 'instance')
            if not ok:
                raise TranslatorError('%s: expected _name, _sep, instance = basename.rpartition("#")' % w)
            seen.add('instance')
        elif isinstance(st, ast.AugAssign) and isinstance(st.target, ast.Name):
            tgt, v = st.target.id, st.value
            if tgt == 'event_data' and isinstance(st.op, ast.BitXor):
                ok = (isinstance(v, ast.BinOp) and isinstance(v.op, ast.LShift) and isinstance(v.left, ast.Call)
                      and _name(v.left.func, 'int') and _name(v.left.args[0], 'instance')
                      and isinstance(v.right, ast.Constant))
                if not ok:
                    raise TranslatorError('%s: expected event_data ^= (int(instance) << k)' % w)
                t['inst_shift'] = v.right.value
            elif tgt == 'event_data' and isinstance(st.op, ast.BitAnd):
                t['data_bits'] = _is_mask(v, w + ' event_data mask')
            elif tgt == 'seed' and isinstance(st.op, ast.BitAnd):
                t['seed_bits'] = _is_mask(v, w + ' seed mask')
            else:
                raise TranslatorError('%s: unexpected augmented assignment %s' % (w, ast.dump(st)))
        elif isinstance(st, ast.Return):
            v = st.value
            ok = (_call_attr(v, 'format') and isinstance(v.func.value, ast.Constant) and len(v.keywords) == 1
                  and not v.args and _name(v.keywords[0].value, 'ret'))
            if not ok:
                raise TranslatorError('%s: return is not "<template>".format(<field>=ret)' % w)
            t['uid_template'] = v.func.value.value
            items = parse_pad_template(t['uid_template'], w)
            if len(items) != 1 or items[0][0] != '' or items[0][1] != v.keywords[0].arg or items[0][3] is None:
                raise TranslatorError('%s: template %r is not a single padded field' % (w, t['uid_template']))
            t['uid_fill'], t['uid_width'] = items[0][2], items[0][3]
        else:
            raise TranslatorError('gen_uniqueid: unexpected statement %s' % ast.dump(st)[:200])
    for k in ('time_scale', 'time_shift', 'inst_shift', 'data_bits', 'seed_bits', 'alphabet', 'uid_template'):
        if k not in t:
            raise TranslatorError('gen_uniqueid: %s not found' % k)
    for k in ('event_stat', 'event_data', 'instance', 'ret'):
        if k not in seen:
            raise TranslatorError('gen_uniqueid: assignment to %s not found' % k)

    # ---- _fmt_unique_name
    body = tables._body(tables._func(tree, '_fmt_unique_name'))
    if len(body) != 1 or not isinstance(body[0], ast.Return):
        raise TranslatorError('_fmt_unique_name: expected a single return')
    v = body[0].value
    if not (_call_attr(v, 'format') and isinstance(v.func.value, ast.Constant) and not v.args):
        raise TranslatorError('_fmt_unique_name: return is not "<template>".format(...)')
    kw = {k.arg: k.value for k in v.keywords}
    t['name_template'] = v.func.value.value
    items = parse_pad_template(t['name_template'], '_fmt_unique_name')
    if not (len(items) == 2 and items[0][0] == '' and items[0][3] is None and items[1][3] is not None
            and set(kw) == {items[0][1], items[1][1]}):
        raise TranslatorError('_fmt_unique_name: template %r is not {app}<sep>{id:>0Ws}' % t['name_template'])
    app_e, id_e = kw[items[0][1]], kw[items[1][1]]
    ok = (_call_attr(app_e, 'replace') and _name(app_e.func.value, 'appname') and len(app_e.args) == 2
          and all(isinstance(a, ast.Constant) and isinstance(a.value, str) and len(a.value) == 1
                  for a in app_e.args) and _name(id_e, 'app_uniqueid'))
    if not ok:
        raise TranslatorError('_fmt_unique_name: arguments are not appname.replace(c1, c2), app_uniqueid')
    t['name_sep'], t['name_fill'], t['name_width'] = items[1][0], items[1][2], items[1][3]
    t['name_from'], t['name_to'] = app_e.args[0].value, app_e.args[1].value

    # ---- app_name / app_unique_id
    def rsplit_call(node, objname, what):
        ok = (_call_attr(node, 'rsplit') and _name(node.func.value, objname) and len(node.args) == 2
              and isinstance(node.args[0], ast.Constant) and isinstance(node.args[0].value, str)
              and len(node.args[0].value) == 1 and isinstance(node.args[1], ast.Constant)
              and node.args[1].value == 1)
        if not ok:
            raise TranslatorError('%s: expected %s.rsplit(<char>, 1)' % (what, objname))
        return node.args[0].value

    def sub(node, idx, what):
        if not (isinstance(node, ast.Subscript) and isinstance(node.slice, ast.Constant)
                and node.slice.value == idx):
            raise TranslatorError('%s: expected [...][%d]' % (what, idx))
        return node.value
    body = tables._body(tables._func(tree, 'app_name'))
    ok = (len(body) == 3 and isinstance(body[0], ast.Assign) and _name(body[0].targets[0], 'appname')
          and isinstance(body[1], ast.Assign) and _name(body[1].targets[0], 'parts')
          and isinstance(body[2], ast.Return))
    if not ok:
        raise TranslatorError('app_name: unexpected body')
    s1 = rsplit_call(sub(body[0].value, 0, 'app_name'), 'uniquename', 'app_name')
    s2 = rsplit_call(body[1].value, 'appname', 'app_name')
    r = body[2].value
    if not (_call_attr(r, 'join') and isinstance(r.func.value, ast.Constant) and len(r.func.value.value) == 1
            and _name(r.args[0], 'parts')):
        raise TranslatorError('app_name: return is not "<char>".join(parts)')
    body = tables._body(tables._func(tree, 'app_unique_id'))
    if len(body) != 1 or not isinstance(body[0], ast.Return):
        raise TranslatorError('app_unique_id: expected a single return')
    s3 = rsplit_call(sub(body[0].value, 1, 'app_unique_id'), 'uniquename', 'app_unique_id')
    if not s1 == s2 == s3:
        raise TranslatorError('app_name/app_unique_id split on different characters %r %r %r' % (s1, s2, s3))
    t['split_sep'], t['join_sep'] = s1, r.func.value.value
    return t


def _emit_names():
    t = names_tables()
    out = ['(* C15 names: utils.to_base_n/from_base_n default alphabet; appcfg.gen_uniqueid, _fmt_unique_name,\n'
           '   app_name, app_unique_id (values and AST-extracted constants) *)\n']
    out.append(_defs('c15_default_alphabet', t['default_alphabet'], 'utils._DEFAULT_BASE_ALPHABET'))
    out.append(_defs('c15_uid_alphabet', t['alphabet'], 'gen_uniqueid: numerals'))
    out.append(_defs('c15_uid_template', t['uid_template'], 'gen_uniqueid: %r' % t['uid_template']))
    out.append(_defz('c15_uid_fill', ord(t['uid_fill'])))
    out.append(_defz('c15_uid_width', t['uid_width']))
    out.append(_defz('c15_uid_time_scale', t['time_scale']))
    out.append(_defz('c15_uid_time_shift', t['time_shift']))
    out.append(_defz('c15_uid_inst_shift', t['inst_shift']))
    out.append(_defz('c15_uid_data_bits', t['data_bits']))
    out.append(_defz('c15_uid_seed_bits', t['seed_bits']))
    out.append(_defs('c15_name_template', t['name_template'], '_fmt_unique_name: %r' % t['name_template']))
    out.append(_defs('c15_name_sep', t['name_sep']))
    out.append(_defz('c15_name_fill', ord(t['name_fill'])))
    out.append(_defz('c15_name_width', t['name_width']))
    out.append(_defz('c15_name_from', ord(t['name_from']), 'appname.replace(from, to)'))
    out.append(_defz('c15_name_to', ord(t['name_to'])))
    out.append(_defz('c15_split_sep', ord(t['split_sep']), 'app_name / app_unique_id: rsplit(sep, 1)'))
    out.append(_defz('c15_join_sep', ord(t['join_sep']), 'app_name: join'))
    return ''.join(out)


tables.register('c15_names', _emit_names)


# ---------------------------------------------------------------------------
# events
# ---------------------------------------------------------------------------
def _strs(items):
    return G.lst([_codes(x) for x in items])


def events_tables():
    out = {}
    for key, modname, enum_name, base_name in (
            ('app', 'treadmill.trace.app.events', 'AppTraceEventTypes', 'AppTraceEvent'),
            ('server', 'treadmill.trace.server.events', 'ServerTraceEventTypes', 'ServerTraceEvent')):
        m = _import(modname)
        enum_cls = getattr(m, enum_name, None)
        base = getattr(m, base_name, None)
        if enum_cls is None or base is None:
            raise TranslatorError('%s: %s / %s not found' % (modname, enum_name, base_name))
        rows = []
        for name, member in enum_cls.__members__.items():      # includes aliases, in definition order
            cls = member.value
            if not (isinstance(cls, type) and issubclass(cls, base)):
                raise TranslatorError('%s.%s is not a subclass of %s' % (enum_name, name, base_name))
            slots = cls.__dict__.get('__slots__')
            if not isinstance(slots, tuple) or not all(isinstance(x, str) for x in slots):
                raise TranslatorError('%s.__slots__ is not a tuple of str' % cls.__name__)
            for meth in ('from_data', 'event_data'):
                if meth not in cls.__dict__:
                    raise TranslatorError('%s does not define %s itself' % (cls.__name__, meth))
            rows.append((name, cls.__name__, list(slots)))
        out[key] = rows
        out[key + '_base_slots'] = list(base.__slots__)

    # node names: encoder
    tree = ast.parse(tables._src('treadmill/trace/app/zk.py'))
    fn = tables._func(tree, 'publish')
    tmpl = None
    for st in tables._body(fn):
        if isinstance(st, ast.Assign) and _name(st.targets[0], 'eventnode'):
            v = st.value
            ok = (isinstance(v, ast.BinOp) and isinstance(v.op, ast.Mod) and isinstance(v.left, ast.Constant)
                  and isinstance(v.right, ast.Tuple) and all(isinstance(e, ast.Name) for e in v.right.elts))
            if not ok:
                raise TranslatorError('trace/app/zk.py publish: eventnode is not "<template>" % (names...)')
            tmpl = (v.left.value, [e.id for e in v.right.elts])
    if tmpl is None:
        raise TranslatorError('trace/app/zk.py publish: assignment to eventnode not found')
    out['node_template'], out['node_args'] = tmpl
    tree = ast.parse(tables._src('treadmill/zknamespace.py'))
    fn = tables._func(tree, '_path_trace_shard')
    pre = None
    for st in ast.walk(fn):
        if isinstance(st, ast.Assign) and _name(st.targets[0], 'node_name'):
            v = st.value
            ok = (isinstance(v, ast.BinOp) and isinstance(v.op, ast.Mod) and isinstance(v.left, ast.Constant)
                  and isinstance(v.right, ast.Tuple) and all(isinstance(e, ast.Name) for e in v.right.elts))
            if not ok:
                raise TranslatorError('zknamespace._path_trace_shard: node_name is not "<template>" % (names...)')
            pre = (v.left.value, [e.id for e in v.right.elts])
    if pre is None:
        raise TranslatorError('zknamespace._path_trace_shard: assignment to node_name not found')
    out['node_prefix_template'], out['node_prefix_args'] = pre
    # node names: decoder
    tree = ast.parse(tables._src('treadmill/trace/_zk.py'))
    fn = tables._func(tree, '_process_events')
    sep, order = None, None
    for st in ast.walk(fn):
        if _call_attr(st, 'split') and _name(st.func.value, 'event'):
            if not (len(st.args) == 1 and isinstance(st.args[0], ast.Constant) and not st.keywords):
                raise TranslatorError('_process_events: event.split(...) has unexpected arguments')
            sep = st.args[0].value
        if isinstance(st, ast.Assign) and isinstance(st.targets[0], ast.Tuple) and _name(st.value, 'event'):
            order = [e.id for e in st.targets[0].elts]
    if sep is None or order is None or len(sep) != 1:
        raise TranslatorError('_process_events: split separator / tuple unpacking not found')
    out['node_sep'], out['node_fields'] = sep, order
    return out


def _emit_events():
    t = events_tables()

    def table(rows):
        return G.lst(['(%s, (%s, %s))' % (_codes(n), _codes(c), _strs(sl)) for n, c, sl in rows])
    ty = 'list (list Z * (list Z * list (list Z)))'
    out = ['(* C15 events: enum member tables (name, class name, __slots__) *)\n']
    out.append('Definition c15_app_event_types : %s := %s.\n' % (ty, table(t['app'])))
    out.append('Definition c15_server_event_types : %s := %s.\n' % (ty, table(t['server'])))
    out.append('Definition c15_app_event_base_slots : list (list Z) := %s.\n' % _strs(t['app_base_slots']))
    out.append('Definition c15_server_event_base_slots : list (list Z) := %s.\n' % _strs(t['server_base_slots']))
    out.append(_defs('c15_node_template', t['node_template'], 'trace/app/zk.py publish: %r %% %r'
                     % (t['node_template'], tuple(t['node_args']))))
    out.append('Definition c15_node_args : list (list Z) := %s.\n' % _strs(t['node_args']))
    out.append(_defs('c15_node_prefix_template', t['node_prefix_template'], 'zknamespace._path_trace_shard'))
    out.append('Definition c15_node_prefix_args : list (list Z) := %s.\n' % _strs(t['node_prefix_args']))
    out.append(_defz('c15_node_sep', ord(t['node_sep']), 'TraceLoop._process_events: event.split(sep)'))
    out.append('Definition c15_node_fields : list (list Z) := %s.\n' % _strs(t['node_fields']))
    return ''.join(out)


tables.register('c15_events', _emit_events)


# ---------------------------------------------------------------------------
# rule files
# ---------------------------------------------------------------------------
def rules_tables():
    rf = _import('treadmill.rulefile')
    fw = _import('treadmill.firewall')
    t = {}
    for key, attr in (('dnat', '_DNAT_FILE_PATTERN'), ('snat', '_SNAT_FILE_PATTERN'), ('pt', '_PASSTHROUGH_FILE_PATTERN')):
        v = getattr(rf, attr, None)
        if not isinstance(v, str):
            raise TranslatorError('rulefile.%s is not a str' % attr)
        t[key] = v
    for key, attr in (('dnat_re', '_DNAT_FILE_RE'), ('snat_re', '_SNAT_FILE_RE'), ('pt_re', '_PASSTHROUGH_FILE_RE')):
        v = getattr(rf, attr, None)
        if not (hasattr(v, 'pattern') and isinstance(v.pattern, str)):
            raise TranslatorError('rulefile.%s is not a compiled str regex' % attr)
        if v.flags & ~32:       # re.UNICODE (32) is the default for str patterns
            raise TranslatorError('rulefile.%s compiled with flags %d' % (attr, v.flags))
        t[key] = v.pattern
    if not isinstance(getattr(rf, '_ANY', None), str):
        raise TranslatorError('rulefile._ANY is not a str')
    t['any'] = rf._ANY
    if not (isinstance(fw.ANY_PORT, int) and isinstance(fw.ANY_IP, str)):
        raise TranslatorError('firewall.ANY_PORT / ANY_IP of unexpected type')
    t['any_port'], t['any_ip'] = fw.ANY_PORT, fw.ANY_IP
    return t


def _emit_rules():
    t = rules_tables()
    out = ['(* C15 rule files: filename patterns, regex source texts, wildcards *)\n']
    for k in ('dnat', 'snat', 'pt'):
        out.append(_defs('c15_rule_%s_pattern' % k, t[k], t[k]))
    for k in ('dnat_re', 'snat_re', 'pt_re'):
        out.append(_defs('c15_rule_%s' % k, t[k], t[k]))
    out.append(_defs('c15_rule_any', t['any'], 'rulefile._ANY'))
    out.append(_defz('c15_rule_any_port', t['any_port'], 'firewall.ANY_PORT'))
    out.append(_defs('c15_rule_any_ip', t['any_ip'], 'firewall.ANY_IP'))
    return ''.join(out)


tables.register('c15_rules', _emit_rules)


# ---------------------------------------------------------------------------
# LDAP schemas
# ---------------------------------------------------------------------------
LDAP_CLASSES = {
    'Application': ['_schema', '_svc_schema', '_svc_restart_schema', '_endpoint_schema', '_environ_schema',
                    '_affinity_schema', '_vring_schema', '_vring_rule_schema'],
    'CellAllocation': ['_schema', '_assign_schema'],
    'Partition': ['_schema', '_limit_schema'],
}


def _type_code(t, what):
    if t is None or t is str:
        return 0
    if t is int:
        return 1
    if t is bool:
        return 2
    if isinstance(t, list) and len(t) == 1 and t[0] is str:
        return 3
    if isinstance(t, list) and len(t) == 1 and t[0] is int:
        return 4
    if t is dict:
        return 5
    raise TranslatorError('%s: unsupported field type %r' % (what, t))


def ldap_tables():
    m = _import('treadmill.admin._ldap')
    out = []
    for cname, attrs in LDAP_CLASSES.items():
        cls = getattr(m, cname, None)
        if cls is None:
            raise TranslatorError('admin._ldap.%s not found' % cname)
        tabs = [(a, getattr(cls, a, None)) for a in attrs] + [('schema()', cls.schema())]
        for aname, tab in tabs:
            what = '%s.%s' % (cname, aname)
            if not isinstance(tab, list):
                raise TranslatorError('%s is not a list' % what)
            rows = []
            for row in tab:
                if not (isinstance(row, tuple) and len(row) == 3 and isinstance(row[0], str)
                        and (row[1] is None or isinstance(row[1], str))):
                    raise TranslatorError('%s: unexpected row %r' % (what, row))
                rows.append((row[0], row[1], _type_code(row[2], what)))
            out.append((what, rows))
    return out


def _emit_ldap():
    out = ['(* C15 LDAP schemas: (name, rows (ldap attribute, (object field | None, type code))) ;\n'
           '   type codes: 0 str, 1 int, 2 bool, 3 [str], 4 [int], 5 dict *)\n']
    items = []
    for name, rows in ldap_tables():
        rs = G.lst(['(%s, (%s, %s))' % (_codes(a), G.opt(f, _codes), G.z(c)) for a, f, c in rows])
        items.append('(%s, %s)' % (_codes(name), rs))
    out.append('Definition c15_ldap_schemas : list (list Z * list (list Z * (option (list Z) * Z))) :=\n  %s.\n'
               % G.lst(items))
    return ''.join(out)


tables.register('c15_ldap', _emit_ldap)
