"""E-master: the REAL treadmill.scheduler.master.Master driven over an in-memory subclass of
scheduler.backend.Backend through its real handlers.

Every event first edits the store the way the real producer does (masterapi / a node's presence /
cellsync) and then calls the real handler:

  Schedule / Unschedule      /scheduled/<inst>                        -> process_scheduled
  PresenceUp / PresenceDown / PresenceBounce   /server.presence/<s>   -> process_server_presence
  ServerRecord               /servers/<s> (capacity|partition|traits|parent) + `servers` event
  ServerDeleteApi            masterapi.delete_server: /servers/<s>, /placement/<s> (recursive) removed,
                             `servers` event created; delivered at once or left queued until Deliver
  Deliver                    process_events(children of /events)
  Allocations, IdentityGroup, IdentityGroupDeleted, ServerState, AppsBlacklist, Priority  -> their events
  Renew                      lease renewal request: Application.renew = True at the next cycle (no ZooKeeper
                             producer in this tree sets it; exercises the expiry-only branch of the publication)
  RunningAll                 /running/<inst> for every published instance (what the node agents do)
  Tick                       virtual clock (time.time of scheduler, loader, master)
  MasterCycle                reschedule(); check_placement_integrity()   (as run_loop)
  PendingStartCheck          check_integrity()
  Restart                    a new Master on the same store: load_model(); init_schedule(); initial watch callbacks

CrashAt(k) for every publication (reschedule / init_schedule of the history) and every k: the store as it
is when the k-th backend write of the publication is about to be issued (= the state a raise at that write
leaves behind; checked against a real injected raise once per history), on a copy of which a fresh Master is started.
"""
import copy
import sys
import zlib

from . import core, gallina as G

T0 = 1700000000
PLACEMENT = '/placement'

_M = None


def mods():
    global _M
    if _M is None:
        if core.PYLIB not in sys.path:
            sys.path.insert(0, core.PYLIB)
        import logging
        logging.disable(logging.CRITICAL)
        from treadmill import scheduler
        from treadmill.scheduler import master, loader, backend
        scheduler.DIMENSION_COUNT = 3

        class Crash(Exception):
            """injected failure of a backend write"""

        class Meta:
            def __init__(self, ctime):
                self.ctime = ctime

        class Mem(backend.Backend):
            """path -> (value, ctime in ms); ctime from a strictly increasing logical clock."""

            def __init__(self, d=None, clk=0):
                self.d = dict(d or {})
                self.clk = clk
                self.rec = None          # list while a publication is recorded
                self.log = None          # list of (kind, path) while a handler is observed
                self.crash_at = None
                self.nw = 0

            def clone(self):
                return Mem(self.d, self.clk)

            def _tick(self):
                self.clk += 1
                return self.clk * 1000

            def _w(self, kind, path, value=None):
                if self.crash_at is not None:
                    if self.nw == self.crash_at:
                        raise Crash()
                    self.nw += 1
                if self.rec is not None:
                    self.rec.append((kind, path, copy.deepcopy(value), dict(self.d)))
                if self.log is not None:
                    self.log.append((kind, path))

            def list(self, path):
                path = path.rstrip('/')
                if path not in self.d and path != '':
                    raise backend.ObjectNotFoundError()
                pre = path + '/'
                n = len(pre)
                return sorted({k[n:].split('/', 1)[0] for k in self.d if k.startswith(pre)})

            def get(self, path):
                if path not in self.d:
                    raise backend.ObjectNotFoundError()
                return copy.deepcopy(self.d[path][0])

            def get_with_metadata(self, path):
                if path not in self.d:
                    raise backend.ObjectNotFoundError()
                return copy.deepcopy(self.d[path][0]), Meta(self.d[path][1])

            def _mk(self, path):
                parts = path.strip('/').split('/')
                for i in range(1, len(parts)):
                    p = '/' + '/'.join(parts[:i])
                    if p not in self.d:
                        self.d[p] = (None, self._tick())

            def put(self, path, value):
                self._w('put', path, value)
                self.raw_put(path, value)

            def raw_put(self, path, value):
                self._mk(path)
                ct = self.d[path][1] if path in self.d else self._tick()
                self.d[path] = (copy.deepcopy(value), ct)

            def exists(self, path):
                return path in self.d

            def ensure_exists(self, path):
                self._w('ensure', path)
                if path == '/':
                    return
                self._mk(path)
                if path not in self.d:
                    self.d[path] = (None, self._tick())

            def delete(self, path):
                self._w('delete', path)
                self.raw_delete(path)

            def raw_delete(self, path):
                for k in [k for k in self.d if k == path or k.startswith(path + '/')]:
                    del self.d[k]

            def update(self, path, data, check_content=False):
                if path not in self.d:
                    raise backend.ObjectNotFoundError()
                if check_content and self.d[path][0] == data:
                    return
                self._w('update', path, data)
                self.d[path] = (copy.deepcopy(data), self.d[path][1])

            def event_object(self):
                import threading
                return threading.Event()
        _M = (scheduler, master, loader, backend, Mem, Crash)
    return _M


# ---------------------------------------------------------------------------
# names <-> ids
# ---------------------------------------------------------------------------
PROIDS = ['foo', 'bar']


def sname(i):
    return 'srv%d' % i


def sid(name):
    return int(name[3:])


def rname(i):
    return 'rack:%d' % i


def gname(i):
    return 'g%d' % i


def aname(i, proid):
    return '%s.app#%010d' % (proid, i)


def aid(name):
    return int(name.split('#')[1])


def res(v):
    return {'memory': '%dM' % v[0], 'cpu': '%d%%' % v[1], 'disk': '%dM' % v[2]}


def placement_entries(d):
    """{(server name, app name): data} of a store dict"""
    out = {}
    for k, v in d.items():
        if k.startswith('/placement/') and k.count('/') == 3:
            _e, _p, s, a = k.split('/')
            out[(s, a)] = v[0]
    return out


def doubles(entries):
    by = {}
    for (s, a) in entries:
        by.setdefault(a, set()).add(s)
    return {a: sorted(ss) for a, ss in by.items() if len(ss) > 1}


class _FakeTime:
    def __init__(self, real, world):
        self._real = real
        self._world = world

    def time(self):
        return self._world.now

    def __getattr__(self, k):
        return getattr(self._real, k)


class World:
    """One cell: store + current master + virtual clock."""

    def __init__(self, case, hooks=True):
        self.sched, self.master_mod, self.loader_mod, self.backend_mod, self.Mem, self.Crash = mods()
        self.case = case
        self.now = T0
        self.order = 0
        self.seq = 0
        self.b = self.Mem()
        self.m = None
        self.proid_of = {}       # app id -> proid
        self.trace = []          # one record per op
        self.pubs = []           # publications (reschedule / init_schedule) with writes and snapshots
        self.integ = []          # integrity check observations
        self.dedups = []         # restore_placements duplicate pass observations
        self.last_sched = None
        self.restore_marks = None
        self.renew_requests = []
        self.renewed = []
        self.restores = []
        self._cur_restore = None
        self.observe = True
        self.pending_deletes = set()
        self.api_deleted = getattr(self, 'api_deleted', set())   # (server, instance) entries removed by the delete API
        self.left_behind = set()
        self.hooks = hooks

    # -- patching -----------------------------------------------------------
    def __enter__(self):
        s = self.sched
        self._saved = []
        for mod in (s, self.master_mod, self.loader_mod):
            self._saved.append((mod, 'time', mod.time))
            mod.time = _FakeTime(mod.time if not isinstance(mod.time, _FakeTime) else mod.time._real, self)
        self._saved.append((s, '_global_order', s._global_order))
        world = self

        def order():
            world.order += 1
            return world.order
        s._global_order = order
        orig_schedule = s.Cell.schedule
        self._saved.append((s.Cell, 'schedule', orig_schedule))

        def schedule(cell):
            placement = orig_schedule(cell)
            world.last_sched = world._capture(cell, placement)
            return placement
        s.Cell.schedule = schedule
        orig_rp = self.loader_mod.Loader.restore_placement
        self._saved.append((self.loader_mod.Loader, 'restore_placement', orig_rp))
        be = self.backend_mod

        def restore_placement(ldr, servername, restore_identity=True):
            b = ldr.backend
            rec = None
            if world.observe and isinstance(b, world.Mem) and servername in ldr.servers:
                pres = b.d.get('/server.presence/' + servername)
                entries = []
                try:
                    placed = b.list(PLACEMENT + '/' + servername)
                except be.ObjectNotFoundError:
                    placed = []
                for a in placed:
                    node = b.d.get('%s/%s/%s' % (PLACEMENT, servername, a))
                    app = ldr.cell.apps.get(a)
                    data = (node[0] or {}) if node else {}
                    entries.append({'app': a, 'known': app is not None, 'node': node is not None,
                                    'identity': data.get('identity'), 'expires': data.get('expires', 0),
                                    'ctime': node[1] // 1000 if node else 0,
                                    'once': bool(app.schedule_once) if app is not None else False})
                rec = {'server': servername, 'presence': pres[1] // 1000 if pres else None,
                       'restore_identity': bool(restore_identity), 'entries': entries, 'calls': {}, 'forced': {}}
                world._cur_restore = rec
            outer, b.log = getattr(b, 'log', None), []
            try:
                r = orig_rp(ldr, servername, restore_identity)
            finally:
                inner, b.log = b.log, outer
                if outer is not None:
                    outer.extend(inner)
                world._cur_restore = None
            if rec is not None:
                rec['restored'] = list(r[1])
                rec['writes'] = inner
                world.restores.append(rec)
            if world.restore_marks is not None and outer is not None:
                world.restore_marks.append((servername, list(r[1]), len(outer)))
            return r
        self.loader_mod.Loader.restore_placement = restore_placement
        for meth in ('restore', 'put'):
            orig = getattr(s.Server, meth)
            self._saved.append((s.Server, meth, orig))

            def wrapped(server, app, *a, _orig=orig, _meth=meth, **kw):
                rc = _orig(server, app, *a, **kw)
                cur = world._cur_restore
                if cur is not None and sys._getframe(1).f_code.co_name == 'restore_placement':
                    cur['calls'][app.name] = (_meth, bool(rc))
                return rc
            setattr(s.Server, meth, wrapped)
        orig_force = s.Application.force_set_identity
        self._saved.append((s.Application, 'force_set_identity', orig_force))

        def force_set_identity(app, identity):
            cur = world._cur_restore
            if cur is not None:
                cur['forced'][app.name] = identity
            return orig_force(app, identity)
        s.Application.force_set_identity = force_set_identity
        return self

    def __exit__(self, *a):
        for obj, name, val in reversed(self._saved):
            setattr(obj, name, val)

    def _capture(self, cell, placement):
        info = {}
        once = []
        for name, app in cell.apps.items():
            cnt = None
            if app.identity is not None and app.identity_group_ref is not None:
                cnt = app.identity_group_ref.count
            info[name] = {'identity': app.identity, 'identity_count': cnt, 'expires': app.placement_expiry}
            if app.schedule_once and app.evicted:
                once.append(name)
        members = [(name, list(srv.apps)) for name, srv in cell.members().items()]
        return {'tuples': [list(t) for t in placement], 'info': info, 'once': once, 'members': members}

    # -- store edits (producers) ----------------------------------------------
    def boot(self):
        c = self.case
        b = self.b
        m = self.master_mod.Master(b, 'cell')
        m.create_rootns()
        b.raw_put('/traits', ['ssd'])
        for r in c['racks']:
            b.raw_put('/cell/' + rname(r), {})
            b.raw_put('/buckets/' + rname(r), {'traits': None})
        for p in c.get('partitions', []):
            b.raw_put('/partitions/' + p, {})
        for srv in c['servers']:
            self._put_server(srv)
            if srv.get('up', True):
                b.raw_put('/server.presence/' + sname(srv['id']), {})
        for g, n in c.get('groups', []):
            b.raw_put('/identity-groups/' + gname(g), {'count': n})
        if c.get('allocations') is not None:
            b.raw_put('/allocations', c['allocations'])
        for a in c.get('apps', []):
            self._put_app(a[0], a[1])

    def _put_server(self, srv):
        data = dict(res(srv['cap']))
        data['parent'] = rname(srv['rack'])
        if srv.get('partition'):
            data['partition'] = srv['partition']
        if srv.get('traits'):
            data['traits'] = list(srv['traits'])
        data['up_since'] = srv.get('up_since', T0 - 1000)
        self.b.raw_put('/servers/' + sname(srv['id']), data)

    def _put_app(self, i, spec):
        self.proid_of[i] = spec['proid']
        man = dict(res(spec['demand']))
        man['affinity'] = spec['proid'] + '.app'
        if spec.get('group') is not None:
            man['identity_group'] = gname(spec['group'])
        if spec.get('once'):
            man['schedule_once'] = True
        if spec.get('drt') is not None:
            man['data_retention_timeout'] = '%ds' % spec['drt']
        if spec.get('lease'):
            man['lease'] = '%ds' % spec['lease']
        if spec.get('prio') is not None:
            man['priority'] = spec['prio']
        if spec.get('traits'):
            man['traits'] = list(spec['traits'])
        if spec.get('affinity_limits'):
            man['affinity_limits'] = dict(spec['affinity_limits'])
        self.b.raw_put('/scheduled/' + aname(i, spec['proid']), man)

    def app(self, i):
        return aname(i, self.proid_of.get(i, 'foo'))

    def _event(self, prio, name, payload):
        self.seq += 1
        node = '%03d-%s-%010d' % (prio, name, self.seq)
        self.b.raw_put('/events/' + node, payload)

    def _deliver(self):
        ev = self.b.list('/events')
        if ev:
            self.m.process_events(ev)
        self.pending_deletes = set()
        self.api_deleted = getattr(self, 'api_deleted', set())   # (server, instance) entries removed by the delete API

    # -- master life cycle ------------------------------------------------------
    def _record_pub(self, kind, fn):
        b = self.b
        before = placement_entries(b.d)
        b.rec = []
        self.last_sched = None
        exc = None
        try:
            fn()
        except Exception as e:   # noqa
            exc = e
        rec, b.rec = b.rec, None
        snaps = [r[3] for r in rec] + [dict(b.d)]
        pub = {'kind': kind, 'writes': [(r[0], r[1], r[2]) for r in rec], 'snaps': snaps,
               'store0': before, 'sched': self.last_sched, 'exc': exc, 'clk': b.clk, 'now': self.now,
               'order': self.order, 'servers': set(self.m.servers) if self.m is not None else set(),
               'left_behind': set(self.left_behind)}
        self.pubs.append(pub)
        if exc is not None:
            raise exc
        return pub

    def restart(self):
        """a new Master on the same store; returns the C11 observation"""
        b = self.b
        store_before = dict(b.d)
        m = self.master_mod.Master(b, 'cell')
        b.log = []
        self.restore_marks = []
        try:
            m.load_model()
        finally:
            log, b.log = b.log, None
            marks, self.restore_marks = self.restore_marks, None
        if marks:
            self.dedups.append({'restored': [(s, r) for s, r, _n in marks],
                                'writes': log[marks[-1][2]:]})
        self.m = m
        c11 = {'store': store_before, 'model': self.model_view(m), 'servers': sorted(m.servers)}
        pub = self._record_pub('init', m.init_schedule)
        # initial watch callbacks of attach_watchers
        m.process_server_presence(b.list('/server.presence'))
        m.process_scheduled(b.list('/scheduled'))
        self._deliver()
        m.process_blackedout_servers(b.list('/blackedout.servers'))
        return c11, pub

    def apply_renew_requests(self):
        """lease renewal requests take effect at the next cycle; only where the scheduler's own precondition
        (`assert app.server` when app.renew) cannot be broken by the pre-phases of the same cycle"""
        m = self.m
        reqs, self.renew_requests = self.renew_requests, []
        self.renewed = []
        for i in reqs:
            a = m.cell.apps.get(self.app(i))
            if a is None or not a.server or a.blacklisted or a.unschedule:
                continue
            srv = m.servers.get(a.server)
            if srv is None or srv.state != self.sched.State.up:
                continue
            if a.identity is not None and a.identity_group_ref is not None and \
                    a.identity >= a.identity_group_ref.count:
                continue
            a.renew = True
            self.renewed.append(a.name)

    def model_view(self, m=None):
        m = m or self.m
        out = {}
        for name, app in m.cell.apps.items():
            out[name] = {'server': app.server, 'identity': app.identity, 'expires': app.placement_expiry}
        return out

    def integrity_check(self):
        m, b = self.m, self.b
        pairs = []
        for s in b.list(PLACEMENT):
            try:
                for a in b.list(PLACEMENT + '/' + s):
                    pairs.append((s, a))
            except self.backend_mod.ObjectNotFoundError:
                continue
        known = list(m.cell.apps)
        placed = [(n, a.server) for n, a in m.cell.apps.items() if a.server]
        b.log = []
        outcome = 0
        exc = None
        try:
            m.check_placement_integrity()
        except AssertionError as e:
            outcome = 3 if 'Placement integrity failed' in str(e) else 2
            exc = e
        except KeyError as e:
            outcome = 1
            exc = e
        finally:
            log, b.log = b.log, None
        self.integ.append({'pairs': pairs, 'known': known, 'placed': placed, 'writes': log, 'outcome': outcome})
        return outcome, log, exc

    # -- ops -------------------------------------------------------------------
    def apply(self, op):
        b, m = self.b, self.m
        k = op[0]
        if k == 'Schedule':
            self._put_app(op[1], op[2])
            m.process_scheduled(b.list('/scheduled'))
        elif k == 'ScheduleRaw':
            # an instance created while no master is looking (fail-over window): the node is there, nothing is processed
            self._put_app(op[1], op[2])
        elif k == 'ServerBlackout':
            node = '/blackedout.servers/' + sname(op[1])
            if op[2]:
                b.raw_put(node, {})
            else:
                b.raw_delete(node)
            m.process_blackedout_servers(b.list('/blackedout.servers'))
        elif k == 'Unschedule':
            b.raw_delete('/scheduled/' + self.app(op[1]))
            m.process_scheduled(b.list('/scheduled'))
        elif k == 'UnscheduleRace':
            # the instance is deleted while an `apps` event naming it is queued: the event is handled first (load_app
            # finds no manifest), the /scheduled watch afterwards
            b.raw_delete('/scheduled/' + self.app(op[1]))
            self._event(1, 'apps', [self.app(op[1])])
            self._deliver()
            m.process_scheduled(b.list('/scheduled'))
        elif k == 'PresenceUp':
            if not b.exists('/server.presence/' + sname(op[1])):
                b.raw_put('/server.presence/' + sname(op[1]), {})
            m.process_server_presence(b.list('/server.presence'))
        elif k == 'PresenceDown':
            b.raw_delete('/server.presence/' + sname(op[1]))
            m.process_server_presence(b.list('/server.presence'))
        elif k == 'PresenceUpRaw':
            # the node registers while no master is looking (failover window): nothing is processed until the restart
            if not b.exists('/server.presence/' + sname(op[1])):
                b.raw_put('/server.presence/' + sname(op[1]), {})
        elif k == 'PresenceBounce':
            b.raw_delete('/server.presence/' + sname(op[1]))
            b.raw_put('/server.presence/' + sname(op[1]), {})
            m.process_server_presence(b.list('/server.presence'))
        elif k == 'ServerRecord':
            if op[1].get('up_since') == 'now':
                op = [op[0], dict(op[1], up_since=self.now)]
            self._put_server(op[1])
            self._event(0, 'servers', [sname(op[1]['id'])])
            self._deliver()
        elif k == 'ServerDeleteApi':
            s = sname(op[1])
            self.api_deleted |= {(s2, a) for (s2, a) in placement_entries(b.d) if s2 == s}
            b.raw_delete('/servers/' + s)
            b.raw_delete('/placement/' + s)
            self._event(0, 'servers', [s])
            self.pending_deletes.add(s)
            if op[2]:
                self._deliver()
        elif k == 'Deliver':
            self._deliver()
        elif k == 'Allocations':
            b.raw_put('/allocations', op[1])
            self._event(0, 'allocations', None)
            self._deliver()
        elif k == 'IdentityGroup':
            b.raw_put('/identity-groups/' + gname(op[1]), {'count': op[2]})
            self._event(0, 'identity_groups', [gname(op[1])])
            self._deliver()
        elif k == 'IdentityGroupDeleted':
            b.raw_delete('/identity-groups/' + gname(op[1]))
            self._event(0, 'identity_groups', [gname(op[1])])
            self._deliver()
        elif k == 'ServerState':
            self._event(0, 'server_state', [sname(op[1]), op[2], [self.app(i) for i in op[3]]])
            self._deliver()
        elif k == 'AppsBlacklist':
            b.raw_put('/blackedout.apps', list(op[1]))
            self._event(0, 'apps_blacklist', None)
            self._deliver()
        elif k == 'Priority':
            node = '/scheduled/' + self.app(op[1])
            if b.exists(node):
                man = b.get(node)
                man['priority'] = op[2]
                b.raw_put(node, man)
                self._event(1, 'apps', [self.app(op[1])])
                self._deliver()
        elif k == 'Renew':
            self.renew_requests.append(op[1])
        elif k == 'RunningAll':
            for (_s, a) in placement_entries(b.d):
                b.raw_put('/running/' + a, None)
        elif k == 'Tick':
            self.now += op[1]
        elif k == 'PendingStartCheck':
            m.check_integrity()
        else:
            raise ValueError(k)


# ---------------------------------------------------------------------------
# oracles on observations
# ---------------------------------------------------------------------------
def published_diff(entries, model, known_servers, context, race=False, taint=None, api_deleted=None):
    """C09: entries {(s,a): data} vs model {a: {server, identity, expires}} -> [(signature, what)]

    race: a masterapi.delete_server is in flight (nodes removed, `servers` event not yet processed).
    taint: dict (s, a, field) -> (stored value, signature) of content mismatches seen earlier in the history; a
    mismatch with the same stored value keeps the signature of the step that produced it."""
    hits = []
    restart = context.startswith('after-restart') or context.startswith('after-crash-restart')
    dbl = doubles(entries)
    if taint is not None:
        for key in [k for k in taint if k[0] == 'entry' and (k[1], k[2]) not in entries]:
            del taint[key]
    for a, ss in sorted(dbl.items()):
        stale = [s for s in ss if s not in known_servers]
        again = [s for s in ss if taint is not None and ('entry', s, a) in taint]
        if stale:
            hits.append(('stale-entry-after-server-record-deleted',
                         '%s: %s has entries under %s; %s is not a server of the model' % (context, a, ss, stale)))
        elif again:
            hits.append(('stale-entry-after-server-record-deleted',
                         '%s: %s has entries under %s; %s was left behind when its server record was deleted (the '
                         'server has been created again since)' % (context, a, ss, again)))
        else:
            hits.append(('double-entry-%s' % context, '%s: %s has entries under %s' % (context, a, ss)))
    for (s, a), data in sorted(entries.items()):
        if a in dbl:
            if taint is not None and any(s2 not in known_servers for s2 in dbl[a]):
                taint[('entry', s, a)] = True
            continue
        mo = model.get(a)
        left_behind = taint is not None and ('entry', s, a) in taint
        if s not in known_servers or (left_behind and (mo is None or mo['server'] != s)):
            if taint is not None:
                taint[('entry', s, a)] = True
            hits.append(('stale-entry-after-server-record-deleted',
                         '%s: %s/%s left behind under a server the model removed%s (instance %s)'
                         % (context, s, a, ' (the server has been created again since)' if s in known_servers else '',
                            'unscheduled' if mo is None else
                            ('pending' if mo['server'] is None else 'on ' + mo['server']))))
        elif mo is None:
            hits.append(('entry-for-unscheduled-instance-%s' % context, '%s: %s/%s but the instance is not scheduled'
                         % (context, s, a)))
        elif mo['server'] is None:
            hits.append(('entry-for-pending-instance-%s' % context, '%s: %s/%s but the instance is pending'
                         % (context, s, a)))
        elif mo['server'] != s:
            hits.append(('entry-under-wrong-server-%s' % context, '%s: %s recorded under %s, model has it on %s'
                         % (context, a, s, mo['server'])))
        else:
            data = data or {}
            for field, mfield in (('identity', 'identity'), ('expires', 'expires')):
                key = (s, a, field)
                if data.get(field) != mo[mfield]:
                    name = 'identity' if field == 'identity' else 'expiry'
                    if restart:
                        sig = 'stale-%s-after-restart-name-only-reconcile' % name
                    elif taint is not None and key in taint and taint[key][0] == data.get(field):
                        sig = taint[key][1]
                    elif context.startswith('handler-'):
                        what = context[8:]
                        if what in ('ServerRecord', 'PresenceUp', 'PresenceDown', 'PresenceBounce', 'Deliver'):
                            what = 'server-reload'        # Loader.reload_server -> restore_placement
                        sig = 'stale-%s-after-%s-not-republished' % (name, what)
                    else:
                        sig = 'stale-%s-%s' % (name, context)
                    if taint is not None:
                        taint[key] = (data.get(field), sig)
                    hits.append((sig, '%s: %s/%s stored %s %r, model %r'
                                 % (context, s, a, field, data.get(field), mo[mfield])))
                elif taint is not None:
                    taint.pop(key, None)
    recorded = {a for (_s, a) in entries}
    if api_deleted is not None:
        # an entry that exists again, or an instance that is no longer on that server, is no longer the API's doing
        for key in [k for k in api_deleted if k in entries or model.get(k[1], {}).get('server') != k[0]]:
            api_deleted.discard(key)
    for a, mo in sorted(model.items()):
        if mo['server'] is not None and a not in recorded:
            # masterapi.delete_server removed this very entry and the master never learnt of it (the server record was
            # re-created before the servers event was processed): same race, the window just closed differently
            by_api = api_deleted is not None and (mo['server'], a) in api_deleted
            sig = ('missing-entry-during-server-delete-race' if (race or by_api)
                   else 'missing-entry-for-placed-instance-%s' % context)
            hits.append((sig, '%s: model has %s on %s, no entry in the store' % (context, a, mo['server'])))
    return hits


def stale_identity_count(entries, m):
    """informational: entries whose identity_count differs from the group's count (not in the statement)"""
    n = 0
    for (s, a), data in entries.items():
        app = m.cell.apps.get(a)
        if app is None or app.server != s or not data:
            continue
        cnt = None
        if app.identity is not None and app.identity_group_ref is not None:
            cnt = app.identity_group_ref.count
        if data.get('identity_count') != cnt:
            n += 1
    return n


def c11_diff(world, obs):
    """C11 on one load_model(): obs = {'store': dict before, 'model': view after load_model, 'servers'}"""
    d = obs['store']
    entries = placement_entries(d)
    model = obs['model']
    dbl = doubles(entries)
    hits = []
    loader = world.loader_mod
    # what each server still offers
    srv = {}
    for k, v in d.items():
        if k.startswith('/servers/') and k.count('/') == 2 and v[0]:
            name = k.split('/')[2]
            data = v[0]
            if ('/buckets/' + data.get('parent', '?')) not in d:
                continue
            srv[name] = {'cap': loader.resources(data), 'label': data.get('partition') or '_default',
                         'traits': set(data.get('traits', []))}
    allocs = d.get('/allocations', (None, 0))[0] or []
    per_server = {}
    for (s, a), data in entries.items():
        per_server.setdefault(s, []).append((a, data))
    for s, items in sorted(per_server.items()):
        pres = d.get('/server.presence/' + s)
        if s not in srv or pres is None:
            continue
        pt = pres[1]
        demand_sum = [0, 0, 0]
        cand = []
        for a, data in sorted(items):
            man = d.get('/scheduled/' + a, (None, 0))[0]
            if not man or a in dbl:
                continue
            dem = loader.resources(man)
            demand_sum = [x + y for x, y in zip(demand_sum, dem)]
            cand.append((a, data, man))
        overcommitted = any(x > c for x, c in zip(demand_sum, srv[s]['cap']))
        for a, data, man in cand:
            ct = d['/placement/%s/%s' % (s, a)][1]
            if not pt <= ct:
                continue        # server restarted since the instance was placed
            if overcommitted:
                continue        # which instances still fit depends on the order: not decided by the statement
            label = _alloc_label(allocs, a)
            if label != srv[s]['label']:
                continue
            if not set(man.get('traits', [])) <= srv[s]['traits']:
                continue
            mo = model.get(a)
            data = data or {}
            obs['healthy'] = obs.get('healthy', 0) + 1
            if mo is None or mo['server'] is None:
                hits.append(('recorded-placement-not-restored', 'load_model: %s recorded under healthy %s is not '
                             'placed' % (a, s)))
            elif mo['server'] != s:
                hits.append(('restored-on-other-server', 'load_model: %s recorded under %s, placed on %s'
                             % (a, s, mo['server'])))
            else:
                if mo['identity'] != data.get('identity'):
                    hits.append(('identity-differs-after-reload', 'load_model: %s on %s recorded identity %r, model %r'
                                 % (a, s, data.get('identity'), mo['identity'])))
                if mo['expires'] != data.get('expires', 0):
                    hits.append(('expiry-differs-after-reload', 'load_model: %s on %s recorded expires %r, model %r'
                                 % (a, s, data.get('expires'), mo['expires'])))
    for a, mo in sorted(model.items()):
        if mo['server'] is not None and (mo['server'], a) not in entries:
            hits.append(('unrecorded-placement-after-reload', 'load_model: %s placed on %s without a record'
                         % (a, mo['server'])))
    return hits


def _alloc_label(allocs, appname):
    """partition label of the allocation the instance is assigned to (Loader.find_assignment)"""
    import fnmatch
    import re
    for obj in allocs:
        for asg in obj.get('assignments', []):
            pattern = asg['pattern'] + '[#]' + ('[0-9]' * 10)
            if re.compile(fnmatch.translate(pattern)).match(appname):
                return obj.get('partition') or '_default'
    return '_default'


# ---------------------------------------------------------------------------
# running a history
# ---------------------------------------------------------------------------
def store_key(d):
    """content of a store that a restart depends on (the /placement blob and the stats node do not matter)"""
    items = []
    for k in sorted(d):
        if k in ('/placement', '/scheduled-stats'):
            items.append((k, None, d[k][1]))
        else:
            items.append((k, repr(d[k][0]), d[k][1]))
    return hash(tuple(items))


def integrity_signature(outcome, log, race):
    """signature of a failing check_placement_integrity"""
    if race:
        return 'integrity-assert-during-server-delete-race'
    if outcome == 3 and log:
        return 'integrity-assert-after-repair'
    return {1: 'integrity-keyerror', 2: 'integrity-assert-neither', 3: 'integrity-assert-missing-entry'}[outcome]


def check_cut(world, pub, k, memo):
    """the crash point before write k of publication pub: oracle hits [(sig, what)]"""
    d = pub['snaps'][k]
    kind = 'init-schedule' if pub['kind'] == 'init' else 'reschedule'
    entries = placement_entries(d)
    hits = []
    pre = doubles(pub['store0'])
    for a, ss in sorted(doubles(entries).items()):
        if a in pre:
            continue            # already doubled before the publication started: not produced by the crash
        stale = [s for s in ss if s not in pub['servers'] or (s, a) in pub.get('left_behind', ())]
        if stale:
            hits.append(('stale-entry-after-server-record-deleted',
                         'crash before write %d of %s: %s has entries under %s; the one under %s was left behind when '
                         'the server record was deleted' % (k, kind, a, ss, stale)))
        else:
            hits.append(('double-entry-at-crash-in-%s' % kind,
                         'crash before write %d of %s: %s has entries under %s' % (k, kind, a, ss)))
    key = store_key(d)
    if key in memo:
        return hits + memo[key]
    rh = []
    b2 = world.Mem(d, pub['clk'] + 1000)
    m2 = world.master_mod.Master(b2, 'cell')
    world.observe = False
    try:
        m2.load_model()
        m2.init_schedule()
    except Exception as e:   # noqa
        world.observe = True
        import traceback
        tb = traceback.extract_tb(e.__traceback__)
        rh.append(('restart-fails-after-crash', 'crash before write %d of %s: restart raises %s at %s: %s'
                   % (k, kind, type(e).__name__, tb[-1].name if tb else '?', str(e)[:100])))
        memo[key] = rh
        return hits + rh
    world.observe = True
    known = set(m2.servers)
    model = {n: {'server': a.server, 'identity': a.identity, 'expires': a.placement_expiry}
             for n, a in m2.cell.apps.items()}
    race = bool(pub.get('race'))
    rh += published_diff(placement_entries(b2.d), model, known, 'after-crash-restart', race=race)
    b2.log = []
    outcome, exc = 0, None
    try:
        m2.check_placement_integrity()
    except AssertionError as e:
        outcome, exc = (3 if 'Placement integrity failed' in str(e) else 2), e
    except KeyError as e:
        outcome, exc = 1, e
    if outcome:
        rh.append((integrity_signature(outcome, b2.log, race),
                   'crash before write %d of %s: the restarted master fails check_placement_integrity: %s (deleted %s)'
                   % (k, kind, str(exc)[:60], [p for _k, p in b2.log])))
    memo[key] = rh
    return hits + rh


def run_history(case, crash_points=True, want=('c09', 'c10', 'c11'), inject=None, cell_hook=None):
    """Execute a case. Returns dict: hits {prop: [(sig, what)]}, obs, stats, error."""
    hits = {'c09': [], 'c10': [], 'c11': []}
    stats = {'cycles': 0, 'skipped_cycles': 0, 'restarts': 0, 'cuts': 0, 'cut_restarts': 0, 'pub_writes': 0,
             'moves': 0, 'handler_exceptions': 0, 'stale_identity_count': 0, 'implicit_restarts': 0,
             'c11_entries': 0, 'renew_evicted_assert': 0, 'expiry_only_writes': 0, 'race_cycles': 0}
    error = None
    memo = {}
    taint = {}
    with World(case) as w:
        w.boot()
        ops = [['Restart']] + list(case['ops'])
        if inject is not None:
            orig_record = w._record_pub

            def armed(kind, fn):
                if len(w.pubs) == inject[0]:
                    w.b.crash_at, w.b.nw = inject[1], 0
                try:
                    return orig_record(kind, fn)
                finally:
                    w.b.crash_at = None
            w._record_pub = armed
        for op in ops:
            try:
                if op[0] == 'Restart':
                    _do_restart(w, hits, stats, taint)
                    if cell_hook is not None:
                        cell_hook(w, 'after-restart')
                elif op[0] == 'MasterCycle':
                    if w.renew_requests:
                        w.m.up_to_date = False
                    if w.m.up_to_date:
                        stats['skipped_cycles'] += 1      # run_loop: `if not self.up_to_date`
                        continue
                    stats['cycles'] += 1
                    race = bool(w.pending_deletes)
                    stats['race_cycles'] += int(race)
                    w.apply_renew_requests()
                    w.left_behind = {(k[1], k[2]) for k in taint if k[0] == 'entry'}
                    pub = w._record_pub('reschedule', w.m.reschedule)
                    pub['race'] = race
                    if cell_hook is not None:
                        cell_hook(w, 'after-cycle')
                    ent = placement_entries(w.b.d)
                    hits['c09'] += published_diff(ent, w.model_view(), set(w.m.servers), 'after-cycle',
                                                  race=race, taint=taint, api_deleted=w.api_deleted)
                    stats['stale_identity_count'] += stale_identity_count(ent, w.m)
                    outcome, log, exc = w.integrity_check()
                    if outcome != 0:
                        # the final cross-check fails on entries the delete API removed behind the master's back (the
                        # window may have closed since: the server record was created again before the event was seen)
                        ent2 = placement_entries(w.b.d)
                        rec2 = {a for (_s, a) in ent2}
                        miss = {(mo['server'], a) for a, mo in w.model_view().items()
                                if mo['server'] is not None and a not in rec2}
                        if miss and miss <= w.api_deleted:
                            race = True
                        hits['c10'].append((integrity_signature(outcome, log, race),
                                            'check_placement_integrity after a cycle: %s (deleted %s)'
                                            % (exc, [p for _k, p in log])))
                        raise exc
                else:
                    w.apply(op)
                    if op[0] not in ('Tick', 'RunningAll', 'Renew', 'PendingStartCheck') and w.m is not None \
                            and not (op[0] == 'ServerDeleteApi' and not op[2]):
                        w.m.up_to_date = False            # Master.process
                        # attribute content that a handler changes in the model without publishing it
                        published_diff(placement_entries(w.b.d), w.model_view(), set(w.m.servers),
                                       'handler-' + op[0], taint=taint)
            except Exception as e:   # noqa  -- the real master exits (utils.exit_on_unhandled); a new one is elected
                import traceback
                if isinstance(e, w.Crash):
                    return {'crashed_entries': {'%s/%s' % k: v for k, v in placement_entries(w.b.d).items()}}
                stats['handler_exceptions'] += 1
                tb = traceback.extract_tb(e.__traceback__)
                where = tb[-1].name if tb else '?'
                if op[0] == 'MasterCycle' and where == '_find_placements' and isinstance(e, AssertionError) \
                        and w.renewed:
                    # `assert app.server` for an instance with a renewal request that was evicted earlier in the
                    # same cycle: consequence of the harness-level Renew op, outside C09-C11 (reported to the lead)
                    stats['renew_evicted_assert'] += 1
                elif not (op[0] == 'MasterCycle' and where == 'check_placement_integrity'):
                    sig = 'master-exception-%s-in-%s' % (type(e).__name__, where)
                    if w.pending_deletes:
                        # masterapi.delete_server has removed the server's nodes, the master has not processed the event
                        sig += ':during-server-delete-race'
                    elif any(k[0] == 'entry' for k in taint):
                        # the race is over but it left a stale /placement/<server>/<instance> node behind (known finding
                        # stale-entry-after-server-record-deleted); a later reload of that server puts the instance
                        # back from the stale node - without an identity - and the next cycle's assertion fails
                        sig += ':after-stale-entry-of-deleted-server'
                    hits['c09'].append((sig, 'op %s: %s: %s' % (op[0], type(e).__name__, str(e)[:120])))
                try:
                    stats['implicit_restarts'] += 1
                    _do_restart(w, hits, stats, taint)
                except Exception as e2:   # noqa
                    if isinstance(e2, w.Crash):
                        return {'crashed_entries': {'%s/%s' % k: v for k, v in placement_entries(w.b.d).items()}}
                    error = {'op': op, 'type': type(e2).__name__, 'msg': str(e2)[:200]}
                    hits['c10'].append(('restart-fails', 'a new master cannot start after %s: %s: %s'
                                        % (op[0], type(e2).__name__, str(e2)[:120])))
                    break
        for pub in w.pubs:
            if pub['sched']:
                stats['moves'] += sum(1 for t in pub['sched']['tuples'] if t[1] and t[3] and t[1] != t[3])
                stats['expiry_only_writes'] += sum(1 for t in pub['sched']['tuples']
                                                   if t[1] and t[1] == t[3] and t[2] != t[4])
        selfcheck = None
        if crash_points and 'c10' in want and w.pubs:
            pi = max(range(len(w.pubs)), key=lambda j: len(w.pubs[j]['writes']))
            if w.pubs[pi]['writes']:
                kk = len(w.pubs[pi]['writes']) // 2
                selfcheck = (pi, kk, {'%s/%s' % k: v for k, v in placement_entries(w.pubs[pi]['snaps'][kk]).items()})
        if crash_points and 'c10' in want:
            for pub in w.pubs:
                stats['pub_writes'] += len(pub['writes'])
                for k in range(len(pub['snaps'])):
                    stats['cuts'] += 1
                    n0 = len(memo)
                    hits['c10'] += check_cut(w, pub, k, memo)
                    stats['cut_restarts'] += len(memo) - n0
        obs = {'pubs': [_pub_obs(w, p) for p in w.pubs if p['sched'] is not None],
               'integ': [_integ_obs(w, x) for x in w.integ],
               'dedups': [_dedup_obs(w, x) for x in w.dedups],
               'restores': [_restore_obs(w, x) for x in w.restores]}
    if selfcheck is not None:
        stats['injected_crash_checks'] = 1
        if not injected_crash_agrees(case, *selfcheck):
            hits['c10'].append(('harness-crash-snapshot-differs-from-injected-raise',
                                'publication %d write %d: a real raise at that backend write leaves a different '
                                'store than the recorded snapshot' % (selfcheck[0], selfcheck[1])))
    for k in hits:
        hits[k] = _dedupe(hits[k])
    return {'hits': hits, 'obs': obs, 'stats': stats, 'error': error}


def _dedupe(hs):
    seen, out = set(), []
    for s, wt in hs:
        if s not in seen:
            seen.add(s)
            out.append((s, wt))
    return out


def _do_restart(w, hits, stats, taint=None):
    stats['restarts'] += 1
    race = bool(w.pending_deletes)
    w.left_behind = {(k[1], k[2]) for k in (taint or {}) if k[0] == 'entry'}
    c11, pub = w.restart()
    pub['race'] = race
    stats['c11_entries'] += len(placement_entries(c11['store']))
    hits['c11'] += c11_diff(w, c11)
    stats['c11_healthy_compared'] = stats.get('c11_healthy_compared', 0) + c11.get('healthy', 0)
    ent = placement_entries(w.b.d)
    hits['c09'] += published_diff(ent, w.model_view(), set(w.m.servers), 'after-restart', race=race, taint=taint,
                                  api_deleted=w.api_deleted)
    stats['stale_identity_count'] += stale_identity_count(ent, w.m)


def injected_crash_agrees(case, pub_index, k, snapshot_entries):
    """Self-check of the crash model: re-run the history, make write k of publication pub_index raise for real
    (Mem.crash_at) and compare the placement nodes left behind with the recorded snapshot."""
    r = run_history(case, crash_points=False, inject=(pub_index, k))
    return r.get('crashed_entries') == snapshot_entries


# ---------------------------------------------------------------------------
# observations -> flat lists / Gallina terms  (mirror Master/Publish.v flat_*)
# ---------------------------------------------------------------------------
def zopt(v):
    return [-1] if v is None else [1, int(v)]


def flat_pdata(dct):
    dct = dct or {}
    return zopt(dct.get('identity')) + zopt(dct.get('identity_count')) + zopt(dct.get('expires'))


def _write_code(kind, path, value):
    parts = path.strip('/').split('/')
    if parts[0] == 'placement':
        if len(parts) == 3:
            if kind == 'delete':
                return [1, sid(parts[1]), aid(parts[2])]
            if kind == 'put':
                return [2, sid(parts[1]), aid(parts[2])] + flat_pdata(value)
        if len(parts) == 2 and kind == 'ensure':
            return [3, sid(parts[1])]
        if len(parts) == 1 and kind == 'put':
            return [6]
    if parts[0] == 'finished' and kind == 'put' and len(parts) == 2:
        return [4, aid(parts[1])]
    if parts[0] == 'scheduled' and kind == 'delete' and len(parts) == 2:
        return [5, aid(parts[1])]
    return [99]


def count_doubles(entries):
    dbl = doubles(entries)
    return sum(1 for (_s, a) in entries if a in dbl)


def flat_store(entries):
    out = [len(entries)]
    for (s, a) in sorted(entries, key=lambda x: (sid(x[0]), aid(x[1]))):
        out += [sid(s), aid(a)] + flat_pdata(entries[(s, a)])
    return out


def _pub_obs(w, pub):
    sc = pub['sched']
    codes = [_write_code(*wr) for wr in pub['writes']]
    flat = [len(codes)] + [x for c in codes for x in c]
    cuts = [count_doubles(placement_entries(d)) for d in pub['snaps']]
    final = flat_store(placement_entries(pub['snaps'][-1]))
    complete = pub['exc'] is None
    # Python iterates `current - correct` / `correct - current` (sets of strings) in an order the model does not
    # know: the observed order is fed to the model through the order of the store listing / of server.apps
    del_pos = {(c[1], c[2]): i for i, c in enumerate(codes) if c[0] == 1}
    put_pos = {(c[1], c[2]): i for i, c in enumerate(codes) if c[0] == 2}
    big = len(codes) + 1
    store0 = sorted(([sid(s), aid(a)] + [flat_pdata(v)]) for (s, a), v in pub['store0'].items())
    members = [[sid(s), sorted(aid(a) for a in apps)] for s, apps in sc['members']]
    if pub['kind'] == 'init':
        store0.sort(key=lambda e: (e[0], del_pos.get((e[0], e[1]), big), e[1]))
        members = [[s, sorted(apps, key=lambda a: (put_pos.get((s, a), big), a))] for s, apps in members]
    return {'kind': pub['kind'], 'store0': store0,
            'tuples': [[aid(t[0]), sid(t[1]) if t[1] else None, t[2], sid(t[3]) if t[3] else None, t[4]]
                       for t in sc['tuples']],
            'info': sorted([aid(n), flat_pdata(v)] for n, v in sc['info'].items()),
            'once': [aid(n) for n in sc['once']],
            'members': members,
            'expected': flat + cuts + final, 'complete': complete}


def _integ_obs(w, x):
    codes = []
    for kind, path in x['writes']:
        codes.append(_write_code(kind, path, None))
    return {'pairs': [[sid(s), aid(a)] for s, a in x['pairs']], 'known': [aid(a) for a in x['known']],
            'placed': [[aid(a), sid(s)] for a, s in x['placed']],
            'expected': [len(codes)] + [v for c in codes for v in c] + [x['outcome']]}


def _dedup_obs(w, x):
    codes = [_write_code(kind, path, None) for kind, path in x['writes']]
    return {'restored': [[sid(s), [aid(a) for a in r]] for s, r in x['restored']],
            'expected': [len(codes)] + [v for c in codes for v in c]}


def _restore_obs(w, x):
    """one restore_placement call -> model input (fits = what Server.restore/put answered) + expected flat list"""
    ents, acts = [], []
    for e in x['entries']:
        call = x['calls'].get(e['app'])
        fits = bool(call and call[1])
        ents.append([aid(e['app']), e['known'], e['node'], e['identity'], int(e['expires'] or 0), e['ctime'],
                     e['once'], fits])
        forced = x['forced'].get(e['app'])
        if not e['known']:
            acts += [1]
        elif not e['node']:
            acts += [2]
        elif call and call[1] and call[0] == 'restore':
            app = w.m.cell.apps.get(e['app']) if w.m is not None else None
            acts += [3, int(e['expires'] or 0)] + zopt(forced)
        elif call and call[1] and call[0] == 'put':
            acts += [4] + zopt(forced)
        else:
            acts += [5, 1 if e['once'] else 0]
    codes = [_write_code(kind, path, None) for kind, path in x['writes']]
    names = [aid(a) for a in x['restored']]
    return {'server': sid(x['server']), 'presence': x['presence'], 'ri': x['restore_identity'], 'entries': ents,
            'expected': [len(names)] + names + [len(codes)] + [v for c in codes for v in c] + acts}


def t_obs_restore(o):
    ents = G.lst(['(mkRE %s %s %s %s %s %s %s %s)' % (G.z(e[0]), G.b(e[1]), G.b(e[2]), G.opt(e[3], G.z), G.z(e[4]),
                                                     G.z(e[5]), G.b(e[6]), G.b(e[7])) for e in o['entries']])
    return '(%s, %s, %s, %s)' % (G.z(o['server']), G.opt(o['presence'], G.z), G.b(o['ri']), ents)


def t_pdata(fl):
    """flat pdata [-1]|[1,v] x3 -> term"""
    vals, i = [], 0
    for _ in range(3):
        if fl[i] == -1:
            vals.append('None')
            i += 1
        else:
            vals.append('(Some %s)' % G.z(fl[i + 1]))
            i += 2
    return '(mkPD %s %s %s)' % tuple(vals)


def t_store(st):
    return G.lst(['(%s, %s, %s)' % (G.z(e[0]), G.z(e[1]), t_pdata(e[2])) for e in st])


def t_info(info):
    return G.lst(['(%s, %s)' % (G.z(a), t_pdata(fl)) for a, fl in info])


def t_obs_pub(o):
    if o['kind'] == 'reschedule':
        tuples = G.lst(['(%s, %s, %s, %s, %s)' % (G.z(t[0]), G.opt(t[1], G.z), G.opt(t[2], G.z), G.opt(t[3], G.z),
                                                 G.opt(t[4], G.z)) for t in o['tuples']])
        return '(OReschedule %s %s %s %s)' % (t_store(o['store0']), tuples, t_info(o['info']), G.zlist(o['once']))
    members = G.lst(['(%s, %s)' % (G.z(s), G.zlist(apps)) for s, apps in o['members']])
    return '(OInit %s %s %s)' % (t_store(o['store0']), t_info(o['info']), members)


def t_obs_integ(o):
    pairs = G.lst(['(%s, %s)' % (G.z(s), G.z(a)) for s, a in o['pairs']])
    placed = G.lst(['(%s, %s)' % (G.z(a), G.z(s)) for a, s in o['placed']])
    return '(OIntegrity %s %s %s)' % (pairs, G.zlist(o['known']), placed)


def t_obs_dedup(o):
    return '(ODedup %s)' % G.lst(['(%s, %s)' % (G.z(s), G.zlist(r)) for s, r in o['restored']])


def case_term_and_expected(obs, max_pubs=40):
    """(Gallina term : list obs * list robs, expected flat list) of one history"""
    terms, exp = [], []
    for o in obs['pubs'][:max_pubs]:
        if not o['complete']:
            continue
        terms.append(t_obs_pub(o))
        exp += o['expected']
    for o in obs['integ'][:max_pubs]:
        terms.append(t_obs_integ(o))
        exp += o['expected']
    for o in obs['dedups'][:max_pubs]:
        terms.append(t_obs_dedup(o))
        exp += o['expected']
    rterms = []
    for o in obs['restores'][:3 * max_pubs]:
        rterms.append(t_obs_restore(o))
        exp += o['expected']
    return '(%s, %s)' % (G.lst(terms), G.lst(rterms)), exp


PREAMBLE = ('From Coq Require Import ZArith List.\nImport ListNotations.\n'
            'From TM Require Import Master.Publish Master.Restore Gen.Tables.\nOpen Scope Z_scope.\n'
            'Definition c10_cfg : cfg := cfg_of_tables c10_reschedule_phases c10_changed_filter c10_init_phases '
            'c10_init_flags c10_integrity_flags.\n')
RUN_FN = '(run_case11 c10_cfg)'
IN_TYPE = 'list obs * list robs'
MODEL_VOS = ['Master/Publish', 'Master/Restore', 'Gen/Tables']
ANCHORS = ['lib/python/treadmill/scheduler/master.py', 'lib/python/treadmill/scheduler/loader.py',
           'lib/python/treadmill/scheduler/backend.py', 'lib/python/treadmill/scheduler/zkbackend.py',
           'lib/python/treadmill/scheduler/__init__.py']


# ---------------------------------------------------------------------------
# generator
# ---------------------------------------------------------------------------
AFF_LIMITS = {}      # profile 'sched': proid -> affinity limits (instances of one affinity share their limits)


def gen_app(rng, groups):
    spec = {'proid': rng.choice(PROIDS),
            'demand': [rng.choice([300, 500, 800, 1200, 1500]), rng.choice([20, 50, 100, 150]),
                       rng.choice([300, 500, 800, 1200])]}
    if groups and rng.random() < 0.45:
        spec['group'] = rng.choice(groups)
    if rng.random() < 0.12:
        spec['once'] = True
    r = rng.random()
    if r < 0.3:
        spec['drt'] = rng.choice([30, 300])
    r = rng.random()
    if r < 0.3:
        spec['lease'] = rng.choice([600, 3600])
    if rng.random() < 0.4:
        spec['prio'] = rng.randint(1, 100)
        if AFF_LIMITS.get('_sched') and rng.random() < 0.25:
            spec['prio'] = 0          # a declared priority 0 is a real priority (last of its rank), not "unset"
    if rng.random() < 0.1:
        spec['traits'] = ['ssd']
    if isinstance(AFF_LIMITS.get(spec['proid']), dict):
        spec['affinity_limits'] = dict(AFF_LIMITS[spec['proid']])
    return spec


def gen_server(rng, i, racks, partitions):
    srv = {'id': i, 'rack': rng.choice(racks),
           'cap': [rng.choice([2000, 3000, 4000]), rng.choice([200, 300, 400]), rng.choice([3000, 4000])]}
    if partitions and rng.random() < 0.3:
        srv['partition'] = rng.choice(partitions)
    if rng.random() < 0.3:
        srv['traits'] = ['ssd']
    return srv


def gen_allocations(rng, partitions):
    out = []
    for proid in PROIDS:
        if rng.random() < 0.6:
            out.append({'name': '%s/x' % proid, 'partition': rng.choice(['_default'] + partitions * 2),
                        'memory': '%dM' % rng.choice([0, 1000, 3000]), 'cpu': '%d%%' % rng.choice([0, 100, 300]),
                        'disk': '%dM' % rng.choice([0, 1000, 3000]), 'rank': rng.choice([50, 100, 100]),
                        'rank_adjustment': 0,
                        'traits': (rng.choice([['ssd'], ['nosuchtrait'], ['ssd', 'nosuchtrait']])
                                   if AFF_LIMITS.get('_sched') and rng.random() < 0.25 else []),
                        'assignments': [{'pattern': '%s.*' % proid, 'priority': rng.randint(1, 60)}]})
    return out


def gen_case(rng, profile='c10', max_ops=None):
    AFF_LIMITS.clear()
    if profile == 'sched':
        AFF_LIMITS['_sched'] = True
        for pr in PROIDS:
            if rng.random() < 0.5:
                AFF_LIMITS[pr] = rng.choice([{'server': 1}, {'rack': 1}, {'server': 1, 'rack': 2}, {'rack': 2}, {'cell': 3}])
    racks = [1] if rng.random() < 0.6 else [1, 2]
    partitions = ['p1'] if rng.random() < 0.35 else []
    nsrv = rng.choice([2, 3, 3, 4])
    servers = [gen_server(rng, i + 1, racks, partitions) for i in range(nsrv)]
    groups = [(1, rng.randint(1, 3))] if (rng.random() < 0.65 or profile == 'c05') else []
    gids = [g for g, _n in groups]
    case = {'racks': racks, 'partitions': partitions, 'servers': servers, 'groups': groups,
            'allocations': gen_allocations(rng, partitions) if rng.random() < 0.5 else None,
            'apps': [], 'ops': [], 'profile': profile}
    next_id = 1
    for _ in range(rng.randint(0, 4)):
        case['apps'].append([next_id, gen_app(rng, gids)])
        next_id += 1
    live = [a[0] for a in case['apps']]
    sstate = {s['id']: dict(s, up=True, exists=True) for s in servers}
    ops = case['ops']
    n = max_ops or rng.choice([10, 16, 22, 30])
    weights = {'Schedule': 10, 'Unschedule': 3, 'PresenceDown': 4, 'PresenceUp': 4, 'PresenceBounce': 2,
               'ServerRecord': 4, 'ServerDeleteApi': 2, 'Deliver': 1, 'Allocations': 2, 'IdentityGroup': 3,
               'IdentityGroupDeleted': 1, 'ServerState': 3, 'AppsBlacklist': 1, 'Priority': 2, 'Renew': 2,
               'Tick': 3, 'MasterCycle': 12, 'Restart': 3, 'RunningAll': 1, 'PendingStartCheck': 1,
               'OutageThenRestart': 2, 'ShrinkThenRestart': 1, 'DeleteRace': 1, 'FlapAcrossRestart': 0}
    if profile == 'c11':
        weights.update({'Restart': 7, 'PresenceBounce': 4, 'IdentityGroup': 5, 'ServerRecord': 6, 'ServerBlackout': 3})
    if profile == 'c09':
        weights.update({'ServerDeleteApi': 3, 'IdentityGroup': 5, 'Renew': 3})
    if profile == 'sched':
        # the scheduler-level statements (C02..C07) on the real Master: everything that reaches the scheduler through
        # the Loader and the event handlers; the delete-API races are judged under C09/C10 (their known finding leaves
        # stale placement records behind, with consequences for every other statement)
        weights.update({'ServerDeleteApi': 0, 'DeleteRace': 0, 'Deliver': 0, 'Allocations': 5, 'ServerRecord': 6,
                        'ServerState': 5, 'Priority': 4, 'AppsBlacklist': 2, 'IdentityGroup': 4, 'Schedule': 14,
                        'Restart': 3, 'PresenceDown': 5, 'PresenceUp': 5, 'ServerRecreate': 3, 'ServerReboot': 3})
    if profile == 'c05':
        # identity groups resized, deleted and re-created - also twice in a row with no cycle in between - while
        # instances hold identities; restarts force recorded identities back
        weights.update({'IdentityGroup': 9, 'IdentityGroupDeleted': 3, 'GroupBounce': 6, 'Schedule': 12, 'Unschedule': 4,
                        'Restart': 4, 'ShrinkThenRestart': 2, 'ServerDeleteApi': 0, 'DeleteRace': 0})
    if profile == 'c08':
        # server failures against the retention clock, across master restarts and server reloads; nothing that the
        # statement of C08 exempts (no blacklist, identity-group or allocation changes, no renewals, no deletions)
        weights.update({'PresenceDown': 9, 'PresenceUp': 7, 'PresenceBounce': 3, 'ServerRecord': 5, 'Restart': 6,
                        'Tick': 8, 'MasterCycle': 14, 'OutageThenRestart': 3, 'ServerDeleteApi': 0, 'DeleteRace': 0,
                        'Allocations': 0, 'IdentityGroup': 0, 'IdentityGroupDeleted': 0, 'ShrinkThenRestart': 0,
                        'AppsBlacklist': 0, 'Renew': 0, 'Priority': 1, 'ServerState': 2, 'Deliver': 0, 'FlapAcrossRestart': 5})
    kinds = list(weights)
    wts = [weights[k] for k in kinds]
    pending_delete = False
    while len(ops) < n:
        k = rng.choices(kinds, wts)[0]
        existing = [i for i, s in sstate.items() if s['exists']]
        if k == 'Schedule':
            ops.append(['Schedule', next_id, gen_app(rng, gids)])
            live.append(next_id)
            next_id += 1
        elif k == 'Unschedule' and live:
            i = rng.choice(live)
            live.remove(i)
            ops.append(['UnscheduleRace' if (profile in ('c09', 'sched') and rng.random() < 0.3) else 'Unschedule', i])
        elif k == 'PresenceDown':
            up = [i for i in existing if sstate[i]['up']]
            if up:
                i = rng.choice(up)
                sstate[i]['up'] = False
                ops.append(['PresenceDown', i])
        elif k == 'PresenceUp':
            down = [i for i in existing if not sstate[i]['up']]
            if down:
                i = rng.choice(down)
                sstate[i]['up'] = True
                ops.append(['PresenceUp', i])
        elif k == 'PresenceBounce':
            up = [i for i in existing if sstate[i]['up']]
            if up:
                ops.append(['PresenceBounce', rng.choice(up)])
        elif k == 'ServerRecord':
            i = rng.choice(list(sstate))
            srv = gen_server(rng, i, racks, partitions)
            if sstate[i]['exists'] and rng.random() < 0.5:
                srv = {kk: vv for kk, vv in sstate[i].items() if kk in ('id', 'rack', 'cap', 'partition', 'traits')}
                srv['cap'] = [rng.choice([1000, 2000, 3000, 4000]), srv['cap'][1], srv['cap'][2]]
                if rng.random() < 0.25:
                    # a large dimension re-declared by one unit (a 200G disk that loses 1M): every change counts
                    big = 204800 if srv['cap'][2] < 100000 else srv['cap'][2] + rng.choice([-1, 1])
                    srv['cap'] = [sstate[i]['cap'][0], srv['cap'][1], big]
            up = sstate[i]['up'] if sstate[i]['exists'] else False
            sstate[i] = dict(srv, up=up, exists=True)
            ops.append(['ServerRecord', srv])
            if not up and rng.random() < 0.7:
                sstate[i]['up'] = True
                ops.append(['PresenceUp', i])
            if srv['cap'][2] == 204800 and rng.random() < 0.6:
                # ... and, once the master has seen the large value, the same record one unit off
                srv2 = dict(srv, cap=[srv['cap'][0], srv['cap'][1], 204800 + rng.choice([-1, 1])])
                ops.append(['Tick', rng.choice([1, 5])])
                ops.append(['MasterCycle'])
                sstate[i] = dict(srv2, up=sstate[i]['up'], exists=True)
                ops.append(['ServerRecord', srv2])
        elif k == 'ServerDeleteApi' and len(existing) > 1:
            i = rng.choice(existing)
            now = rng.random() < 0.55
            sstate[i]['exists'] = False
            ops.append(['ServerDeleteApi', i, now])
            if not now:
                pending_delete = True
                if rng.random() < 0.7:
                    ops.append(['Tick', rng.choice([1, 5, 40])])
                    ops.append(['MasterCycle'])
                    ops.append(['Deliver'])
                    pending_delete = False
        elif k == 'Deliver' and pending_delete:
            ops.append(['Deliver'])
            pending_delete = False
        elif k == 'Allocations':
            ops.append(['Allocations', gen_allocations(rng, partitions)])
        elif k == 'IdentityGroup':
            g = rng.choice(gids) if gids and rng.random() < 0.8 else 1
            if g not in gids:
                gids.append(g)
            ops.append(['IdentityGroup', g, rng.randint(0, 4)])
        elif k == 'IdentityGroupDeleted' and gids:
            ops.append(['IdentityGroupDeleted', rng.choice(gids)])
        elif k == 'ServerRecreate' and existing:
            # the server's record is deleted and declared again between two cycles, both events handled at once
            i = rng.choice(existing)
            srv = {kk: vv for kk, vv in sstate[i].items() if kk in ('id', 'rack', 'cap', 'partition', 'traits')}
            ops.append(['ServerDeleteApi', i, True])
            ops.append(['ServerRecord', srv])
            if sstate[i]['up']:
                ops.append(['PresenceBounce', i])
        elif k == 'ServerReboot' and existing:
            # an ordinary reboot: presence lost, the node comes back with the same record but a new boot time
            i = rng.choice(existing)
            srv = {kk: vv for kk, vv in sstate[i].items() if kk in ('id', 'rack', 'cap', 'partition', 'traits')}
            ops.append(['PresenceDown', i])
            ops.append(['Tick', rng.choice([5, 60])])
            ops.append(['ServerRecord', dict(srv, up_since='now')])
            ops.append(['PresenceUp', i])
            sstate[i]['up'] = True
        elif k == 'GroupBounce' and gids:
            # two identity-group events handled back to back (the master cycles only every other second): shrunk and
            # grown again, or deleted and created again, while instances hold the upper identities; then a newcomer
            g = rng.choice(gids)
            ops.append(['Tick', 2])          # every cycle is preceded by a Tick (run_loop spaces cycles by 2 s)
            ops.append(['MasterCycle'])
            if rng.random() < 0.6:
                ops.append(['IdentityGroup', g, rng.choice([0, 1])])
            else:
                ops.append(['IdentityGroupDeleted', g])
            ops.append(['IdentityGroup', g, rng.randint(2, 4)])
            if rng.random() < 0.8:
                a = gen_app(rng, [g])
                a['group'] = g
                ops.append(['Schedule', next_id, a])
                live.append(next_id)
                next_id += 1
            ops.append(['Tick', 2])
            ops.append(['MasterCycle'])
        elif k == 'ServerState' and existing:
            st = rng.choice(['frozen', 'frozen', 'up', 'down'])
            apps = rng.sample(live, min(len(live), rng.randint(0, 2))) if st == 'frozen' else []
            ops.append(['ServerState', rng.choice(existing), st, apps])
        elif k == 'AppsBlacklist':
            ops.append(['AppsBlacklist', rng.choice([[], ['foo.*'], ['bar.*']])])
        elif k == 'ServerBlackout' and existing:
            # an operator blacks a server out (a trace event only: its instances stay) or clears the blackout
            ops.append(['ServerBlackout', rng.choice(existing), rng.random() < 0.7])
        elif k == 'Priority' and live:
            ops.append(['Priority', rng.choice(live), rng.randint(0, 100)])
        elif k == 'Renew' and live:
            ops.append(['Renew', rng.choice(live)])
        elif k == 'Tick':
            ops.append(['Tick', rng.choice([1, 10, 29, 30, 31, 120, 299, 301, 700, 4000])])
        elif k == 'MasterCycle':
            ops.append(['Tick', rng.choice([1, 2, 2, 5, 31, 300])])
            ops.append(['MasterCycle'])
        elif k == 'Restart':
            if rng.random() < 0.7:
                ops.append(['Tick', rng.choice([1, 2, 31])])
                ops.append(['MasterCycle'])
            ops.append(['Restart'])
        elif k == 'OutageThenRestart':
            # something happens while no master is running: the start-up cycle has to move instances
            up = [i for i in existing if sstate[i]['up']]
            if len(up) > 1:
                i = rng.choice(up)
                sstate[i]['up'] = False
                ops.append(['Tick', 2])
                ops.append(['MasterCycle'])
                ops.append(['PresenceDown', i])
                ops.append(['Tick', rng.choice([1, 40, 400])])
                ops.append(['Restart'])
        elif k == 'FlapAcrossRestart':
            # a server fails, comes back inside the retention window, the master is replaced (or the server record is
            # reloaded) while it is up again, and much later it fails a second time: retention counts from the SECOND
            # failure
            up = [i for i in existing if sstate[i]['up']]
            if up:
                i = rng.choice(up)
                ops.append(['Tick', 2])
                ops.append(['MasterCycle'])
                ops.append(['PresenceDown', i])
                ops.append(['Tick', rng.choice([1, 5, 20])])
                ops.append(['MasterCycle'])
                if rng.random() < 0.6:
                    # it comes back while the master is being replaced
                    ops.append(['PresenceUpRaw', i])
                    ops.append(['Tick', 2])
                    ops.append(['Restart'])
                elif rng.random() < 0.6:
                    ops.append(['PresenceUp', i])
                    ops.append(['Tick', 2])
                    ops.append(['Restart'])
                else:
                    ops.append(['PresenceUp', i])
                    ops.append(['Tick', 2])
                    srv = {kk: vv for kk, vv in sstate[i].items() if kk in ('id', 'rack', 'cap', 'partition', 'traits')}
                    srv['cap'] = [srv['cap'][0] + 1000, srv['cap'][1], srv['cap'][2]]
                    sstate[i] = dict(srv, up=True, exists=True)
                    ops.append(['ServerRecord', srv])
                ops.append(['Tick', 2])
                ops.append(['MasterCycle'])
                ops.append(['Tick', rng.choice([40, 320, 700])])
                ops.append(['MasterCycle'])
                ops.append(['PresenceDown', i])
                sstate[i]['up'] = False
                ops.append(['Tick', rng.choice([1, 2, 10])])
                ops.append(['MasterCycle'])
        elif k == 'ShrinkThenRestart' and gids:
            ops.append(['Tick', 2])
            ops.append(['MasterCycle'])
            if live and rng.random() < 0.7:
                i = rng.choice(live)
                live.remove(i)
                ops.append(['Unschedule', i])
            ops.append(['IdentityGroup', rng.choice(gids), rng.randint(0, 2)])
            ops.append(['Tick', 3])
            ops.append(['Restart'])
        elif k == 'DeleteRace' and len(existing) > 1:
            # masterapi.delete_server has removed the nodes, the master has not yet processed the event
            i = rng.choice(existing)
            sstate[i]['exists'] = False
            ops.append(['ServerDeleteApi', i, False])
            ops.append(['Schedule', next_id, gen_app(rng, gids)])
            live.append(next_id)
            next_id += 1
            ops.append(['Tick', 2])
            ops.append(['MasterCycle'])
            ops.append(['Deliver'])
            ops.append(['Tick', 2])
            ops.append(['MasterCycle'])
        elif k == 'RunningAll':
            ops.append(['RunningAll'])
        elif k == 'PendingStartCheck':
            ops.append(['PendingStartCheck'])
    ops.append(['Tick', 2])
    ops.append(['MasterCycle'])
    if rng.random() < 0.5:
        ops.append(['Restart'])
    return case


# ---------------------------------------------------------------------------
# shared spec for C09 / C10 / C11 (core.standard_run)
# ---------------------------------------------------------------------------
TRUSTED_COMMON = [
    'Coq 8.16.1 kernel (coqc); vm_compute for C10_source_shape, Examples, _refuted witnesses and the correspondence; '
    'no native_compute; no axioms (Print Assumptions: closed under the global context for every theorem)',
    'translator harness/tables_c10.py: AST of Master.reschedule / Master.init_schedule (loop order, guards, '
    'changed_placement filter), fail-closed; Props re-establish cfg_canonical c10_cfg = true on every run',
    'hand-written models coq/theories/Master/Publish.v (publication as an ordered write list, store of '
    '/placement/<server>/<app> nodes, check_placement_integrity with its stale app2server map, the duplicate pass of '
    'restore_placements) and Master/Restore.v (per-node decision of restore_placement; the answer of '
    'Server.restore/put is an input, taken from the implementation in the correspondence and from Sched/Tree.v '
    'srv_restore/srv_put in Master/RestoreSched.v), tied by differential execution: for every publication / '
    'integrity check / duplicate pass / restore_placement call of every generated history the recorded backend '
    'writes of the real Master, the number of doubly placed entries at every cut, the final store, the restored '
    'names and the per-node action must equal the model\'s (cases_*.v + vm_compute)',
    'modelled rather than verified: ZooKeeper as a map path -> (data, ctime) with create-or-overwrite put (ctime '
    'kept), delete-if-exists (recursive), linearizable single-node operations; a crash = a prefix of the write list '
    '(a write happened or did not); ctime from a strictly increasing logical clock; Python set iteration order inside '
    'one server block of init_schedule (the observed order is fed to the model, the theorems hold for every order); '
    'kazoo watches, threads and leader election '
    '(handlers are called directly, one at a time; MasterCycle runs only when up_to_date is False, as run_loop)',
    'in-memory backend harness/emaster.py:Mem (subclass of scheduler.backend.Backend), virtual clock (time.time of '
    'scheduler/loader/master patched), scheduler._global_order replaced by a counter',
]
ASSUMPTIONS_COMMON = [
    'the wall clock is constant inside one handler / one cycle and moves only through Tick; every cycle is preceded '
    'by a Tick >= 1 s (run_loop spaces cycles by _SCHEDULER_INTERVAL = 2 s)',
    'cells of <= 4 servers in <= 2 racks, <= 2 partitions, instances without affinity limits, integer resources',
    'placement tuples name every instance once (NoDup names): Cell.schedule lists allocation queues, an instance '
    'is in exactly one',
]


def make_spec(pid, profile, n_quick, n_thorough, rule_extra):
    key = pid.lower()
    crash = (pid == 'C10')

    def gen(rng, i):
        return gen_case(rng, profile)

    def impl_run(case):
        r = run_history(case, crash_points=crash, want=(key,))
        term, exp = case_term_and_expected(r['obs'])
        return {'hits': [list(h) for h in r['hits'][key]], 'other_hits': {k: [h[0] for h in v]
                                                                          for k, v in r['hits'].items() if k != key},
                'stats': r['stats'], 'error': r['error'], 'term': term, 'expected': exp,
                'npubs': len(r['obs']['pubs'])}

    def oracle(case, obs):
        return [(s, w) for s, w in obs['hits']] or None

    def nontrivial(case, obs):
        st = obs['stats']
        return st['moves'] > 0 or st['restarts'] > 1

    def extra(_r, cases, obs):
        tot = {}
        kinds = {}
        for c, o in zip(cases, obs):
            for k, v in o['stats'].items():
                tot[k] = tot.get(k, 0) + v
            for op in c['ops']:
                kinds[op[0]] = kinds.get(op[0], 0) + 1
        sigs = {}
        for o in obs:
            for s, _w in o['hits']:
                sigs[s] = sigs.get(s, 0) + 1
        return {'distribution': {'op_kinds': kinds, 'totals': tot, 'histories_per_signature': sigs}}

    return {
        'model_vos': MODEL_VOS, 'table_sections': ['c10', 'source_shape'],
        'preamble': PREAMBLE, 'run_fn': RUN_FN, 'in_type': IN_TYPE,
        'gen_case': gen, 'impl_run': impl_run,
        'expected': lambda c, o: o['expected'], 'case_term': lambda c, o: o['term'],
        'oracle': oracle, 'nontrivial': nontrivial,
        'n_quick': n_quick, 'n_thorough': n_thorough, 'search_quick': 400, 'search_thorough': 20000,
        'corpus': '%s.json' % key, 'shard': 12,
        'rule': 'seeded histories (one random.Random(seed)) of 10-30 ZooKeeper-level events on a generated cell '
                '(2-4 servers, identity groups, allocations, partitions): Schedule/Unschedule, presence up/down/bounce, '
                'server record changed / deleted through masterapi.delete_server (event delivered at once or after '
                'the next cycle), allocations, identity groups, server_state, apps blacklist, priorities, renewals, '
                'ticks, MasterCycle = reschedule()+check_placement_integrity(), Restart = new Master: load_model(); '
                'init_schedule(); ' + rule_extra + '; non-trivial = some cycle moved an instance or the history '
                'contains a restart besides the boot',
        'trusted': TRUSTED_COMMON, 'assumptions': ASSUMPTIONS_COMMON, 'anchors': ANCHORS, 'extra': extra,
    }


def replay(pid, case):
    r = run_history(case, crash_points=(pid == 'C10'), want=(pid.lower(),))
    h = r['hits'][pid.lower()]
    return (h[0][0], h[0][1]) if h else None
