"""How many of the generated E-cell histories satisfy the side conditions of the all-histories theorems.

`Sched/SideCond.v: sidecond_case` evaluates the boolean checkers (`wf_ops_allb`, `wf_ops_affb`, `wf_ops_aggb`,
`wf_ops_cntb`, each proved sound for the Prop the theorems assume) on a history; the counts go into the evidence file
(`coverage.side_conditions`). A history outside the side conditions is still played and compared with the model; it is
only not covered by the `reachable` theorems as stated.
"""
import re

from . import core

NAMES = ['wf_ops_all (C03 C05 C07 C08)', 'wf_ops_aff (C04 C07)', 'wf_ops_agg (C02)', 'wf_ops_cnt (C04 buckets)']


def evaluate(preamble, terms, limit=60):
    """terms: Gallina terms of type nat * Z * Z * list op. Returns a dict for the evidence file."""
    terms = terms[:limit]
    if not terms:
        return {'histories': 0}
    body = ('From TM Require Import Sched.SideCond.\n'
            'Definition hs : list (nat * Z * Z * list op) := [\n%s\n].\n'
            'Definition r := Eval vm_compute in (map sidecond_case hs).\nPrint r.' % ';\n'.join(terms))
    rc, out = core.coq_eval(preamble, body, name='sidecond', timeout=600)
    if rc != 0:
        return {'histories': len(terms), 'error': out[-300:]}
    flat = out.replace('\n', ' ')
    rows = re.findall(r'\[\s*(\d)(?:%Z)?;\s*(\d)(?:%Z)?;\s*(\d)(?:%Z)?;\s*(\d)(?:%Z)?\s*\]', flat)
    res = {'histories': len(terms), 'evaluated': len(rows)}
    for k, name in enumerate(NAMES):
        res[name] = sum(1 for r in rows if r[k] == '1')
    res['all four'] = sum(1 for r in rows if all(x == '1' for x in r))
    return res
