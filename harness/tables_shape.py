"""Source-shape translator for the scheduler (a fail-closed tie on top of the differential correspondence).

For every function of treadmill/scheduler/__init__.py that the scheduler model (coq/theories/Sched/*.v) was written
from, the statement skeleton is re-extracted from the Python AST on every run: one token per statement (kind, the
normalised source of its test / targets / value / call, nesting depth), docstrings, logging calls, `pass` and `assert`
statements left out. Each token becomes one integer depth * 2^32 + crc32(token text). The generated lists
(Gen/Tables.v, `shape_<function>`) must equal the lists recorded when the model was written
(coq/theories/Sched/ShapeCanon.v, `canon_<function>`, produced once by tools/mkshape.py and committed); the comparison
is the premise `Cxx_source_shape` of the properties that depend on the function. A change to the control flow, a guard,
an assignment or a call of one of these functions therefore breaks a proof obligation even when the sampled
correspondence does not reach the changed path; comments, log messages, docstrings and assertions may change freely, and
so may the NAMES of local variables (they are renamed to _v1, _v2, ... in order of first occurrence before the skeleton
is taken: a consistent rename is invisible, a variable used in place of another is not).
"""
import ast
import json
import os
import zlib

from . import tables, gallina as G

SRC = 'treadmill/scheduler/__init__.py'

# class -> functions (module-level functions separately)
FUNCS = {
    'Application': ['shape', 'acquire_identity', 'release_identity', 'force_set_identity', 'has_identity'],
    'IdentityGroup': ['acquire', 'release', 'adjust'],
    'Allocation': ['set_reserved', 'update', 'set_max_utilization', 'set_traits', 'add', 'remove',
                   'priv_utilization_queue', 'utilization_queue', 'total_reserved', 'add_sub_alloc',
                   'remove_sub_alloc', 'get_sub_alloc', 'all_apps'],
    'TraitSet': ['_recalculate', 'has', 'add', 'remove'],
    'Node': ['get_state', 'set_state', 'add_child_traits', 'remove_child_traits', 'adjust_valid_until', 'add_node',
             'add_labels', 'remove_node', 'check_app_constraints', 'check_app_affinity_limit', 'size', 'members',
             'increment_affinity', 'decrement_affinity'],
    'Bucket': ['set_affinity_strategy', 'get_affinity_strategy', 'adjust_capacity_up', 'adjust_capacity_down',
               'add_node', 'remove_node', 'put'],
    'Server': ['put', 'restore', 'renew', 'check_app_lifetime', 'remove', 'remove_all', 'size', 'set_state', 'is_same',
               '__init__'],
    'SpreadStrategy': ['suggested_node', 'next_node'],
    'PlacementFeasibilityTracker': ['feasible', 'adjust'],
    'Cell': ['add_app', 'remove_app', 'configure_identity_group', 'remove_identity_group',
             '_fix_invalid_placements', '_record_rank_and_util', '_fix_invalid_identities',
             '_handle_inactive_servers', '_handle_blacklisted_apps', '_find_placements', 'schedule_alloc',
             'schedule'],
}
MODULE_FUNCS = ['utilization', '_all', '_any', 'zero_capacity', 'eps_capacity']

# which functions each property's theorems were proved about
IDENT = ['Application.acquire_identity', 'Application.release_identity', 'Application.has_identity',
         'IdentityGroup.acquire', 'IdentityGroup.release', 'IdentityGroup.adjust',
         'Cell.configure_identity_group', 'Cell.remove_identity_group', 'Cell._fix_invalid_identities']
LOOP = ['Cell._find_placements', 'Cell.schedule_alloc', 'Cell.schedule', 'Cell._fix_invalid_placements',
        'Cell._handle_inactive_servers', 'Cell._handle_blacklisted_apps', 'Cell._fix_invalid_identities',
        'Cell._record_rank_and_util']
SRV = ['Server.put', 'Server.restore', 'Server.renew', 'Server.remove', 'Server.check_app_lifetime',
       'Node.check_app_constraints', 'Node.check_app_affinity_limit', '_any', '_all']
TOPO = ['Node.add_node', 'Node.remove_node', 'Bucket.add_node', 'Bucket.remove_node', 'Node.add_labels',
        'Node.add_child_traits', 'Node.remove_child_traits', 'TraitSet._recalculate', 'TraitSet.add', 'TraitSet.remove',
        'TraitSet.has', 'Bucket.adjust_capacity_up', 'Bucket.adjust_capacity_down', 'Node.increment_affinity',
        'Node.decrement_affinity', 'Server.set_state', 'Node.set_state', 'Node.get_state', 'Server.remove_all']
PROP_FUNCS = {
    'C01': SRV + TOPO + ['Cell.add_app', 'Cell.remove_app', 'Server.is_same', 'Server.__init__'] + LOOP,
    'C02': SRV + TOPO + ['Bucket.put', 'Node.size', 'Server.size', 'PlacementFeasibilityTracker.feasible',
                         'PlacementFeasibilityTracker.adjust', 'Application.shape', 'SpreadStrategy.suggested_node',
                         'SpreadStrategy.next_node', 'Bucket.get_affinity_strategy'] + LOOP,
    'C03': SRV + ['Bucket.put', 'Server.set_state', 'Node.set_state', 'Node.get_state', 'TraitSet.has'] + LOOP,
    'C04': SRV + TOPO + ['Bucket.put'] + LOOP,
    'C05': IDENT + SRV + LOOP + ['Cell.add_app', 'Cell.remove_app'],
    'C06': ['Allocation.priv_utilization_queue', 'Allocation.utilization_queue', 'Allocation.total_reserved',
            'Allocation.all_apps', 'Allocation.update', 'Allocation.set_reserved', 'Allocation.set_max_utilization',
            'Allocation.add', 'Allocation.remove', 'Allocation.get_sub_alloc', 'Allocation.add_sub_alloc',
            'Cell.schedule_alloc', 'Cell._record_rank_and_util', 'utilization', 'Node.size', 'Server.size'],
    'C07': SRV + ['Bucket.put', 'PlacementFeasibilityTracker.feasible', 'PlacementFeasibilityTracker.adjust',
                  'Application.shape'] + LOOP,
    'C08': SRV + ['Server.set_state', 'Node.set_state', 'Node.get_state', 'Bucket.put'] + LOOP,
}


def _is_logger_call(node):
    # `_LOGGER.debug(...)` and the per-request adapters `with lc.LogContext(...) as log: log.debug(...)`
    return (isinstance(node, ast.Expr) and isinstance(node.value, ast.Call)
            and isinstance(node.value.func, ast.Attribute) and isinstance(node.value.func.value, ast.Name)
            and (node.value.func.value.id == '_LOGGER'
                 or (node.value.func.attr in ('debug', 'info', 'warning', 'error', 'exception', 'critical')
                     and node.value.args and isinstance(node.value.args[0], ast.Constant)
                     and isinstance(node.value.args[0].value, str))))      # the adapter's name is alpha-renamed


def _u(node):
    return ast.unparse(node) if node is not None else ''


def _tokens(stmts, depth, out):
    for st in stmts:
        if isinstance(st, ast.Expr) and isinstance(st.value, ast.Constant) and isinstance(st.value.value, str):
            continue
        if _is_logger_call(st) or isinstance(st, (ast.Pass, ast.Assert)):
            continue
        if isinstance(st, ast.If):
            out.append((depth, 'if ' + _u(st.test)))
            _tokens(st.body, depth + 1, out)
            if st.orelse:
                out.append((depth, 'else'))
                _tokens(st.orelse, depth + 1, out)
        elif isinstance(st, ast.For):
            out.append((depth, 'for %s in %s' % (_u(st.target), _u(st.iter))))
            _tokens(st.body, depth + 1, out)
            if st.orelse:
                out.append((depth, 'forelse'))
                _tokens(st.orelse, depth + 1, out)
        elif isinstance(st, ast.While):
            out.append((depth, 'while ' + _u(st.test)))
            _tokens(st.body, depth + 1, out)
            if st.orelse:
                out.append((depth, 'whileelse'))
                _tokens(st.orelse, depth + 1, out)
        elif isinstance(st, ast.Assign):
            out.append((depth, 'set %s = %s' % (' = '.join(_u(t) for t in st.targets), _u(st.value))))
        elif isinstance(st, ast.AugAssign):
            out.append((depth, 'aug %s %s %s' % (_u(st.target), type(st.op).__name__, _u(st.value))))
        elif isinstance(st, ast.AnnAssign):
            out.append((depth, 'set %s = %s' % (_u(st.target), _u(st.value))))
        elif isinstance(st, ast.Expr):
            out.append((depth, 'do ' + _u(st.value)))
        elif isinstance(st, ast.Return):
            out.append((depth, 'return ' + _u(st.value)))
        elif isinstance(st, ast.Continue):
            out.append((depth, 'continue'))
        elif isinstance(st, ast.Break):
            out.append((depth, 'break'))
        elif isinstance(st, ast.Raise):
            out.append((depth, 'raise ' + _u(st.exc)))
        elif isinstance(st, ast.Delete):
            out.append((depth, 'del ' + ', '.join(_u(t) for t in st.targets)))
        elif isinstance(st, ast.Try):
            out.append((depth, 'try'))
            _tokens(st.body, depth + 1, out)
            for h in st.handlers:
                out.append((depth, 'except ' + _u(h.type)))
                _tokens(h.body, depth + 1, out)
            if st.orelse:
                out.append((depth, 'tryelse'))
                _tokens(st.orelse, depth + 1, out)
            if st.finalbody:
                out.append((depth, 'finally'))
                _tokens(st.finalbody, depth + 1, out)
        elif isinstance(st, ast.With):
            out.append((depth, 'with ' + ', '.join(_u(i) for i in st.items)))
            _tokens(st.body, depth + 1, out)
        elif isinstance(st, (ast.FunctionDef, ast.ClassDef)):
            out.append((depth, 'def ' + st.name))
            _tokens(st.body, depth + 1, out)
        elif isinstance(st, (ast.Global, ast.Nonlocal, ast.Import, ast.ImportFrom)):
            out.append((depth, type(st).__name__ + ' ' + _u(st)))
        else:
            raise tables.TranslatorError('shape: unexpected statement %s' % type(st).__name__)


def _alpha(fn):
    """A copy of the function in which every LOCAL variable (a name the body assigns: assignment / for / with / except /
    comprehension targets; not the parameters, not global or nonlocal names) is renamed to _v<k>, k in the order of its
    first occurrence. Renaming a local consistently therefore leaves the skeleton alone; using one variable where another
    was used does not."""
    import copy
    fn = copy.deepcopy(fn)
    params = {a.arg for a in fn.args.args + fn.args.kwonlyargs + fn.args.posonlyargs}
    if fn.args.vararg:
        params.add(fn.args.vararg.arg)
    if fn.args.kwarg:
        params.add(fn.args.kwarg.arg)
    outer = set()
    local = set()
    for node in ast.walk(fn):
        if isinstance(node, (ast.Global, ast.Nonlocal)):
            outer |= set(node.names)
        elif isinstance(node, ast.Name) and isinstance(node.ctx, (ast.Store, ast.Del)):
            local.add(node.id)
        elif isinstance(node, ast.ExceptHandler) and node.name:
            local.add(node.name)
    local -= params | outer
    order = {}

    class R(ast.NodeTransformer):
        def visit_Name(self, node):
            if node.id in local:
                node.id = order.setdefault(node.id, '_v%d' % (len(order) + 1))
            return node

        def visit_ExceptHandler(self, node):
            if node.name in local:
                node.name = order.setdefault(node.name, '_v%d' % (len(order) + 1))
            self.generic_visit(node)
            return node
    for st in fn.body:
        R().visit(st)
    fn._locals_in_order = list(order)      # pylint: disable=protected-access
    return fn


def locals_in_order(fn):
    """the local variables of a function in the order _alpha numbers them"""
    return _alpha(fn)._locals_in_order     # pylint: disable=protected-access


LOCALS_FILE = os.path.join(os.path.dirname(os.path.abspath(__file__)), 'shape_locals.json')
_LOCALS = [None]


def restore_locals(rel, text):
    """Source text of `rel` as the translators should see it. harness/shape_locals.json records, for every function of
    the files the translators read, the names of its local variables in order of first occurrence (tools/mkshape.py, when
    the models were in line with the source). When a function of the current tree has the same NUMBER of locals but other
    names - a consistent renaming, or something the shape tie will flag anyway - the recorded names are put back, so that
    the name-based extraction of every translator sees what it was written for. On a tree whose locals are named as
    recorded (the unchanged tree) the text is returned untouched."""
    import json
    if _LOCALS[0] is None:
        try:
            with open(LOCALS_FILE) as f:
                _LOCALS[0] = json.load(f)
        except IOError:
            _LOCALS[0] = {}
    rec = _LOCALS[0].get(rel)
    if not rec:
        return text
    try:
        tree = ast.parse(text)
    except SyntaxError:
        return text
    changed = False
    for qual, fn in functions_of(tree).items():
        want = rec.get(qual)
        if want is None:
            continue
        have = locals_in_order(fn)
        if have == want or len(have) != len(want) or len(set(want)) != len(want):
            continue
        mapping = dict(zip(have, want))
        taken = {n.id for n in ast.walk(fn) if isinstance(n, ast.Name)} - set(have)
        if any(v in taken for k, v in mapping.items() if k != v):
            continue                      # a recorded name is now used for something else: leave it to the shape tie

        class Back(ast.NodeTransformer):
            def visit_Name(self, node):
                node.id = mapping.get(node.id, node.id)
                return node

            def visit_ExceptHandler(self, node):
                if node.name:
                    node.name = mapping.get(node.name, node.name)
                self.generic_visit(node)
                return node
        for st in fn.body:
            Back().visit(st)
        changed = True
    return ast.unparse(tree) if changed else text


def functions_of(tree):
    """qualname -> FunctionDef for module-level functions and methods of (nested) classes; first definition wins
    (property getter before setter)."""
    out = {}

    def walk(body, prefix):
        for node in body:
            if isinstance(node, (ast.FunctionDef, ast.AsyncFunctionDef)):
                out.setdefault(prefix + node.name, node)
            elif isinstance(node, ast.ClassDef):
                walk(node.body, prefix + node.name + '.')
    walk(tree.body, '')
    return out


PINS_FILE = os.path.join(os.path.dirname(os.path.abspath(__file__)), 'shape_pins.json')


def anchor_pins():
    """property -> [(relpath, qualname)] for C09..C20: the functions overlapping the line ranges named by the property's
    anchors, computed ONCE on the base commit by tools/mkshape.py and committed (harness/shape_pins.json)."""
    if not os.path.exists(PINS_FILE):
        return {}
    with open(PINS_FILE) as f:
        return {p: [tuple(k) for k in ks] for p, ks in json.load(f).items()}


def prop_keys():
    """property -> ordered, duplicate-free list of (relpath, qualname)"""
    out = {}
    for prop, names in PROP_FUNCS.items():
        ks = []
        for n in names:
            if (SRC, n) not in ks:
                ks.append((SRC, n))
        out[prop] = ks
    for prop, ks in anchor_pins().items():
        base = out.get(prop, [])
        out[prop] = base + [k for k in ks if k not in base]
    return out


def all_keys():
    keys = []
    for cls, names in FUNCS.items():
        keys += [(SRC, '%s.%s' % (cls, n)) for n in names]
    keys += [(SRC, n) for n in MODULE_FUNCS]
    for ks in anchor_pins().values():
        for k in ks:
            if k not in keys:
                keys.append(k)
    return keys


def ident(key):
    rel, qual = key
    mod = rel[len('treadmill/'):] if rel.startswith('treadmill/') else rel
    mod = mod[:-3] if mod.endswith('.py') else mod
    mod = mod.replace('/__init__', '_init').replace('/', '_').replace('.', '_')
    q = qual.replace('.', '_')
    return ('%s__%s' % (mod, q)).replace('___', '__').lower().strip('_')


def shapes():
    """key -> (list of ints, list of (depth, token text)); a function that no longer exists gets the empty skeleton
    (only the properties that pin it then fail)"""
    trees = {}
    out = {}
    for key in all_keys():
        rel, qual = key
        if rel not in trees:
            trees[rel] = functions_of(ast.parse(tables._src(rel)))
        fn = trees[rel].get(qual)
        if fn is None:
            out[key] = ([], [])
            continue
        toks = [(0, 'def(%s)' % ', '.join(a.arg for a in fn.args.args))]
        _tokens(_alpha(fn).body, 1, toks)
        out[key] = ([d * (1 << 32) + (zlib.crc32(t.encode()) & 0xffffffff) for d, t in toks], toks)
    for prop, keys in prop_keys().items():
        for k in keys:
            if k not in out:
                raise tables.TranslatorError('shape: %s lists unknown function %s' % (prop, k))
    return out


def emit(prefix='shape'):
    sh = shapes()
    lines = ['(* statement skeletons of the pinned functions: one integer per statement = depth * 2^32 + crc32 of the '
             'normalised statement head *)']
    for key in all_keys():
        lines.append('Definition %s_%s : list Z := %s.' % (prefix, ident(key), G.lst([G.z(v) for v in sh[key][0]])))
    return '\n'.join(lines) + '\n'


tables.register('source_shape', emit)
