"""Translator section of the LDAP per-class wrappers (Codec/LdapCls.v, Props/C15Ldap.v).

Section (stdlib types only, so Gen/Tables.v never depends on a model file)
  c15_ldapcls   admin/_ldap.py:
      * module values: every schema table of the nine LdapObject classes (Server, DNS, AppGroup, Application, Cell,
        Tenant, CellAllocation, Allocation, Partition: `_schema`, the item schemas, the combined `schema()`),
        DEFAULT_PARTITION, Application._default_svc_restart;
      * the SHAPE of the list codec (_dict_2_entry, _empty_list_entry, _to_obj_list, _group_entry_by_opt,
        _grouped_to_list_of_dict), of LdapObject.from_entry / to_entry and of every from_entry / to_entry / schema
        override: the function's AST with every constant replaced by a hole must be identical to the AST of the
        template below (fail closed).  The constants themselves (object keys, sort keys, option prefixes, defaults,
        the attribute-option format string) are exported by role; a role that occurs at several positions must have
        one value; a constant without a role must have the template's value;
      * DNS, AppGroup and Allocation must NOT define from_entry / to_entry (they use LdapObject's), and
        `<Class>.schema` of Server / DNS / AppGroup must be `staticmethod(lambda: <Class>._schema)`.
"""
import ast
import copy
import importlib
import sys

from . import gallina as G
from . import tables
from .tables import TranslatorError

CLASSES = ['Server', 'DNS', 'AppGroup', 'Application', 'Cell', 'Tenant', 'CellAllocation', 'Allocation', 'Partition']
SUBSCHEMAS = {
    'Application': ['_svc_schema', '_svc_restart_schema', '_endpoint_schema', '_environ_schema', '_affinity_schema',
                    '_vring_schema', '_vring_rule_schema'],
    'Cell': ['_master_host_schema'],
    'CellAllocation': ['_assign_schema'],
    'Partition': ['_limit_schema'],
}
NO_OVERRIDE = {'DNS': ('from_entry', 'to_entry'), 'AppGroup': ('from_entry', 'to_entry'),
               'Allocation': ('from_entry', 'to_entry'), 'Server': ('to_entry',)}
LAMBDA_SCHEMA = ['Server', 'DNS', 'AppGroup']

# --------------------------------------------------------------------------- templates (shape of the code)
_T = {}
_T['_dict_2_entry'] = '''
def _dict_2_entry(obj, schema, option=None, option_idx=None):
    entry = dict()

    for ldap_field, obj_field, field_type in schema:
        if obj_field not in obj:
            continue

        value = obj[obj_field]
        if option is not None:
            assert option_idx is not None
            ldap_field = '{attribute};{option_prefix}-{option_idx:x}'.format(
                attribute=ldap_field,
                option_prefix=option,
                option_idx=option_idx
            )

        if value is None:
            entry[ldap_field] = []
        else:
            if isinstance(field_type, list):
                if value:
                    filtered = [
                        six.text_type(v)
                        for v in value
                        if v is not None
                    ]
                    if len(filtered) < len(value):
                        _LOGGER.critical('Expected %r, got %r',
                                         field_type, value)
                    entry[ldap_field] = filtered
            elif field_type is bool:
                entry[ldap_field] = [_to_bool(value)]
            elif field_type is dict:
                entry[ldap_field] = [
                    json.dumps(
                        collections.OrderedDict(
                            sorted(value.items(), key=lambda t: t[0])
                        )
                    )
                ]
            else:
                entry[ldap_field] = [six.text_type(value)]

    return entry
'''
_T['_empty_list_entry'] = '''
def _empty_list_entry(schema):
    entry = {}
    for ldap_field, _obj_field, _field_type in schema:
        entry[ldap_field] = []

    return entry
'''
_T['_to_obj_list'] = '''
def _to_obj_list(obj_list, key, prefix, schema):
    obj_iter = sorted(
        obj_list,
        key=lambda obj: obj[key]
    )
    if not obj_iter:
        entry = _empty_list_entry(schema)
    else:
        entry = {}
        for idx, obj in enumerate(obj_iter):
            entry.update(
                _dict_2_entry(
                    obj,
                    schema, prefix,
                    idx
                )
            )
    return entry
'''
_T['_group_entry_by_opt'] = '''
def _group_entry_by_opt(entry):
    attrs_with_opt = [
        tuple(k.split(';') + [entry[k]])
        for k in entry.keys()
        if ';' in k
    ]
    attrs_with_opt.sort(key=lambda x: (x[1], x[0]))
    return {
        key: list(group)[0::1]
        for key, group in itertools.groupby(
            attrs_with_opt,
            lambda x: x[1]
        )
    }
'''
_T['_grouped_to_list_of_dict'] = '''
def _grouped_to_list_of_dict(grouped, prefix, schema):
    def _to_dict(values):
        """converts to dict."""
        return _entry_2_dict(
            {
                k: v
                for k, _, v in values
            },
            schema
        )

    filtered = {
        k: v
        for k, v in six.iteritems(grouped)
        if k.startswith(prefix)
    }
    values_list = [
        _to_dict(v) for _k, v in six.iteritems(filtered)
    ]
    return sorted(
        values_list,
        key=lambda x: sorted(list(six.iteritems(x)))
    )
'''
_T['LdapObject.from_entry'] = '''
def from_entry(self, entry, _dn=None):
    obj = _entry_2_dict(entry, self.schema())

    if entry.get('createTimestamp'):
        obj['_create_timestamp'] = entry['createTimestamp'].timestamp()
    if entry.get('modifyTimestamp'):
        obj['_modify_timestamp'] = entry['modifyTimestamp'].timestamp()
    return obj
'''
_T['LdapObject.to_entry'] = '''
def to_entry(self, obj):
    return _dict_2_entry(obj, self.schema())
'''
_T['Server.from_entry'] = '''
def from_entry(self, entry, dn=None):
    obj = super(Server, self).from_entry(entry, dn)

    if 'partition' not in obj:
        obj['partition'] = DEFAULT_PARTITION

    return obj
'''
_NAME_ONLY = '''
    def _name_only(schema_rec):
        return (schema_rec[0], None, None)
'''
_T['Application.schema'] = '''
@staticmethod
def schema():
    def _name_only(schema_rec):
        return (schema_rec[0], None, None)

    return sum(
        [
            [_name_only(e) for e in Application._svc_schema],
            [_name_only(e) for e in Application._svc_restart_schema],
            [_name_only(e) for e in Application._endpoint_schema],
            [_name_only(e) for e in Application._environ_schema],
            [_name_only(e) for e in Application._affinity_schema],
            [_name_only(e) for e in Application._vring_schema],
            [_name_only(e) for e in Application._vring_rule_schema],
        ],
        Application._schema
    )
'''
_T['Application.from_entry'] = '''
def from_entry(self, entry, dn=None):
    obj = super(Application, self).from_entry(entry, dn)
    grouped = _group_entry_by_opt(entry)
    services = _grouped_to_list_of_dict(
        grouped, 'tm-service-', Application._svc_schema)
    service_restarts = _grouped_to_list_of_dict(
        grouped, 'tm-service-', Application._svc_restart_schema)
    endpoints = _grouped_to_list_of_dict(
        grouped, 'tm-endpoint-', Application._endpoint_schema)
    environ = _grouped_to_list_of_dict(
        grouped, 'tm-envvar-', Application._environ_schema)
    affinity_limits = _grouped_to_list_of_dict(
        grouped, 'tm-affinity-', Application._affinity_schema)
    vring_rules = _grouped_to_list_of_dict(
        grouped, 'tm-vring-rule-', Application._vring_rule_schema)

    obj['ephemeral_ports'] = {}
    if 'ephemeral_ports_tcp' in obj:
        obj['ephemeral_ports']['tcp'] = obj['ephemeral_ports_tcp']
        del obj['ephemeral_ports_tcp']
    if 'ephemeral_ports_udp' in obj:
        obj['ephemeral_ports']['udp'] = obj['ephemeral_ports_udp']
        del obj['ephemeral_ports_udp']

    for service in services:
        for service_restart in service_restarts:
            if service_restart['name'] == service['name']:
                service['restart'] = {
                    'limit': service_restart['limit'],
                    'interval': service_restart['interval'],
                }

    affinity_limits = {affinity['level']: affinity['limit']
                       for affinity in affinity_limits}

    vring = _entry_2_dict(entry, Application._vring_schema)
    vring['rules'] = vring_rules

    obj.update({
        'services': services,
        'endpoints': endpoints,
        'environ': environ,
        'affinity_limits': affinity_limits,
    })

    if vring['cells'] or vring['rules']:
        obj['vring'] = vring

    return obj
'''
_T['Application.to_entry'] = '''
def to_entry(self, obj):
    if 'ephemeral_ports' in obj:
        obj['ephemeral_ports_tcp'] = obj['ephemeral_ports'].get('tcp', 0)
        obj['ephemeral_ports_udp'] = obj['ephemeral_ports'].get('udp', 0)

    entry = super(Application, self).to_entry(obj)

    if 'ephemeral_ports_tcp' in obj:
        del obj['ephemeral_ports_tcp']
    if 'ephemeral_ports_udp' in obj:
        del obj['ephemeral_ports_udp']

    services_iter = sorted(
        obj.get('services', []),
        key=lambda service: service['name']
    )
    if not services_iter:
        entry.update(
            _empty_list_entry(
                Application._svc_schema +
                Application._svc_restart_schema
            )
        )
    else:
        for idx, service in enumerate(services_iter):
            service_entry = _dict_2_entry(
                service,
                Application._svc_schema,
                'tm-service',
                idx
            )
            service_restart = self._default_svc_restart.copy()
            service_restart.update(
                service.get('restart', {})
            )
            service_entry.update(
                _dict_2_entry(
                    service_restart,
                    Application._svc_restart_schema,
                    'tm-service',
                    idx
                )
            )
            entry.update(service_entry)

    entry.update(
        _to_obj_list(
            obj.get('endpoints', []),
            'name',
            'tm-endpoint',
            Application._endpoint_schema
        )
    )
    entry.update(
        _to_obj_list(
            obj.get('environ', []),
            'name',
            'tm-envvar',
            Application._environ_schema,
        )
    )
    entry.update(
        _to_obj_list(
            [
                {
                    'level': aff,
                    'limit': obj['affinity_limits'][aff]
                }
                for aff in obj.get('affinity_limits', {})
            ],
            'level',
            'tm-affinity',
            Application._affinity_schema,
        )
    )

    vring = obj.get('vring')
    if vring:
        entry.update(_dict_2_entry(vring, Application._vring_schema))
        entry.update(
            _to_obj_list(
                vring.get('rules', []),
                'pattern',
                'tm-vring-rule',
                Application._vring_rule_schema
            )
        )

    return entry
'''
_T['Cell.schema'] = '''
@staticmethod
def schema():
    def _name_only(schema_rec):
        return (schema_rec[0], None, None)

    return (
        Cell._schema +
        [_name_only(e) for e in Cell._master_host_schema]
    )
'''
_T['Cell.from_entry'] = '''
def from_entry(self, entry, dn=None):
    obj = super(Cell, self).from_entry(entry, dn)
    grouped = _group_entry_by_opt(entry)
    masters = _grouped_to_list_of_dict(
        grouped, 'tm-master-', Cell._master_host_schema)

    obj.update({
        'masters': masters,
    })

    return obj
'''
_T['Cell.to_entry'] = '''
def to_entry(self, obj):
    entry = super(Cell, self).to_entry(obj)

    for master in obj.get('masters', []):
        entry.update(
            _dict_2_entry(
                master,
                Cell._master_host_schema,
                'tm-master',
                master['idx']
            )
        )

    return entry
'''
_T['Tenant.schema'] = '''
@staticmethod
def schema():
    return Tenant._schema
'''
_T['Tenant.from_entry'] = '''
def from_entry(self, entry, dn=None):
    obj = super(Tenant, self).from_entry(entry, dn)
    return obj
'''
_T['Tenant.to_entry'] = '''
def to_entry(self, obj):
    entry = super(Tenant, self).to_entry(obj)
    return entry
'''
_T['CellAllocation.schema'] = '''
@staticmethod
def schema():
    def _name_only(schema_rec):
        return (schema_rec[0], None, None)
    return (
        CellAllocation._schema +
        [_name_only(e) for e in CellAllocation._assign_schema]
    )
'''
_T['CellAllocation.from_entry'] = '''
def from_entry(self, entry, dn=None):
    obj = super(CellAllocation, self).from_entry(entry, dn)

    if dn:
        ident = _dn2cellalloc_id(dn)
        if ident:
            obj['_id'] = ident

    grouped = _group_entry_by_opt(entry)
    assignments = _grouped_to_list_of_dict(
        grouped, 'tm-alloc-assignment-', CellAllocation._assign_schema)

    obj.update({
        'assignments': assignments,
    })

    if 'cpu' not in obj:
        obj['cpu'] = '0%'
    if 'memory' not in obj:
        obj['memory'] = '0G'
    if 'disk' not in obj:
        obj['disk'] = '0G'

    if 'partition' not in obj:
        obj['partition'] = DEFAULT_PARTITION

    if 'max_utilization' in obj:
        obj['max_utilization'] = float(obj['max_utilization'])

    return obj
'''
_T['CellAllocation.to_entry'] = '''
def to_entry(self, obj):
    entry = super(CellAllocation, self).to_entry(obj)
    entry.update(
        _to_obj_list(
            obj.get('assignments', []),
            'pattern',
            'tm-alloc-assignment',
            CellAllocation._assign_schema,
        )
    )

    return entry
'''
_T['Allocation.schema'] = '''
@staticmethod
def schema():
    return Allocation._schema
'''
_T['Partition.schema'] = '''
@staticmethod
def schema():
    def _name_only(schema_rec):
        return (schema_rec[0], None, None)

    return (
        Partition._schema +
        [_name_only(e) for e in Partition._limit_schema]
    )
'''
_T['Partition.from_entry'] = '''
def from_entry(self, entry, dn=None):
    obj = super(Partition, self).from_entry(entry, dn)

    if dn:
        cell, partition = _dn2partition_id(dn)

        obj['partition'] = partition
        obj['cell'] = cell

    if 'cpu' not in obj:
        obj['cpu'] = '0%'
    if 'memory' not in obj:
        obj['memory'] = '0G'
    if 'disk' not in obj:
        obj['disk'] = '0G'

    grouped = _group_entry_by_opt(entry)
    limits = _grouped_to_list_of_dict(
        grouped, 'tm-alloc-limit-', Partition._limit_schema)

    obj.update({
        'limits': limits,
    })

    return obj
'''
_T['Partition.to_entry'] = '''
def to_entry(self, obj):
    entry = super(Partition, self).to_entry(obj)

    entry.update(
        _to_obj_list(
            obj.get('limits', []),
            'trait',
            'tm-alloc-limit',
            Partition._limit_schema,
        )
    )

    return entry
'''

# constants by position (source order, after the leading docstring has been removed) -> role.
#   'doc'  : a text that is not data (nested docstring, log message)
#   other  : exported under that name; the same role at several positions must carry one value
# positions not listed must carry the template's constant.
_ROLES = {
    '_dict_2_entry': {4: 'opt_format', 7: 'doc'},
    '_empty_list_entry': {},
    '_to_obj_list': {},
    '_group_entry_by_opt': {0: 'opt_sep', 1: 'opt_sep'},
    '_grouped_to_list_of_dict': {0: 'doc'},
    'LdapObject.from_entry': {1: 'ts_create', 2: 'doc', 3: 'ts_create', 4: 'ts_modify', 5: 'doc', 6: 'ts_modify'},
    'LdapObject.to_entry': {},
    'Server.from_entry': {1: 'srv_partition', 2: 'srv_partition'},
    'Application.schema': {}, 'Cell.schema': {}, 'Tenant.schema': {}, 'CellAllocation.schema': {},
    'Allocation.schema': {}, 'Partition.schema': {},
    'Application.from_entry': {
        1: 'app_svc_lprefix', 2: 'app_svc_lprefix', 3: 'app_ep_lprefix', 4: 'app_env_lprefix', 5: 'app_aff_lprefix',
        6: 'app_vr_lprefix', 7: 'app_eph', 8: 'app_eph_tcpf', 9: 'app_eph', 10: 'app_eph_tcp', 11: 'app_eph_tcpf',
        12: 'app_eph_tcpf', 13: 'app_eph_udpf', 14: 'app_eph', 15: 'app_eph_udp', 16: 'app_eph_udpf',
        17: 'app_eph_udpf', 18: 'app_svc_key', 19: 'app_svc_key', 20: 'app_svc_restart', 21: 'app_rst_limit',
        22: 'app_rst_interval', 23: 'app_rst_limit', 24: 'app_rst_interval', 25: 'app_aff_level', 26: 'app_aff_limit',
        27: 'app_vr_rules', 28: 'app_svc_field', 29: 'app_ep_field', 30: 'app_env_field', 31: 'app_aff_field',
        32: 'app_vr_cells', 33: 'app_vr_rules', 34: 'app_vr_field'},
    'Application.to_entry': {
        0: 'app_eph', 1: 'app_eph_tcpf', 2: 'app_eph', 3: 'app_eph_tcp', 4: 'app_eph_default', 5: 'app_eph_udpf',
        6: 'app_eph', 7: 'app_eph_udp', 8: 'app_eph_default', 9: 'app_eph_tcpf', 10: 'app_eph_tcpf',
        11: 'app_eph_udpf', 12: 'app_eph_udpf', 13: 'app_svc_field', 14: 'app_svc_key', 15: 'app_svc_prefix',
        16: 'app_svc_restart', 17: 'app_svc_prefix', 18: 'app_ep_field', 19: 'app_ep_key', 20: 'app_ep_prefix',
        21: 'app_env_field', 22: 'app_env_key', 23: 'app_env_prefix', 24: 'app_aff_level', 25: 'app_aff_limit',
        26: 'app_aff_field', 27: 'app_aff_field', 28: 'app_aff_key', 29: 'app_aff_prefix', 30: 'app_vr_field',
        31: 'app_vr_rules', 32: 'app_vr_key', 33: 'app_vr_prefix'},
    'Cell.from_entry': {1: 'cell_lprefix', 2: 'cell_field'},
    'Cell.to_entry': {0: 'cell_field', 1: 'cell_prefix', 2: 'cell_idx'},
    'Tenant.from_entry': {}, 'Tenant.to_entry': {},
    'CellAllocation.from_entry': {
        1: 'doc', 2: 'ca_lprefix', 3: 'ca_field', 4: 'ca_d1_field', 5: 'ca_d1_field', 6: 'ca_d1_value',
        7: 'ca_d2_field', 8: 'ca_d2_field', 9: 'ca_d2_value', 10: 'ca_d3_field', 11: 'ca_d3_field',
        12: 'ca_d3_value', 13: 'ca_partition', 14: 'ca_partition', 15: 'ca_maxutil', 16: 'ca_maxutil',
        17: 'ca_maxutil'},
    'CellAllocation.to_entry': {0: 'ca_field', 1: 'ca_key', 2: 'ca_prefix'},
    'Partition.from_entry': {
        1: 'doc', 2: 'doc', 3: 'pt_d1_field', 4: 'pt_d1_field', 5: 'pt_d1_value', 6: 'pt_d2_field', 7: 'pt_d2_field',
        8: 'pt_d2_value', 9: 'pt_d3_field', 10: 'pt_d3_field', 11: 'pt_d3_value', 12: 'pt_lprefix', 13: 'pt_field'},
    'Partition.to_entry': {0: 'pt_field', 1: 'pt_key', 2: 'pt_prefix'},
}
# the dn-derived keys ('_id' of CellAllocation; 'partition' / 'cell' of Partition) are written only under `if dn:`;
# the model is from_entry(entry) without a dn, so they are 'doc' (not data of the model).

_HOLE = '\x00hole'


class _Holes(ast.NodeTransformer):
    def __init__(self):
        self.values = []

    def visit_Constant(self, node):
        self.values.append(node.value)
        return ast.copy_location(ast.Constant(value=_HOLE), node)


def _strip_doc(fn):
    fn = copy.deepcopy(fn)
    if fn.body and isinstance(fn.body[0], ast.Expr) and isinstance(fn.body[0].value, ast.Constant) \
            and isinstance(fn.body[0].value.value, str):
        fn.body = fn.body[1:]
    if not fn.body:
        raise TranslatorError('%s: empty body' % fn.name)
    return fn


def _shape(fn):
    h = _Holes()
    fn = h.visit(_strip_doc(fn))
    return ast.dump(fn, annotate_fields=True, include_attributes=False), h.values


def _import(modname):
    if tables.PY not in sys.path:
        sys.path.insert(0, tables.PY)
    try:
        return importlib.import_module(modname)
    except Exception as e:   # fail closed
        raise TranslatorError('cannot import %s: %s: %s' % (modname, type(e).__name__, e))


def _find(tree, qual):
    """the one definition of a module-level function `f` or of a method `Class.f`"""
    if '.' in qual:
        cname, fname = qual.split('.')
        cls = [n for n in tree.body if isinstance(n, ast.ClassDef) and n.name == cname]
        if len(cls) != 1:
            raise TranslatorError('admin/_ldap.py: expected exactly one class %s, found %d' % (cname, len(cls)))
        body = cls[0].body
    else:
        fname, body = qual, tree.body
    defs = [n for n in body if isinstance(n, (ast.FunctionDef, ast.AsyncFunctionDef, ast.ClassDef)) and n.name == fname]
    if len(defs) != 1 or not isinstance(defs[0], ast.FunctionDef):
        raise TranslatorError('admin/_ldap.py: expected exactly one "def %s", found %d' % (qual, len(defs)))
    return defs[0]


def _rebinding_targets(tree):
    """names / attributes assigned outside function bodies at module level: (target text, line)"""
    out = []
    for st in tree.body:
        if isinstance(st, (ast.FunctionDef, ast.AsyncFunctionDef, ast.ClassDef)):
            continue
        for n in ast.walk(st):
            ts = n.targets if isinstance(n, ast.Assign) else [n.target] if isinstance(n, (ast.AugAssign, ast.AnnAssign)) else []
            for t in ts:
                out.append((ast.unparse(t), n.lineno, n))
    return out


def _match(tree, qual):
    fn = _find(tree, qual)
    want_shape, want_vals = _shape(ast.parse(_T[qual]).body[0])
    got_shape, got_vals = _shape(fn)
    if got_shape != want_shape:
        i = next((k for k, (a, b) in enumerate(zip(got_shape, want_shape)) if a != b), min(len(got_shape), len(want_shape)))
        raise TranslatorError('admin/_ldap.py %s: the code no longer has the modelled shape (near %r, expected %r)'
                              % (qual, got_shape[max(0, i - 50):i + 70], want_shape[max(0, i - 50):i + 70]))
    if len(got_vals) != len(want_vals):
        raise TranslatorError('admin/_ldap.py %s: constant count changed' % qual)
    roles = _ROLES[qual]
    out = {}
    for i, (g, w) in enumerate(zip(got_vals, want_vals)):
        role = roles.get(i)
        if role == 'doc':
            continue
        if role is None:
            if type(g) is not type(w) or g != w:
                raise TranslatorError('admin/_ldap.py %s: constant #%d is %r, the model has %r' % (qual, i, g, w))
            continue
        if type(g) is not type(w):
            raise TranslatorError('admin/_ldap.py %s: constant %s is %r (type changed)' % (qual, role, g))
        if role in out and out[role] != g:
            raise TranslatorError('admin/_ldap.py %s: %s is spelled %r and %r' % (qual, role, out[role], g))
        out[role] = g
    return out


def _type_code(t, what):
    if t is None or t is str:
        return 0
    if t is int:
        return 1
    if t is bool:
        return 2
    if isinstance(t, list) and len(t) == 1 and t[0] is str:
        return 3
    if isinstance(t, list) and len(t) == 1 and t[0] is int:
        return 4
    if t is dict:
        return 5
    raise TranslatorError('%s: unsupported field type %r' % (what, t))


def _rows(tab, what):
    if not isinstance(tab, list):
        raise TranslatorError('%s is not a list' % what)
    rows = []
    for row in tab:
        if not (isinstance(row, tuple) and len(row) == 3 and isinstance(row[0], str)
                and (row[1] is None or isinstance(row[1], str))):
            raise TranslatorError('%s: unexpected row %r' % (what, row))
        if row[1] is None and row[2] is not None:
            raise TranslatorError('%s: name-only row %r carries a type' % (what, row))
        rows.append((row[0], row[1], _type_code(row[2], what)))
    return rows


def _ascii(s, what):
    if not (isinstance(s, str) and all(ord(c) < 128 for c in s)):
        raise TranslatorError('%s: expected an ASCII str, got %r' % (what, s))
    return s


def facts():
    """{'schemas': [(coq name, what, rows)], 'roles': {role: value}, 'default_partition', 'default_restart'}"""
    src = tables._src('treadmill/admin/_ldap.py')
    tree = ast.parse(src)
    roles = {}
    for qual in _T:
        for role, v in _match(tree, qual).items():
            if role in roles and roles[role] != v:
                raise TranslatorError('admin/_ldap.py: %s is %r in %s and %r elsewhere' % (role, v, qual, roles[role]))
            roles[role] = v
    # classes that must inherit from_entry / to_entry from LdapObject
    for cname in CLASSES:
        cls = [n for n in tree.body if isinstance(n, ast.ClassDef) and n.name == cname]
        if len(cls) != 1:
            raise TranslatorError('admin/_ldap.py: expected exactly one class %s' % cname)
        bases = [ast.unparse(b) for b in cls[0].bases]
        if bases != ['LdapObject']:
            raise TranslatorError('admin/_ldap.py: class %s has bases %r, expected LdapObject' % (cname, bases))
        have = {n.name for n in cls[0].body if isinstance(n, (ast.FunctionDef, ast.AsyncFunctionDef))}
        for meth in NO_OVERRIDE.get(cname, ()):
            if meth in have:
                raise TranslatorError('admin/_ldap.py: %s now defines %s (the model uses LdapObject.%s)'
                                      % (cname, meth, meth))
        for meth in ('from_entry', 'to_entry', 'schema'):
            if meth in have and '%s.%s' % (cname, meth) not in _T:
                raise TranslatorError('admin/_ldap.py: %s.%s is not modelled' % (cname, meth))
    lo = [n for n in tree.body if isinstance(n, ast.ClassDef) and n.name == 'LdapObject']
    if len(lo) != 1 or lo[0].bases:
        raise TranslatorError('admin/_ldap.py: expected exactly one class LdapObject without bases')
    # module-level rebinding of the modelled methods / helpers
    watched = set(q for q in _T if '.' not in q) | {'DEFAULT_PARTITION'}
    n_default = 0
    for text, line, node in _rebinding_targets(tree):
        base = text.split('.')
        if text == 'DEFAULT_PARTITION':
            n_default += 1
            continue
        if text in watched:
            raise TranslatorError('admin/_ldap.py: %s is rebound at line %d' % (text, line))
        if len(base) == 2 and base[0] in CLASSES + ['LdapObject'] and base[1] in ('from_entry', 'to_entry'):
            raise TranslatorError('admin/_ldap.py: %s is rebound at line %d' % (text, line))
        if len(base) == 2 and base[0] in CLASSES and base[1] == 'schema':
            want = 'staticmethod(lambda: %s._schema)' % base[0]
            got = ast.unparse(node.value).replace('(lambda : ', '(lambda: ')
            if base[0] not in LAMBDA_SCHEMA or got != want:
                raise TranslatorError('admin/_ldap.py: %s.schema = %s at line %d (expected %s for %s only)'
                                      % (base[0], got, line, want, LAMBDA_SCHEMA))
        if len(base) == 2 and base[0] in CLASSES and base[1].endswith('_schema'):
            raise TranslatorError('admin/_ldap.py: %s is rebound at line %d' % (text, line))
    if n_default != 1:
        raise TranslatorError('admin/_ldap.py: DEFAULT_PARTITION is assigned %d times' % n_default)
    m = _import('treadmill.admin._ldap')
    schemas = []
    for cname in CLASSES:
        cls = getattr(m, cname, None)
        if cls is None:
            raise TranslatorError('admin._ldap.%s not found' % cname)
        for attr in ['_schema'] + SUBSCHEMAS.get(cname, []):
            what = '%s.%s' % (cname, attr)
            schemas.append(('lcls_sch_%s%s' % (cname, attr), what, _rows(getattr(cls, attr, None), what)))
        what = '%s.schema()' % cname
        try:
            comb = cls.schema()
        except Exception as e:   # fail closed
            raise TranslatorError('%s raises %s' % (what, type(e).__name__))
        schemas.append(('lcls_sch_%s_combined' % cname, what, _rows(comb, what)))
    dp = _ascii(getattr(m, 'DEFAULT_PARTITION', None), 'DEFAULT_PARTITION')
    dr = getattr(m.Application, '_default_svc_restart', None)
    if not (isinstance(dr, dict) and dr and all(isinstance(k, str) and type(v) is int for k, v in dr.items())):
        raise TranslatorError('Application._default_svc_restart is %r, expected a dict str -> int' % (dr,))
    for role, v in roles.items():
        if role == 'app_eph_default':
            if type(v) is not int:
                raise TranslatorError('Application.to_entry: ephemeral port default is %r' % (v,))
        else:
            _ascii(v, role)
    return {'schemas': schemas, 'roles': roles, 'default_partition': dp, 'default_restart': list(dr.items())}


def _codes(s):
    return G.zlist([ord(c) for c in s])


def _emit():
    f = facts()
    out = ['(* C15 LDAP per-class wrappers (admin/_ldap.py): schemas of the nine LdapObject classes (module values),\n'
           '   constants of the list codec and of every from_entry / to_entry override (AST templates, fail closed);\n'
           '   rows (ldap attribute, (object field | None, type code)); type codes 0 str 1 int 2 bool 3 [str] 4 [int] 5 dict *)\n']
    for name, what, rows in f['schemas']:
        rs = G.lst(['(%s, (%s, %s))' % (_codes(a), G.opt(fl, _codes), G.z(c)) for a, fl, c in rows])
        out.append('(* %s *)\nDefinition %s : list (list Z * (option (list Z) * Z)) :=\n  %s.\n' % (what, name, rs))
    for role in sorted(f['roles']):
        v = f['roles'][role]
        if isinstance(v, int):
            out.append('Definition lcls_%s : Z := %s.\n' % (role, G.z(v)))
        else:
            out.append('Definition lcls_%s : list Z := %s.   (* %s *)\n' % (role, _codes(v), v.replace('*)', '* )')))
    out.append('Definition lcls_default_partition : list Z := %s.   (* %s *)\n'
               % (_codes(f['default_partition']), f['default_partition']))
    out.append('Definition lcls_default_restart : list (list Z * Z) := %s.\n'
               % G.lst(['(%s, %s)' % (_codes(k), G.z(v)) for k, v in f['default_restart']]))
    return ''.join(out)


tables.register('c15_ldapcls', _emit)

if __name__ == '__main__':   # debugging aid: positions of the constants of every template
    for q in _T:
        print(q, list(enumerate(_shape(ast.parse(_T[q]).body[0])[1])))
