"""The scheduler-level oracles (harness/ecell_oracles.py: the statements of C02..C07) on the cell of the REAL Master.

E-cell drives `treadmill.scheduler` directly, so everything the Loader and the Master's event handlers do before the
scheduler sees an instance or a server (parsing manifests and server records, assignments to allocations, reloads,
restores, state adjustments) is outside it. `MasterProbe` wraps `Cell.schedule` (class level, so every Master of a
history - also the ones started after a restart - is covered) and records, for every cycle the real Master runs on an
E-master history, the same observation the E-cell driver records: snapshot before, snapshot after, the queues handed to
the placement loop, the returned tuples, the successful puts with their call site and the instances the feasibility
tracker skipped. The oracles then judge those cycles exactly as they judge E-cell's. Oracle-only: there is no model
run here; the stage exists for the failing-input search on the glue around the modelled core.
"""
import sys

from . import ecell


class _Ids(dict):
    """name -> small integer, assigned on first sight (stable for the whole history)"""

    def __init__(self, base):
        super().__init__()
        self._next = base

    def __missing__(self, k):
        v = self._next
        self._next += 1
        self[k] = v
        return v


class _Clock:
    def __init__(self, s):
        self._s = s

    @property
    def now(self):
        return self._s.time.time()


class MasterProbe(ecell.Impl):
    def __init__(self):       # noqa - the E-cell driver's constructor builds a cell of its own
        s = ecell.sched()
        self.s = s
        self.clock = _Clock(s)
        self.cell = None
        self.buckets = {}
        self.servers = {}
        self.app_ids = _Ids(1)
        self.srv_ids = _Ids(1000)
        self.bkt_ids = _Ids(2000)
        self.aff_ids = _Ids(3000)
        self.label_ids = _Ids(4000)
        self.group_ids = _Ids(5000)
        self.part_ids = _Ids(6000)
        self.choices = []
        self.queues = []
        self.put_log = []
        self.tracker_skipped = []
        self.trace = []
        self.errors = []

    # the maps the snapshot looks names up in (some with .get, which does not assign)
    def sync(self, cell):
        self.cell = cell
        self.buckets = {}

        def walk(node):
            if isinstance(node, self.s.Bucket):
                self.buckets[self.bkt_ids[node.name]] = node
                for ch in node.children:
                    if ch is not None:
                        walk(ch)
            else:
                self.srv_ids[node.name]     # noqa - assigns
        walk(cell)
        for name, srv in cell.members().items():
            self.srv_ids[name]              # noqa
            for lbl in srv.labels:
                self.label_ids[lbl]         # noqa
        for app in cell.apps.values():
            self.app_ids[app.name]          # noqa
            self.aff_ids[app.affinity.name]  # noqa
            if app.identity_group:
                self.group_ids[app.identity_group]   # noqa
            if app.server:
                self.srv_ids[app.server]    # noqa
        for g in cell.identity_groups:
            self.group_ids[g]               # noqa

        def walk_alloc(alloc):
            for n, sub in alloc.sub_allocations.items():
                self.part_ids[n]            # noqa
                walk_alloc(sub)
        for label, part in cell.partitions.items():
            self.label_ids[label]           # noqa
            walk_alloc(part.allocation)

    def snapshot(self):
        snap = super().snapshot()
        allocs = {}

        def walk(label, alloc, path):
            allocs[(label, tuple(path))] = {'reserved': [int(x) for x in alloc.reserved], 'rank': int(alloc.rank),
                                            'adj': int(alloc.rank_adjustment), 'has_traits': bool(int(alloc.traits)),
                                            'trait_bits': bin(int(alloc.traits)).count('1')}
            for n, sub in alloc.sub_allocations.items():
                walk(label, sub, path + [self.part_ids[n]])
        for label, part in self.cell.partitions.items():
            walk(self.label_ids[label], part.allocation, [])
        snap['allocs'] = allocs
        for name, srv in self.cell.members().items():
            snap['servers'][self.srv_ids[name]]['up_since'] = srv.up_since
        for name, app in self.cell.apps.items():
            # Application.traits adds the allocation's traits to the instance's own
            snap['apps'][self.app_ids[name]]['own_traits'] = int(app._traits)
        return snap

    def __enter__(self):
        s = self.s
        probe = self
        self._orig = {
            'acquire': s.Application.acquire_identity, 'record': s.Cell._record_rank_and_util,
            'sched_alloc': s.Cell.schedule_alloc, 'put': s.Server.put,
            'feasible': s.PlacementFeasibilityTracker.feasible, 'schedule': s.Cell.schedule,
        }
        o = self._orig

        def record(cell, queue):
            queue = list(queue)
            if probe.queues:
                probe.queues[-1][1].extend((probe.app_ids[item[-1].name], int(item[0]), int(item[3])) for item in queue)
            return o['record'](cell, queue)
        s.Cell._record_rank_and_util = record

        def schedule_alloc(cell, allocation, servers):
            probe.queues.append((probe.label_ids[allocation.label], []))
            return o['sched_alloc'](cell, allocation, servers)
        s.Cell.schedule_alloc = schedule_alloc

        def put(server, app):
            rc = o['put'](server, app)
            if rc:
                f = sys._getframe(1)
                while f is not None and f.f_code.co_name in ('wrapped', 'put', 'wrapper'):   # other harness wrappers
                    f = f.f_back
                site = f.f_code.co_name
                if site == 'restore':
                    f = f.f_back
                    while f is not None and f.f_code.co_name in ('wrapped', 'restore', 'wrapper'):
                        f = f.f_back
                    site = 'restore<-' + f.f_code.co_name
                probe.put_log.append((probe.app_ids[app.name], probe.srv_ids[server.name], site))
                if site not in ('put', '_find_placements', 'restore<-_find_placements'):
                    # a put outside a cycle: the loader's restore
                    probe.trace.append({'op': 'RestoreAt', 'args': ['RestoreAt', probe.srv_ids[server.name],
                                                                   probe.app_ids[app.name]], 'now': probe.clock.now})
            return rc
        s.Server.put = put

        def feasible(tracker, app):
            rc = o['feasible'](tracker, app)
            if not rc:
                probe.tracker_skipped.append(probe.app_ids[app.name])
            return rc
        s.PlacementFeasibilityTracker.feasible = feasible

        def schedule(cell):
            try:
                probe.sync(cell)
                before = probe.snapshot()
            except Exception as exc:   # noqa
                probe.errors.append('snapshot before: %s: %s' % (type(exc).__name__, str(exc)[:160]))
                return o['schedule'](cell)
            probe.queues, probe.put_log, probe.tracker_skipped = [], [], []
            placement = o['schedule'](cell)
            try:
                probe.sync(cell)
                probe.trace.append({
                    'op': 'Schedule', 'before': before, 'after': probe.snapshot(),
                    'queues': [[l, [list(e) for e in q]] for l, q in probe.queues],
                    'placement': [[probe.app_ids[n], probe.srv_ids.get(sb) if sb else None, eb,
                                   probe.srv_ids.get(sa) if sa else None, ea] for (n, sb, eb, sa, ea) in placement],
                    'puts': [list(p) for p in probe.put_log], 'tracker_skipped': list(probe.tracker_skipped)})
            except Exception as exc:   # noqa
                probe.errors.append('snapshot after: %s: %s' % (type(exc).__name__, str(exc)[:160]))
            return placement
        s.Cell.schedule = schedule
        return self

    def __exit__(self, *a):
        s = self.s
        o = self._orig
        s.Application.acquire_identity = o['acquire']
        s.Cell._record_rank_and_util = o['record']
        s.Cell.schedule_alloc = o['sched_alloc']
        s.Server.put = o['put']
        s.PlacementFeasibilityTracker.feasible = o['feasible']
        s.Cell.schedule = o['schedule']


def _secs(v):
    """'600s' / '5m' / '1h' / number -> seconds (the spellings the generator writes)"""
    if v is None:
        return None
    if isinstance(v, (int, float)):
        return int(v)
    v = str(v).strip()
    mult = {'s': 1, 'm': 60, 'h': 3600, 'd': 86400}
    if v and v[-1] in mult:
        return int(v[:-1]) * mult[v[-1]]
    return int(v)


def _rec(w, path):
    ent = w.b.d.get(path)
    return ent[0] if isinstance(ent, tuple) else ent


def declared(w, probe):
    """What the store DECLARES for the instances and servers of the master's cell, parsed independently of the Loader:
    the statements speak of the limits / demand / partition / lease ... an instance declares, not of whatever the
    scheduler object happens to hold."""
    out = {'apps': {}, 'servers': {}}
    cell = w.m.cell
    for name in cell.apps:
        man = _rec(w, '/scheduled/' + name)
        if not isinstance(man, dict):
            continue
        d = {'demand': [int(str(man.get('memory', '0M')).rstrip('M')), int(str(man.get('cpu', '0%')).rstrip('%')),
                        int(str(man.get('disk', '0M')).rstrip('M'))],
             'limits': {ecell.LEVELS[k]: v for k, v in (man.get('affinity_limits') or {}).items()},
             'aff': man.get('affinity'),
             'group': man.get('identity_group'),
             'once': bool(man.get('schedule_once')),
             'lease': _secs(man.get('lease', '0s')) or 0,
             'drt': _secs(man.get('data_retention_timeout')),
             'has_traits': bool(man.get('traits'))}
        if 'priority' in man and int(man['priority']) != -1:
            d['prio'] = int(man['priority'])
        out['apps'][probe.app_ids[name]] = d
    # allocations and the assignment of instances to them (Loader.load_allocations / find_assignment, re-done here)
    import fnmatch
    import re
    data = _rec(w, '/allocations') or []
    out['allocs'] = {}
    assignments = []
    known_traits = set(_rec(w, '/traits') or [])
    for n2 in cell.members():
        r2 = _rec(w, '/servers/' + n2)
        if isinstance(r2, dict):
            known_traits |= set(r2.get('traits') or [])
    for obj in data:
        label = probe.label_ids[obj.get('partition')]
        path = tuple(probe.part_ids[p] for p in re.split('[/:]', obj['name']))
        out['allocs'][(label, path)] = {
            'reserved': [int(str(obj.get('memory', '0M')).rstrip('M')), int(str(obj.get('cpu', '0%')).rstrip('%')),
                         int(str(obj.get('disk', '0M')).rstrip('M'))],
            'rank': int(obj['rank']),
            'trait_bits': len({t for t in (obj.get('traits') or []) if t in known_traits})}
        if obj.get('rank_adjustment') is not None:
            out['allocs'][(label, path)]['adj'] = int(obj['rank_adjustment'])
        for asg in obj.get('assignments', []):
            assignments.append((asg['pattern'] + '#' + '[0-9]' * 10, int(asg['priority']), (label, path)))
    for name in cell.apps:
        aid = probe.app_ids[name]
        if aid not in out['apps'] or not data:
            # an EMPTY /allocations record is ignored by Loader.load_allocations (early return: the assignments of the
            # previous record stay in force) - nothing is declared then that the assignment could be compared with
            continue
        where, prio = None, None
        for pat, pr, pos in assignments:
            if fnmatch.fnmatchcase(name, pat):
                where, prio = pos, pr
                break
        if where is None:
            where = (probe.label_ids['_default'], (probe.part_ids['_default'], probe.part_ids[name.split('.', 1)[0]]))
            prio = 1
        out['apps'][aid]['alloc'] = where
        out['apps'][aid].setdefault('prio', prio)
    out['groups'] = {}
    for g in cell.identity_groups:
        rec = _rec(w, '/identity-groups/' + g)
        if isinstance(rec, dict) and 'count' in rec:
            out['groups'][probe.group_ids[g]] = int(rec['count'])
    blacklist = list(_rec(w, '/blackedout.apps') or [])
    for name in cell.apps:
        aid = probe.app_ids[name]
        if aid in out['apps']:
            out['apps'][aid]['blacklisted'] = any(fnmatch.fnmatchcase(name.split('#')[0], pat) for pat in blacklist)
    for name in cell.members():
        rec = _rec(w, '/servers/' + name)
        if not (isinstance(rec, dict) and 'memory' in rec):
            continue
        out['servers'][probe.srv_ids[name]] = {
            'cap': [int(str(rec['memory']).rstrip('M')), int(str(rec['cpu']).rstrip('%')), int(str(rec['disk']).rstrip('M'))],
            'label': probe.label_ids[rec.get('partition') or '_default'],
            'has_traits': bool(rec.get('traits')),
            'parent': probe.bkt_ids[rec['parent']] if rec.get('parent') else None}
        if rec.get('up_since') is not None:
            out['servers'][probe.srv_ids[name]]['up_since'] = rec['up_since']
    return out


# which property's statement speaks of which declared attribute
FIELD_OWNER = {'demand': ('C01',), 'cap': ('C01',), 'limits': ('C04',), 'aff': ('C04',), 'group': ('C05',),
               'prio': ('C06',), 'alloc': ('C03', 'C06'), 'alloc_reserved': ('C06',), 'alloc_rank': ('C06',),
               'alloc_adj': ('C06',), 'alloc_has_traits': ('C03', 'C07'), 'alloc_trait_bits': ('C03', 'C07'),
               'up_since': ('C02', 'C03'), 'group_count': ('C05',), 'blacklisted': ('C05', 'C08'), 'parent': ('C04',),
               'label': ('C03',), 'lease': ('C03',), 'has_traits': ('C03',), 'once': ('C07',), 'drt': ('C08',)}


def apply_declared(trace, probe):
    """Compare the snapshots with the declarations taken at the same cycle, note the differences per field
    (rec['decl_mismatch']) and let the declared values replace the object's in the snapshots the oracles read."""
    aff_name = {v: k for k, v in probe.aff_ids.items()}
    grp_name = {v: k for k, v in probe.group_ids.items()}
    for rec in trace:
        dec = rec.get('declared')
        if rec.get('op') != 'Schedule' or not dec:
            continue
        mism = []
        for snap in (rec['after'],):
            for a, d in dec['apps'].items():
                ap = snap['apps'].get(a)
                if ap is None:
                    continue
                eff = {'alloc': (ap['label'], tuple(ap['alloc_path'] or ())),
                       'demand': ap['demand'], 'limits': ap['limits'], 'aff': aff_name.get(ap['aff']),
                       'group': grp_name.get(ap['group']) if ap['group'] is not None else None, 'once': ap['once'],
                       'lease': ap['lease'], 'drt': ap['drt'], 'has_traits': bool(ap.get('own_traits', ap['traits'])),
                       'blacklisted': ap['blacklisted']}
                eff['prio'] = ap['prio']
                for f, v in d.items():
                    if eff.get(f) != v:
                        mism.append((f, 'instance %d: %s is %r in the scheduler, the manifest declares %r' % (a, f, eff.get(f), v)))
            for sid, d in dec['servers'].items():
                sv = snap['servers'].get(sid)
                if sv is None:
                    continue
                eff = {'cap': sv['cap'], 'label': sv['label'], 'has_traits': bool(sv['traits']), 'up_since': sv.get('up_since'),
                       'parent': sv['chain'][0] if sv.get('chain') else None}
                for f in ('cap', 'label', 'has_traits', 'up_since', 'parent'):
                    if f in d and eff[f] != d[f]:
                        mism.append((f, 'server %d: %s is %r in the scheduler, its record declares %r' % (sid, f, eff[f], d[f])))
            for g, cnt in dec.get('groups', {}).items():
                gr = snap['groups'].get(g)
                if gr is not None and gr['count'] != cnt:
                    mism.append(('group_count', 'identity group %d: count is %r in the scheduler, its record declares %r'
                                 % (g, gr['count'], cnt)))
            for pos, d in dec.get('allocs', {}).items():
                al = snap.get('allocs', {}).get(pos)
                if al is None:
                    mism.append(('alloc', 'allocation %r is declared but the partition tree has no such node' % (pos,)))
                    continue
                for f, v in d.items():
                    if al.get(f) != v:
                        mism.append(('alloc_' + f, 'allocation %r: %s is %r in the scheduler, its record declares %r'
                                     % (pos, f, al.get(f), v)))
        rec['decl_mismatch'] = mism
        for snap in (rec['before'], rec['after']):
            for a, d in dec['apps'].items():
                ap = snap['apps'].get(a)
                if ap is not None:
                    ap['demand'], ap['limits'], ap['once'], ap['lease'], ap['drt'] = d['demand'], d['limits'], d['once'], d['lease'], d['drt']
            for sid, d in dec['servers'].items():
                sv = snap['servers'].get(sid)
                if sv is not None:
                    sv['cap'], sv['label'] = d['cap'], d['label']
    return trace


def run_case(case, with_declared=True):
    """Play an E-master history with the probe attached. Returns (trace, errors, stats)."""
    from . import emaster
    with MasterProbe() as probe:
        def hook(w, where):
            if with_declared and where == 'after-cycle' and probe.trace and probe.trace[-1].get('op') == 'Schedule' \
                    and 'declared' not in probe.trace[-1]:
                try:
                    probe.trace[-1]['declared'] = declared(w, probe)
                except Exception as exc:   # noqa
                    probe.errors.append('declared: %s: %s' % (type(exc).__name__, str(exc)[:160]))
        res = emaster.run_history(case, crash_points=False, want=(), cell_hook=hook)
        if with_declared:
            apply_declared(probe.trace, probe)
    return probe.trace, probe.errors, (res.get('stats', {}) if isinstance(res, dict) else {})
