"""Shared machinery of the checks: table regeneration, Coq build, property-file
compilation with Print Assumptions capture, cases.v evaluation, decision protocol,
evidence and replay files."""
import contextlib
import fcntl
import hashlib
import json
import os
import re
import shutil
import subprocess
import sys
import tempfile
import time

VERIF = os.path.dirname(os.path.dirname(os.path.abspath(__file__)))
COQ = os.environ.get('VERIF_COQ', os.path.join(VERIF, 'coq'))
THEORIES = os.path.join(COQ, 'theories')
REPO = os.environ.get('VERIF_REPO', '/repo')
PYLIB = os.path.join(REPO, 'lib', 'python')
NPROC = int(os.environ.get('VERIF_JOBS', '16'))

# axioms that may appear under Print Assumptions (none expected; stdlib ones would be named here)
ALLOWED_AXIOMS = set()

FORBIDDEN = re.compile(r'\b(Admitted|admit|Axiom|Parameter|Conjecture|Unset Guard|bypass_check|'
                       r'Admit Obligations|type-in-type|impredicative-set)\b')

_scratch = None


def scratch():
    global _scratch
    if _scratch is None:
        base = os.environ.get('VERIF_SCRATCH', '/var/tmp')
        os.makedirs(base, exist_ok=True)
        _scratch = tempfile.mkdtemp(prefix='tmverif-', dir=base)
        import atexit
        atexit.register(lambda: shutil.rmtree(_scratch, ignore_errors=True))
    return _scratch


def open_fds():
    return set(int(n) for n in os.listdir('/proc/self/fd'))


def close_fds_since(before, collect=True):
    """close descriptors the implementation opened and never closes (treadmill's Inotify / eventfd objects have no
    finaliser): without this a long series of histories runs into the per-user inotify instance limit. `collect`: run
    the garbage collector first, so that objects which DO close their descriptor when finalised (sockets) have done so
    before the number can be re-used (callers with a large heap wrap the series in gc.freeze())."""
    if collect:
        import gc
        gc.collect()
    for fd in open_fds() - before:
        try:
            os.close(fd)
        except OSError:
            pass


_lock_depth = 0


@contextlib.contextmanager
def build_lock():
    """Re-entrant (per process) exclusive lock serialising table regeneration and Coq builds."""
    global _lock_depth
    if _lock_depth > 0:
        _lock_depth += 1
        try:
            yield
        finally:
            _lock_depth -= 1
        return
    path = os.path.join(COQ, '.build.lock')
    with open(path, 'w') as f:
        fcntl.flock(f, fcntl.LOCK_EX)
        _lock_depth = 1
        try:
            yield
        finally:
            _lock_depth = 0
            fcntl.flock(f, fcntl.LOCK_UN)


def sh(cmd, timeout, cwd=None, env=None):
    try:
        p = subprocess.run(cmd, cwd=cwd, env=env, stdout=subprocess.PIPE, stderr=subprocess.STDOUT,
                           timeout=timeout, text=True, errors='replace')
        return p.returncode, p.stdout
    except subprocess.TimeoutExpired as e:
        out = e.stdout or ''
        if isinstance(out, bytes):
            out = out.decode('utf-8', 'replace')
        return 124, out + '\n[timeout after %ss]' % timeout


# ---------------------------------------------------------------------------
# tables + build
# ---------------------------------------------------------------------------
def regen_tables():
    """Regenerate Gen/Tables.v from /repo; returns list of (section, error)."""
    from . import tables
    text, errors = tables.generate()
    path = os.path.join(THEORIES, 'Gen', 'Tables.v')
    os.makedirs(os.path.dirname(path), exist_ok=True)     # a fresh clone has no Gen/ (its only file is generated)
    with build_lock():
        old = None
        if os.path.exists(path):
            with open(path) as f:
                old = f.read()
        if old != text:
            tmp = path + '.tmp%d' % os.getpid()
            with open(tmp, 'w') as f:
                f.write(text)
            os.replace(tmp, path)
    return errors


def _vfiles():
    out = []
    for root, _dirs, files in os.walk(THEORIES):
        for fn in files:
            if fn.endswith('.v'):
                out.append(os.path.relpath(os.path.join(root, fn), COQ))
    return sorted(out)


def _ensure_makefile():
    files = _vfiles()
    stamp = os.path.join(COQ, '.vfiles')
    cur = '\n'.join(files)
    old = None
    if os.path.exists(stamp) and os.path.exists(os.path.join(COQ, 'Makefile')):
        with open(stamp) as f:
            old = f.read()
    if old != cur:
        rc, out = sh(['coq_makefile', '-f', '_CoqProject'] + files + ['-o', 'Makefile'], 120, cwd=COQ)
        if rc != 0:
            raise RuntimeError('coq_makefile failed: ' + out)
        with open(stamp, 'w') as f:
            f.write(cur)


def make(targets, timeout=1500, force=()):
    """make the given .vo targets (paths relative to theories/, without extension)."""
    with build_lock():
        _ensure_makefile()
        for t in force:
            for ext in ('.vo', '.vok', '.vos', '.glob'):
                with contextlib.suppress(FileNotFoundError):
                    os.remove(os.path.join(THEORIES, t + ext))
        tg = ['theories/%s.vo' % t for t in targets]
        rc, out = sh(['make', '-j%d' % NPROC, '-k'] + tg, timeout, cwd=COQ)
    return rc == 0, out


def make_all(timeout=3000):
    with build_lock():
        _ensure_makefile()
        rc, out = sh(['make', '-j%d' % NPROC, '-k'], timeout, cwd=COQ)
    return rc == 0, out


def grep_forbidden():
    bad = []
    for rel in _vfiles():
        with open(os.path.join(COQ, rel)) as f:
            for i, line in enumerate(f, 1):
                code = re.sub(r'\(\*.*?\*\)', '', line)
                if FORBIDDEN.search(code):
                    bad.append('%s:%d: %s' % (rel, i, line.strip()))
    return bad


_THM = re.compile(r'^\s*(Theorem|Lemma|Example|Corollary|Fact|Remark)\s+([A-Za-z0-9_\']+)', re.M)


def compile_props(pid, timeout=1500):
    """(Re)compile Props/<pid>.v; returns dict with ok, log, theorems, assumptions, failed_at."""
    rel = 'Props/%s' % pid
    src = os.path.join(THEORIES, rel + '.v')
    with open(src) as f:
        text = f.read()
    names = [m.group(2) for m in _THM.finditer(text)]
    ok, log = make([rel], timeout=timeout, force=[rel])
    res = {'ok': ok, 'log': log[-6000:], 'theorems': names, 'assumptions': {}, 'failed': None,
           'cmd': 'make -C coq theories/%s.vo  (coqc 8.16.1, full .vo build)' % rel}
    # Print Assumptions output: "Closed under the global context" or "Axioms:\n name : type ..."
    closed = len(re.findall(r'Closed under the global context', log))
    axioms = re.findall(r'^Axioms:\n((?:.+\n)+?)(?=\S|\Z)', log, re.M)
    res['closed_count'] = closed
    res['axioms'] = sorted(set(a.split(':')[0].strip() for blk in axioms for a in blk.splitlines()
                               if a and not a.startswith(' ' * 4) and ':' in a))
    if not ok:
        m = re.search(r'File "\./theories/([^"]+)", line (\d+)', log)
        if m:
            failing_file, line = m.group(1), int(m.group(2))
            res['failed'] = '%s:%d' % (failing_file, line)
            if failing_file == rel + '.v':
                # theorem enclosing that line
                last = None
                for mm in _THM.finditer(text):
                    if text.count('\n', 0, mm.start()) + 1 <= line:
                        last = mm.group(2)
                res['failed'] = '%s (Props/%s.v:%d)' % (last, pid, line)
        else:
            res['failed'] = 'build failure (see log)'
    n_pa = len(re.findall(r'Print Assumptions', text))
    res['print_assumptions'] = n_pa
    res['axioms_ok'] = set(res['axioms']) <= ALLOWED_AXIOMS and (not ok or closed + len(axioms) >= n_pa)
    return res


# ---------------------------------------------------------------------------
# evaluating the model inside Coq (cases.v + vm_compute)
# ---------------------------------------------------------------------------
def coq_eval(preamble, body, name='cases', timeout=600):
    """Compile a scratch .v file made of preamble+body; return (rc, output)."""
    d = scratch()
    path = os.path.join(d, name + '.v')
    with open(path, 'w') as f:
        f.write(preamble + '\n' + body + '\n')
    cmd = ['bash', '-c', 'ulimit -s unlimited 2>/dev/null; exec coqc -q -w none -Q %s TM %s' % (THEORIES, path)]
    rc, out = sh(cmd, timeout, cwd=d)
    return rc, out


def run_mismatches(preamble, run_fn, cases, in_type, shard=300, timeout=900, tag='cases'):
    """cases: list of (input_term, expected_zlist_term). Returns (mismatch index list, error or None).

    Evaluates `mismatches run_fn [cases]` by vm_compute in shards (parallel coqc)."""
    d = scratch()
    shards = [cases[i:i + shard] for i in range(0, len(cases), shard)]
    procs = []
    for si, sh_cases in enumerate(shards):
        body = ['Definition cases_%d : list ((%s) * list Z) := [' % (si, in_type)]
        body.append(';\n'.join('  (%s, %s)' % c for c in sh_cases))
        body.append('].')
        body.append('Definition result_%d := Eval vm_compute in (mismatches %s cases_%d).' % (si, run_fn, si))
        body.append('Print result_%d.' % si)
        path = os.path.join(d, '%s_%d.v' % (tag, si))
        with open(path, 'w') as f:
            f.write(preamble + '\nFrom TM Require Import Base.Flat.\n' + '\n'.join(body) + '\n')
        procs.append((si, path))
    results = {}
    errors = []
    # run in parallel batches
    running = []
    pending = list(procs)

    def start(item):
        si, path = item
        cmd = ['bash', '-c', 'ulimit -s unlimited 2>/dev/null; exec timeout %d coqc -q -w none -Q %s TM %s'
               % (timeout, THEORIES, path)]
        return si, subprocess.Popen(cmd, cwd=d, stdout=subprocess.PIPE, stderr=subprocess.STDOUT, text=True)
    while pending or running:
        while pending and len(running) < NPROC:
            running.append(start(pending.pop(0)))
        si, p = running.pop(0)
        out, _ = p.communicate()
        if p.returncode != 0:
            errors.append('shard %d: coqc rc=%s: %s' % (si, p.returncode, out[-1500:]))
            continue
        m = re.search(r'result_%d\s*=\s*(\[[^\]]*\])' % si, out.replace('\n', ' '))
        if not m:
            errors.append('shard %d: cannot parse output: %s' % (si, out[-500:]))
            continue
        idx = [int(x) for x in re.findall(r'\d+', m.group(1))]
        results[si] = idx
    mism = []
    for si in sorted(results):
        mism.extend(si * shard + i for i in results[si])
    return mism, ('; '.join(errors) if errors else None)


def model_output(preamble, run_fn, input_term, timeout=300):
    """Evaluate `run_fn input` and return the list of integers it prints (for diagnostics)."""
    rc, out = coq_eval(preamble + '\nFrom TM Require Import Base.Flat.',
                       'Definition r := Eval vm_compute in (%s %s).\nPrint r.' % (run_fn, input_term),
                       name='diag', timeout=timeout)
    if rc != 0:
        return None, out[-1500:]
    flat = out.replace('\n', ' ')
    m = re.search(r'r\s*=\s*\[(.*?)\]\s*:', flat)
    if not m:
        return None, out[-500:]
    nums = [int(x.replace('(', '').replace(')', '')) for x in re.findall(r'\(?-?\d+\)?', m.group(1))]
    return nums, None


# ---------------------------------------------------------------------------
# known findings, replays, evidence, decision
# ---------------------------------------------------------------------------
def known_findings(pid):
    path = os.path.join(VERIF, 'known_findings.json')
    if not os.path.exists(path):
        return []
    with open(path) as f:
        data = json.load(f)
    return [e for e in data.get('findings', []) if e.get('property') == pid and e.get('status') == 'known']


def write_replay(pid, payload):
    d = os.path.join(VERIF, 'replays')
    os.makedirs(d, exist_ok=True)
    blob = json.dumps(payload, sort_keys=True, indent=1, default=str)
    h = hashlib.sha256(blob.encode()).hexdigest()[:12]
    path = os.path.join(d, '%s-%s.json' % (pid, h))
    with open(path, 'w') as f:
        f.write(blob)
    return path


def source_hashes(files):
    out = {}
    for rel in files:
        p = os.path.join(REPO, rel)
        try:
            with open(p, 'rb') as f:
                out[rel] = hashlib.sha256(f.read()).hexdigest()[:16]
        except OSError:
            out[rel] = 'missing'
    return out


class Run:
    """One check run of one property: collects results, decides, writes evidence."""

    def __init__(self, pid, tier, seed):
        self.pid, self.tier, self.seed = pid, tier, seed
        self.t0 = time.time()
        self.lines = []
        self.broken = []          # [(kind, name, detail)]  kind in proof|tables|correspondence
        self.violations = []      # [{sig, what, case, ...}] found on the implementation by the oracle
        self.coverage = {}
        self.assumptions = []
        self.notes = []

    def say(self, msg):
        print(msg, flush=True)

    def broken_obligation(self, kind, name, detail=''):
        self.broken.append({'kind': kind, 'name': name, 'detail': detail[-3000:]})
        self.say('BROKEN %s: %s' % (kind, name))

    def violation(self, sig, what, case, extra=None):
        v = {'sig': sig, 'what': what, 'case': case}
        if extra:
            v.update(extra)
        self.violations.append(v)

    def finish(self, proof, level='proof', trusted_base=None, coverage=None, assumptions=None):
        """Decide and exit. proof = dict from compile_props (or None)."""
        known = known_findings(self.pid)
        ksigs = {e['signature']: e for e in known}
        unknown = [v for v in self.violations if v['sig'] not in ksigs]
        hit = {}
        for v in self.violations:
            if v['sig'] in ksigs:
                hit.setdefault(v['sig'], 0)
                hit[v['sig']] += 1
        exit_code = 0
        out_lines = []
        for sig, n in sorted(hit.items()):
            out_lines.append('KNOWN-FINDING: property=%s %s [signature=%s, hit %d times]'
                             % (self.pid, ksigs[sig]['what'], sig, n))
        if unknown:
            # one replay per distinct signature, smallest case first
            seen = set()
            for v in sorted(unknown, key=lambda v: len(json.dumps(v['case'], default=str))):
                if v['sig'] in seen:
                    continue
                seen.add(v['sig'])
                path = write_replay(self.pid, {'property': self.pid, 'kind': 'failing-input', 'seed': self.seed,
                                               'signature': v['sig'], 'what': v['what'], 'case': v['case'],
                                               'broken_obligations': self.broken,
                                               'detail': {k: v[k] for k in v if k not in ('sig', 'what', 'case')}})
                out_lines.append('VIOLATION property=%s replay=%s' % (self.pid, path))
            exit_code = 1
        elif self.broken:
            path = write_replay(self.pid, {'property': self.pid, 'kind': 'broken-obligation', 'seed': self.seed,
                                           'broken_obligations': self.broken,
                                           'note': 'no failing input found by the search; the named theorem(s) '
                                                   'or correspondence no longer check'})
            out_lines.append('VIOLATION property=%s replay=%s no-failing-input-found' % (self.pid, path))
            exit_code = 1
        cov = dict(coverage or {})
        cov.update(self.coverage)
        if proof is not None:
            nthm = len(proof['theorems'])
            cov.setdefault('obligations', nthm + cov.pop('extra_obligations', 0))
            disc = cov['obligations'] if (proof['ok'] and proof['axioms_ok']) else 0
            if not any(b['kind'] in ('proof', 'tables') for b in self.broken):
                cov.setdefault('discharged', disc)
            else:
                cov['discharged'] = 0
            cov.setdefault('checker_cmd', proof['cmd'])
            cov['theorems'] = proof['theorems']
            cov['print_assumptions'] = ('all closed under the global context (%d)' % proof['closed_count']
                                        if not proof['axioms'] else 'axioms: ' + ', '.join(proof['axioms']))
        cov.setdefault('trusted_base', trusted_base or [])
        cov['known_findings_hit'] = hit
        cov['broken_obligations'] = [b['name'] for b in self.broken]
        ev = {'property_id': self.pid, 'tier': self.tier, 'seed': self.seed, 'level': level,
              'coverage': cov, 'assumptions': assumptions or [], 'wall_s': round(time.time() - self.t0, 2),
              'violations': len(unknown) + (1 if (self.broken and not unknown) else 0)}
        os.makedirs(os.path.join(VERIF, 'evidence'), exist_ok=True)
        with open(os.path.join(VERIF, 'evidence', '%s.json' % self.pid), 'w') as f:
            json.dump(ev, f, indent=1, sort_keys=True, default=str)
        for line in out_lines:
            print(line, flush=True)
        if exit_code == 0:
            print('OK property=%s tier=%s wall=%.1fs' % (self.pid, self.tier, time.time() - self.t0), flush=True)
        sys.exit(exit_code)


def standard_run(pid, tier, seed, spec):
    """The standard flow shared by most properties.

    spec: dict with
      model_vos   : list of theories (relative, no extension) the model runner needs, e.g. ['Api/Capacity','Gen/Tables']
      table_sections : names of translator sections this property depends on
      preamble, run_fn, in_type : Coq text for the cases files (run_fn : in_type -> list Z)
      gen_case(rng, i) -> case (JSON-able)
      impl_run(case) -> obs (JSON-able; what the implementation did)
      expected(case, obs) -> list of ints: the implementation's observables flattened like the model's run_fn
                              (return None to skip the case in the correspondence: counted as ambiguous)
      case_term(case, obs) -> Gallina term of type in_type
      oracle(case, obs) -> None or (signature, what) or list of those : the property statement on the implementation
      nontrivial(case, obs) -> bool
      n_quick, n_thorough, search_quick, search_thorough : case counts
      corpus : file name under corpus/ (json list of cases) or None
      rule, trusted, assumptions, anchors
      extra(run, cases, obs) -> dict merged into coverage (optional)
    """
    import random
    r = Run(pid, tier, seed)
    rng = random.Random(seed)
    n = spec.get('n_quick', 300) if tier == 'quick' else spec.get('n_thorough', 10000)
    with build_lock():
        terr = regen_tables()
        for sec, msg in terr:
            if sec in spec.get('table_sections', ()):
                r.broken_obligation('tables', 'translator section %s' % sec, msg)
        okm, logm = make(spec['model_vos'] + ['Base/Flat'])
        proof = compile_props(pid)
    if not proof['ok']:
        r.broken_obligation('proof', proof['failed'] or 'Props/%s.v' % pid, proof['log'])
    elif not proof['axioms_ok']:
        r.broken_obligation('proof', 'Print Assumptions: ' + ', '.join(proof['axioms']))
    bad = grep_forbidden()
    if bad:
        r.broken_obligation('proof', 'forbidden vernacular: ' + '; '.join(bad[:5]))
    cases = []
    if spec.get('corpus'):
        path = os.path.join(VERIF, 'corpus', spec['corpus'])
        if os.path.exists(path):
            with open(path) as f:
                cases.extend(json.load(f))
    ncorpus = len(cases)
    for i in range(n):
        cases.append(spec['gen_case'](rng, i))
    obs = []
    pairs = []
    skipped = 0

    def consider(c, o):
        v = spec['oracle'](c, o)
        if v:
            for sig, what in ([v] if isinstance(v, tuple) else v):
                r.violation(sig, what, c, {'impl_observed': o})
            return True
        return False
    harness_errors = []
    for c in cases:
        try:
            o = spec['impl_run'](c)
            consider(c, o)
            e = spec['expected'](c, o)
            term = None if e is None else (spec['case_term'](c, o), gallina_zlist(e))
        except Exception as exc:     # the harness can no longer drive the implementation: a broken tie, not a crash
            import traceback
            harness_errors.append('%s: %s' % (type(exc).__name__, str(exc)[:200]))
            if len(harness_errors) == 1:
                r.broken_obligation('correspondence', '%s: the harness could not drive the implementation (%s)'
                                    % (pid, harness_errors[0]), traceback.format_exc())
            o, term = {'harness_error': harness_errors[-1]}, None
        obs.append(o)
        if term is None:
            skipped += 1
            pairs.append(None)
        else:
            pairs.append(term)
    live = [(i, p) for i, p in enumerate(pairs) if p is not None]
    if not okm:
        mism, err = [], 'model does not build: ' + logm[-1200:]
    else:
        # evaluate under the build lock, after making sure the generated table and the model objects are still the
        # ones of THIS run (a concurrent check may have regenerated Gen/Tables.v from another tree meanwhile)
        with build_lock():
            regen_tables()
            okm2, logm2 = make(spec['model_vos'] + ['Base/Flat'])
            if not okm2:
                mism, err = [], 'model does not build: ' + logm2[-1200:]
            else:
                mism, err = run_mismatches(spec['preamble'], spec['run_fn'], [p for _i, p in live], spec['in_type'],
                                           shard=spec.get('shard', 300))
                mism = [live[j][0] for j in mism]
                if mism:
                    smallest = min(mism, key=lambda i: len(json.dumps(cases[i], default=str)))
                    mo, _e = model_output(spec['preamble'], spec['run_fn'], pairs[smallest][0])
                    r.broken_obligation('correspondence',
                                        '%s model vs implementation: %d of %d cases differ' % (pid, len(mism), len(live)),
                                        json.dumps({'case': cases[smallest], 'impl_observed': obs[smallest],
                                                    'impl_flat': spec['expected'](cases[smallest], obs[smallest]),
                                                    'model_flat': mo}, default=str))
    if err:
        r.broken_obligation('correspondence', '%s: the model could not be evaluated' % pid, err)
    if r.broken and not r.violations:
        rng2 = random.Random(seed + 1)
        extra = spec.get('search_quick', 3000) if tier == 'quick' else spec.get('search_thorough', 50000)
        t_end = time.time() + (120 if tier == 'quick' else 1200)
        for i in range(extra):
            c = spec['gen_case'](rng2, i)
            try:
                o = spec['impl_run'](c)
                consider(c, o)
            except Exception:
                continue
            if len(r.violations) > 20 or time.time() > t_end:
                break
    def _nt(c, o):
        try:
            return 'harness_error' not in o and spec['nontrivial'](c, o)
        except Exception:
            return False
    nt = [c for c, o in zip(cases, obs) if _nt(c, o)]
    cov = {
        'evaluations': len(cases), 'distinct_nontrivial': distinct_count(nt), 'rule': spec['rule'],
        'samples': cases[ncorpus:ncorpus + 2] if len(cases) > ncorpus + 1 else cases[:2],
        'corpus_cases': ncorpus, 'correspondence_cases': len(live), 'correspondence_mismatches': len(mism),
        'ambiguous_skipped': skipped, 'source_sha256': source_hashes(spec.get('anchors', [])),
    }
    if spec.get('extra'):
        try:
            cov.update(spec['extra'](r, [c for c, o in zip(cases, obs) if 'harness_error' not in o],
                                     [o for o in obs if 'harness_error' not in o]))
        except Exception as exc:
            cov['extra_error'] = '%s: %s' % (type(exc).__name__, exc)
    cov['harness_errors'] = len(harness_errors)
    r.finish(proof, coverage=cov, trusted_base=spec['trusted'], assumptions=spec['assumptions'])


def gallina_zlist(ns):
    from . import gallina
    return gallina.zlist(ns)


def distinct_count(items):
    return len({hashlib.sha256(json.dumps(i, sort_keys=True, default=str).encode()).hexdigest() for i in items})
