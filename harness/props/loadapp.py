"""The Loader glue between DECLARED records and scheduler objects (C03 partition label / traits / lease, C04 affinity
and limits, C01 demand / capacity order, C05 identity_group, C06 priority rule).

A STAGE of a property check (called from harness/props/c03.py), not a standalone check:

    u = loadapp.stage(r, seed, tier)

It ties Master/LoadApp.v (Loader.load_app new / existing instance, _get_lease, _get_data_retention, create_server,
load_server, Application / Affinity / Server constructors, utils.to_seconds, traits.create_code / encode) to the source:
translator section `loadapp` (harness/tables_loadapp.py), the theorems of Props/C03Load.v (recompiled here,
Print Assumptions parsed), differential execution of the REAL Loader over an in-memory backend against the model
(cases_loadapp_*.v + vm_compute) and the statement (what a record declares is what the object carries) as an oracle
on the real objects."""
import logging
import random
import sys
import time

from .. import core, gallina as G

PID = 'C03'
PROPS = 'C03Load'
SECTIONS = ('loadapp', 'units_utils', 'units_resources')
MODEL_VOS = ['Master/LoadApp', 'Master/LoadAppRun', 'Codec/UnitsRun', 'Gen/Tables', 'Base/Flat']
PREAMBLE = ('From Coq Require Import ZArith List.\nImport ListNotations.\n'
            'From TM Require Import Codec.BaseN Codec.Dec Codec.Units Codec.UnitsRun Master.LoadApp Master.LoadAppRun '
            'Gen.Tables.\nOpen Scope Z_scope.\n')
RUN_FN = '(run_case loadapp_tables units_tables)'
IN_TYPE = 'lcase'
ANCHORS = ['lib/python/treadmill/scheduler/loader.py', 'lib/python/treadmill/scheduler/__init__.py',
           'lib/python/treadmill/utils.py', 'lib/python/treadmill/traits.py']
ENGINE = 'E-loadapp'

# the oracle's own reading of the statement (NOT read from the source)
TIME_UNIT = {'s': 1, 'm': 60, 'h': 3600, 'd': 86400}
SIZE_MB = {'M': 1, 'G': 1024, 'T': 1024 * 1024}
DEFAULT_LABEL = '_default'
DEFAULT_PRIO = 1
NOW = 1700000123
ERR = 'error'

TRAIT_POOL = ['ssd', 'gpu', 'fast', 'x86', 'big']
UNKNOWN_TRAITS = ['nvme', 'arm', 'tiny']
LEVELS = ['server', 'rack', 'pod', 'cell', 'bucket']
PROIDS = ['foo', 'bar', 'baz']


# ------------------------------------------------------------------ generator: spellings with their meaning
def _blank(rng, s):
    if rng.random() < 0.75:
        return s
    return rng.choice(['', ' ', '\t']) + s + rng.choice(['', ' ', '\n', '  '])


def _recase(rng, s):
    k = rng.random()
    return s if k < 0.5 else (s.upper() if k < 0.8 else s.lower())


def spell_time(rng):
    """(value, seconds | ERR, tag)"""
    k = rng.random()
    if k < 0.70:
        n = rng.choice([0, 1, 2, 5, 30, 90, rng.randint(0, 100000)])
        u = rng.choice('smhd')
        return _blank(rng, _recase(rng, '%d%s' % (n, u))), n * TIME_UNIT[u], 'wellformed'
    if k < 0.76:
        n = rng.randint(1, 50)
        u = rng.choice('smhd')
        return '-%d%s' % (n, u), -n * TIME_UNIT[u], 'negative'
    if k < 0.80:
        n = rng.randint(0, 50)
        u = rng.choice('smhd')
        return '%d %s' % (n, u), n * TIME_UNIT[u], 'inner-blank'
    bad = rng.choice(['', ' ', '5', '0', 'h', 's', '5x', '1.5h', '5ms', 'ms', '5 5s', 'None', '1e3s', '0x10s', '+-5s',
                      5, 0, 60, -1])
    return bad, ERR, 'malformed'


def spell_mb(rng):
    """(value, megabytes | ERR)"""
    k = rng.random()
    if k < 0.08:
        return rng.choice([0, '0']), 0
    if k < 0.86:
        n = rng.choice([1, 2, 3, 10, 512, 1024, rng.randint(0, 100000)])
        u = rng.choice('MMGGT')
        return _blank(rng, _recase(rng, '%d%s' % (n, u))), n * SIZE_MB[u]
    if k < 0.92:
        n = rng.randint(0, 1 << 22)
        return '%dK' % n, n // 1024
    return rng.choice(['', '5', 'G', '1.5G', '5%', 5, 1024, '1GG', '-', 'M5']), ERR


def spell_cpu(rng):
    k = rng.random()
    if k < 0.85:
        n = rng.choice([0, 1, 10, 50, 100, 150, 400, rng.randint(0, 100000)])
        k2 = rng.random()
        if k2 < 0.6:
            return _blank(rng, '%d%%' % n), n
        if k2 < 0.8:
            return str(n), n
        return n, n
    return rng.choice(['', '%', '5G', '1.5%', '5 5%', 'x']), ERR


def gen_res(rng, data, exp):
    for key, f in (('memory', spell_mb), ('cpu', spell_cpu), ('disk', spell_mb)):
        if rng.random() < 0.12:
            exp[key] = 0          # absent key: 0
            continue
        v, m = f(rng)
        data[key] = v
        exp[key] = m


def gen_cfg(rng):
    """the cell's trait list (z.TRAITS): None = load_traits never ran (empty code)"""
    k = rng.random()
    if k < 0.08:
        return None
    if k < 0.16:
        return []
    n = rng.randint(1, len(TRAIT_POOL))
    cfg = rng.sample(TRAIT_POOL, n)
    if rng.random() < 0.05:
        cfg.append(rng.choice(cfg))        # a duplicate: the later code wins (the oracle skips the trait bits)
    if rng.random() < 0.04:
        cfg.insert(rng.randint(0, len(cfg)), 'invalid')
    return cfg


def gen_trait_list(rng, cfg):
    pool = list(dict.fromkeys((cfg or []) + UNKNOWN_TRAITS + ['invalid']))
    k = rng.random()
    if k < 0.15:
        return []
    n = rng.randint(1, 4)
    out = [rng.choice(pool) if rng.random() < 0.3 else rng.choice((cfg or UNKNOWN_TRAITS) or UNKNOWN_TRAITS)
           for _ in range(n)]
    return out


def app_trait_bits(cfg, traits):
    """what the declared trait list means for an INSTANCE: bit i+1 for the i-th cell trait, the invalid bit 0 for an
    unknown one; ERR when the cell never loaded its traits and the list names an unknown one; None: not decided here"""
    if cfg is not None and (len(set(cfg)) != len(cfg) or 'invalid' in cfg):
        return None
    code = {} if cfg is None else dict([('invalid', 1)] + [(t, 2 << i) for i, t in enumerate(cfg)])
    out = 0
    for t in traits:
        if t in code:
            out |= code[t]
        elif 'invalid' in code:
            out |= 1
        else:
            return ERR
    return out


def srv_trait_bits(cfg, traits):
    """for a SERVER unknown traits get the next free bits in order of appearance; (bits, names of the new traits)"""
    if cfg is not None and (len(set(cfg)) != len(cfg) or 'invalid' in cfg):
        return None, None
    code = {} if cfg is None else dict([('invalid', 1)] + [(t, 2 << i) for i, t in enumerate(cfg)])
    nxt = max(code.values(), default=1)
    out, new = 0, []
    for t in traits:
        if t not in code:
            nxt *= 2
            code[t] = nxt
            new.append(t)
        out |= code[t]
    return out, new


def gen_manifest(rng, cfg):
    """(manifest dict, expectation dict: the MEANING of what is declared; a value ERR = malformed declaration)"""
    m, e = {'services': [], 'environment': 'dev'}, {}
    # priority
    k = rng.random()
    if k < 0.25:
        e['priority'] = None                                  # absent: the assignment's
    elif k < 0.45:
        m['priority'] = rng.choice([-1, -1, '-1', ' -1 '])
        e['priority'] = None                                  # -1: the assignment's
    elif k < 0.90:
        p = rng.choice([0, 1, 2, 50, 99, 100, 101, -2, rng.randint(0, 200)])
        m['priority'] = rng.choice([p, p, str(p), ' %d ' % p])
        e['priority'] = p
    else:
        m['priority'] = rng.choice(['', 'x', '1.5', 'None', '--1', '1 0'])
        e['priority'] = ERR
    gen_res(rng, m, e)
    # affinity
    k = rng.random()
    if k < 0.2:
        e['affinity'] = None
    elif k < 0.3:
        m['affinity'] = None
        e['affinity'] = None
    else:
        m['affinity'] = rng.choice(['foo.bar', 'foo.web', 'bar.db', '', 'x'])
        e['affinity'] = m['affinity']
    # affinity_limits
    k = rng.random()
    if k < 0.3:
        e['limits'] = {}
    elif k < 0.38:
        m['affinity_limits'] = None
        e['limits'] = {}
    elif k < 0.45:
        m['affinity_limits'] = {}
        e['limits'] = {}
    else:
        lv = rng.sample(LEVELS, rng.randint(1, len(LEVELS)))
        m['affinity_limits'] = {x: rng.choice([0, 1, 1, 2, 3, 5, 100, rng.randint(0, 10 ** 6)]) for x in lv}
        e['limits'] = dict(m['affinity_limits'])
    # identity_group
    k = rng.random()
    if k < 0.4:
        e['group'] = None
    elif k < 0.5:
        m['identity_group'] = None
        e['group'] = None
    else:
        m['identity_group'] = rng.choice(['foo.grp', 'bar.workers', 'g', ''])
        e['group'] = m['identity_group']
    # schedule_once
    k = rng.random()
    if k < 0.35:
        e['once'] = False
    else:
        m['schedule_once'] = rng.choice([None, True, True, False, False, 0, 1, 2, -1, '', 'yes', 'false', 'no'])
        e['once'] = bool(m['schedule_once'])
    # data_retention_timeout
    k = rng.random()
    if k < 0.35:
        e['drt'] = None
    elif k < 0.42:
        m['data_retention_timeout'] = None
        e['drt'] = None
    else:
        m['data_retention_timeout'], e['drt'], _t = spell_time(rng)
    # lease
    if rng.random() < 0.35:
        e['lease'] = 0
    else:
        m['lease'], e['lease'], _t = spell_time(rng)
    # traits
    if rng.random() < 0.4:
        e['traits'] = app_trait_bits(cfg, [])
    else:
        m['traits'] = gen_trait_list(rng, cfg)
        e['traits'] = app_trait_bits(cfg, m['traits'])
    return m, e


def gen_assignment(rng, name):
    """(allocations record, the assignment priority the instance name gets by construction | None = default)"""
    proid, rest = name.split('.', 1)
    base = rest.split('#')[0]
    k = rng.random()
    if k < 0.3:
        return None, None                   # no /allocations node
    p = rng.choice([0, 1, 2, 7, 50, 100, rng.randint(0, 150)])
    alloc = {'name': 'ten/a1', 'partition': DEFAULT_LABEL, 'rank': 100, 'memory': '10G', 'cpu': '400%',
             'disk': '10G'}
    if k < 0.75:
        pat = rng.choice(['%s.%s' % (proid, base), '%s.%s*' % (proid, base[:1]), '%s.*' % proid])
        alloc['assignments'] = [{'pattern': pat, 'priority': p}]
        if rng.random() < 0.3:              # a later pattern that also matches: the first one wins
            alloc['assignments'].append({'pattern': '%s.*' % proid, 'priority': p + 3})
        return [alloc], p
    pat = rng.choice(['%s.zz%s' % (proid, base), 'qux.%s' % base, '%s.%sx' % (proid, base)])
    alloc['assignments'] = [{'pattern': pat, 'priority': p}]
    return [alloc], None


def gen_blacklist(rng, name):
    base = name.split('#')[0]
    proid = base.split('.')[0]
    k = rng.random()
    if k < 0.45:
        return None, False
    if k < 0.6:
        return rng.choice([[], ['qux.*'], [base + 'x'], ['*.nomatch']]), False
    return rng.choice([[base], [proid + '.*'], ['*'], ['qux.*', base[:-1] + '?']]), True


def gen_name(rng):
    return '%s.%s#%010d' % (rng.choice(PROIDS), rng.choice(['web', 'db', 'a', 'batch']), rng.randint(1, 99999))


def gen_app_case(rng):
    cfg = gen_cfg(rng)
    name = gen_name(rng)
    k = rng.random()
    if k < 0.04:
        man, exp = rng.choice([None, {}]), None        # falsy manifest: the instance is removed
    else:
        man, exp = gen_manifest(rng, cfg)
    allocs, asg = gen_assignment(rng, name)
    bl_list, bl = gen_blacklist(rng, name)
    levels = rng.sample(LEVELS, 2) + ['zone']
    return {'kind': 'app', 'cfg': cfg, 'name': name, 'manifest': man, 'expect': exp, 'allocs': allocs, 'asg': asg,
            'blacklist': bl_list, 'bl': bl, 'levels': levels}


def gen_refresh_case(rng):
    cfg = gen_cfg(rng)
    name = gen_name(rng)
    for _ in range(50):
        m1, e1 = gen_manifest(rng, cfg)
        if ERR not in e1.values():
            break
    a1, asg1 = gen_assignment(rng, name)
    b1, bl1 = gen_blacklist(rng, name)
    if rng.random() < 0.05:
        m2, e2 = None, None
    else:
        m2, e2 = gen_manifest(rng, cfg)
    a2, asg2 = gen_assignment(rng, name)
    if a2 is None:
        a2, asg2 = a1, asg1            # load_allocations keeps the previous assignments when the node is empty
    b2, bl2 = gen_blacklist(rng, name)
    return {'kind': 'refresh', 'cfg': cfg, 'name': name,
            'first': {'manifest': m1, 'expect': e1, 'allocs': a1, 'asg': asg1, 'blacklist': b1, 'bl': bl1},
            'second': {'manifest': m2, 'expect': e2, 'allocs': a2, 'asg': asg2, 'blacklist': b2, 'bl': bl2}}


def gen_server_record(rng, cfg, buckets):
    rec, e = {'features': []}, {}
    k = rng.random()
    if k < 0.3:
        e['label'] = DEFAULT_LABEL
    elif k < 0.4:
        rec['partition'] = rng.choice([None, ''])
        e['label'] = DEFAULT_LABEL
    else:
        rec['partition'] = rng.choice(['p1', 'prod', '_default', 'x'])
        e['label'] = rec['partition']
    gen_res(rng, rec, e)
    if rng.random() < 0.35:
        tl = []
    else:
        rec['traits'] = tl = gen_trait_list(rng, cfg)
    e['traits'], e['new_traits'] = srv_trait_bits(cfg, tl)
    if rng.random() < 0.4:
        e['up_since'] = NOW
    else:
        rec['up_since'] = e['up_since'] = rng.choice([0, 1, NOW - 1000, rng.randint(0, 2 * NOW)])
    k = rng.random()
    if k < 0.06:
        e['parent'] = 'assert'
    elif k < 0.2:
        rec['parent'] = 'nosuchrack'
        e['parent'] = 'dropped'
    else:
        rec['parent'] = e['parent'] = rng.choice(buckets) if buckets else 'rack0'
        if not buckets:
            e['parent'] = 'dropped'
    return rec, e


def gen_server_case(rng, kind):
    cfg = gen_cfg(rng)
    buckets = rng.choice([[], ['rack0'], ['rack0', 'rack1'], ['rack1', 'pod7', 'rack0']])
    name = 'srv%d' % rng.randint(0, 999)
    if kind == 'srv' and rng.random() < 0.05:
        rec, exp = rng.choice([None, {}]), None
    else:
        rec, exp = gen_server_record(rng, cfg, buckets)
    return {'kind': kind, 'cfg': cfg, 'now': NOW, 'buckets': buckets, 'name': name, 'record': rec, 'expect': exp}


def gen_cases(rng, n):
    cases = []
    # every time unit in both letter cases once, the unit-less and empty spellings, the '0s' default
    for u in 'smhd':
        for f in (str.lower, str.upper):
            nn = rng.choice([1, 2, 7, 90])
            cases.append({'kind': 'seconds', 'value': f('%d%s' % (nn, u)), 'expect': nn * TIME_UNIT[u]})
    for v in ['', '5', '0', 'h', '0s', ' 1d ', 5, 0]:
        cases.append({'kind': 'seconds', 'value': v, 'expect': 0 if v == '0s' else (86400 if v == ' 1d ' else ERR)})
    while len(cases) < n:
        k = rng.random()
        if k < 0.42:
            cases.append(gen_app_case(rng))
        elif k < 0.62:
            cases.append(gen_refresh_case(rng))
        elif k < 0.74:
            cases.append(gen_server_case(rng, 'create'))
        elif k < 0.90:
            cases.append(gen_server_case(rng, 'srv'))
        elif k < 0.97:
            v, s, _t = spell_time(rng)
            cases.append({'kind': 'seconds', 'value': v, 'expect': s})
        else:
            cfg = gen_cfg(rng) or []
            cases.append({'kind': 'codes', 'traits': cfg})
    return cases


# ------------------------------------------------------------------ implementation
_IMPL = None


def impl():
    global _IMPL
    if _IMPL is None:
        if core.PYLIB not in sys.path:
            sys.path.insert(0, core.PYLIB)
        from .. import emaster
        scheduler, _master, loader, _backend, Mem, _Crash = emaster.mods()
        from treadmill import utils, traits
        from treadmill import zknamespace as z
        _IMPL = (scheduler, loader, Mem, utils, traits, z)
    return _IMPL


class _FakeTime:
    def __init__(self, real, now):
        self._real, self._now = real, now

    def time(self):
        return self._now + 0.75

    def __getattr__(self, k):
        return getattr(self._real, k)


def _exc(e):
    if isinstance(e, ValueError):
        return ['ValueError']
    if isinstance(e, IndexError):
        return ['IndexError']
    if type(e) is Exception:
        return ['Exception']
    if isinstance(e, KeyError):
        return ['KeyError']
    if isinstance(e, AssertionError):
        return ['AssertionError']
    return ['other', type(e).__name__]


def _num(x):
    """an int, or the int a float stands for exactly"""
    if type(x) is int:
        return x
    if isinstance(x, float) and x == int(x):
        return int(x)
    return repr(x)


def _tv(v):
    if v is None:
        return ['none']
    if type(v) is bool:
        return ['bool', v]
    if type(v) is int:
        return ['int', v]
    if isinstance(v, str):
        return ['str', v]
    return ['other', repr(v)[:40]]


def dump_app(app, levels=()):
    lim = app.affinity.limits
    inf = float('inf')
    dflt = lim.default_factory() if lim.default_factory else 'nodefault'
    return {
        'name': app.name, 'priority': app.priority if type(app.priority) is int else repr(app.priority),
        'demand': [_num(x) for x in app.demand],
        'affinity': app.affinity.name,
        'limits': [[k, _num(v)] for k, v in dict(lim).items()],
        'limit_default': None if dflt == inf else repr(dflt),
        'probe': [None if (lim[k] if k in lim else dflt) == inf else _num(lim[k] if k in lim else dflt)
                  for k in levels],
        'drt': app.data_retention_timeout, 'lease': app.lease, 'group': app.identity_group,
        'identity': app.identity, 'traits': app._traits, 'once': _tv(app.schedule_once),
        'once_bool': bool(app.schedule_once), 'blacklisted': app.blacklisted, 'evicted': app.evicted,
        'unschedule': app.unschedule, 'renew': app.renew, 'server': app.server, 'expiry': app.placement_expiry,
    }


def dump_server(s):
    return {'name': s.name, 'labels': sorted(s.labels, key=str), 'cap': [_num(x) for x in s.init_capacity],
            'free': [_num(x) for x in s.free_capacity], 'self_traits': s.traits.self_traits, 'traits': s.traits.traits,
            'up_since': s.up_since, 'valid_until': s.valid_until,
            'parent': None if s.parent is None else s.parent.name}


def _loader(cfg):
    scheduler, loader, Mem, _utils, _traits, z = impl()
    be = Mem()
    ld = loader.Loader(be, 'cell')
    if cfg is not None:
        be.raw_put(z.TRAITS, list(cfg))
        ld.load_traits()
    return be, ld


def _load_once(be, ld, name, part):
    """one Loader.load_app after the store was edited the way the producers do"""
    _s, _l, _Mem, _u, _t, z = impl()
    if part['allocs'] is not None:
        be.raw_put(z.ALLOCATIONS, part['allocs'])
        ld.load_allocations()
    if part['blacklist'] is None:
        be.raw_delete(z.BLACKEDOUT_APPS)
    else:
        be.raw_put(z.BLACKEDOUT_APPS, part['blacklist'])
    ld.load_apps_blacklist()
    if part['manifest'] is None:
        be.raw_delete(z.path.scheduled(name))
    else:
        be.raw_put(z.path.scheduled(name), part['manifest'])
    try:
        ld.load_app(name)
    except Exception as e:   # noqa
        return _exc(e)
    return ['ok']


def impl_run(case):
    scheduler, loader, Mem, utils, traits, z = impl()
    k = case['kind']
    if k == 'seconds':
        try:
            v = utils.to_seconds(case['value'])
        except Exception as e:   # noqa
            return {'out': _exc(e)}
        return {'out': ['ok', v if type(v) is int else repr(v)]}
    if k == 'codes':
        return {'codes': [[a, b] for a, b in traits.create_code(list(case['traits'])).items()]}
    if k == 'app':
        be, ld = _loader(case['cfg'])
        out = _load_once(be, ld, case['name'], case)
        app = ld.cell.apps.get(case['name'])
        return {'out': out, 'app': None if app is None else dump_app(app, case['levels']),
                'codes': [[a, b] for a, b in ld.trait_codes.items()],
                'in_alloc': None if app is None or app.allocation is None else (case['name'] in app.allocation.apps)}
    if k == 'refresh':
        be, ld = _loader(case['cfg'])
        out1 = _load_once(be, ld, case['name'], case['first'])
        app1 = ld.cell.apps.get(case['name'])
        d1 = None if app1 is None else dump_app(app1)
        if app1 is None:
            return {'out1': out1, 'app1': None}
        out2 = _load_once(be, ld, case['name'], case['second'])
        app2 = ld.cell.apps.get(case['name'])
        return {'out1': out1, 'app1': d1, 'out2': out2, 'app2': None if app2 is None else dump_app(app2),
                'same_object': app2 is app1}
    if k in ('create', 'srv'):
        be, ld = _loader(case['cfg'])
        for b in case['buckets']:
            ld.buckets[b] = scheduler.Bucket(b, traits=0, level='rack')
        real = loader.time
        loader.time = _FakeTime(real, case['now'])
        try:
            if k == 'create':
                try:
                    s = ld.create_server(case['name'], dict(case['record']))
                    out, srv = ['ok'], dump_server(s)
                except Exception as e:   # noqa
                    out, srv = _exc(e), None
                return {'out': out, 'server': srv, 'codes': [[a, b] for a, b in ld.trait_codes.items()]}
            if case['record'] is not None:
                be.raw_put(z.path.server(case['name']), case['record'])
            else:
                be.raw_put(z.path.server(case['name']), None)
            try:
                ld.load_server(case['name'])
                out = ['ok']
            except Exception as e:   # noqa
                out = _exc(e)
            s = ld.servers.get(case['name'])
            return {'out': out, 'server': None if s is None else dump_server(s),
                    'codes': [[a, b] for a, b in ld.trait_codes.items()],
                    'children': {b: sorted(ld.buckets[b].children_by_name) for b in case['buckets']}}
        finally:
            loader.time = real
    raise ValueError('unknown case kind %r' % k)


# ------------------------------------------------------------------ oracle: what is declared is what the object has
def _declared_app(exp, asg, bl, name):
    """attribute -> declared value, from the generator's MEANING of the manifest"""
    return {
        'name': name,
        'priority': (asg if asg is not None else DEFAULT_PRIO) if exp['priority'] is None else exp['priority'],
        'demand': [exp['memory'], exp['cpu'], exp['disk']],
        'affinity': exp['affinity'], 'limits': exp['limits'], 'drt': exp['drt'], 'lease': exp['lease'],
        'group': exp['group'], 'once_bool': exp['once'], 'traits': exp['traits'], 'blacklisted': bl,
    }


def _cmp_app(decl, got, only=None, where=''):
    out = []
    for k, want in decl.items():
        if only is not None and k not in only:
            continue
        if k == 'traits' and want is None:
            continue
        have = dict(got['limits']) if k == 'limits' else got[k]
        if have != want or (k in ('priority', 'lease') and type(have) is not int):
            out.append(('declared-%s-not-on-instance' % k,
                        '%s: the manifest declares %s = %r, the scheduler.Application has %r' % (where, k, want, have)))
    return out


def oracle(case, obs):
    out = []
    k = case['kind']
    if k == 'seconds':
        want = case['expect']
        if want == ERR:
            if obs['out'][0] == 'ok':
                out.append(('to_seconds-accepts-malformed', 'to_seconds(%r) = %r' % (case['value'], obs['out'][1])))
        elif obs['out'] != ['ok', want]:
            out.append(('to_seconds-wrong-interval', 'to_seconds(%r) gives %r, the spelling means %r seconds'
                        % (case['value'], obs['out'], want)))
    elif k == 'app':
        exp = case['expect']
        if exp is None:
            if obs['app'] is not None:
                out.append(('falsy-manifest-loaded', 'an instance without manifest is in cell.apps'))
        elif ERR in exp.values():
            if obs['out'] == ['ok'] or obs['app'] is not None:
                bad = [a for a, v in exp.items() if v == ERR]
                out.append(('malformed-declaration-accepted', 'load_app accepted a malformed %s: %r'
                            % (bad, case['manifest'])))
        else:
            if obs['out'] != ['ok'] or obs['app'] is None:
                out.append(('wellformed-manifest-rejected', 'load_app(%r) on %r: %r' % (case['name'], case['manifest'],
                                                                                         obs['out'])))
            else:
                out.extend(_cmp_app(_declared_app(exp, case['asg'], case['bl'], case['name']), obs['app'],
                                    where='new instance %s' % case['name']))
                want_probe = [exp['limits'].get(lv) for lv in case['levels']]
                if obs['app']['probe'] != want_probe or obs['app']['limit_default'] is not None:
                    out.append(('affinity-limit-default-not-inf', 'limits %r looked up at %r give %r'
                                % (exp['limits'], case['levels'], obs['app']['probe'])))
                if obs['in_alloc'] is not True:
                    out.append(('instance-not-in-its-allocation', 'after load_app the instance is not queued'))
    elif k == 'refresh':
        f, s = case['first'], case['second']
        if obs['app1'] is None:
            out.append(('wellformed-manifest-rejected', 'load_app on %r: %r' % (f['manifest'], obs['out1'])))
            return out
        d1 = _declared_app(f['expect'], f['asg'], f['bl'], case['name'])
        out.extend(_cmp_app(d1, obs['app1'], where='first load'))
        if s['expect'] is None:
            if obs['app2'] is not None:
                out.append(('falsy-manifest-loaded', 'the instance survived the removal of its manifest'))
            return out
        e2 = s['expect']
        must_fail = ERR in (e2['priority'], e2['drt'], e2['lease'])
        if obs['app2'] is None or not obs['same_object']:
            out.append(('existing-instance-replaced', 'load_app of an existing instance did not keep the object'))
            return out
        if must_fail:
            if obs['out2'] == ['ok']:
                out.append(('malformed-declaration-accepted', 'refresh accepted %r' % (s['manifest'],)))
            if obs['app2'] != obs['app1']:
                out.append(('failed-refresh-changed-instance', 'a refresh that raised changed the instance'))
            return out
        if obs['out2'] != ['ok']:
            out.append(('wellformed-manifest-rejected', 'refresh with %r: %r' % (s['manifest'], obs['out2'])))
            return out
        # AS BUILT: an existing instance takes priority, data retention and the blacklist flag of the new manifest;
        # everything else stays what the FIRST manifest declared
        d2 = _declared_app(dict(f['expect'], priority=e2['priority'], drt=e2['drt']), s['asg'], s['bl'], case['name'])
        for sig, what in _cmp_app(d2, obs['app2'], where='after refresh'):
            out.append((sig.replace('declared-', 'refresh-'), what))
        for a in obs['app1']:
            if a not in ('priority', 'drt', 'blacklisted') and obs['app1'][a] != obs['app2'][a]:
                out.append(('refresh-changed-%s' % a, 'refresh changed %s from %r to %r'
                            % (a, obs['app1'][a], obs['app2'][a])))
    elif k in ('create', 'srv'):
        exp = case['expect']
        if exp is None:
            if obs['server'] is not None:
                out.append(('falsy-server-record-loaded', 'a server without record is in Loader.servers'))
            return out
        malformed = ERR in (exp['memory'], exp['cpu'], exp['disk'])
        attached = k == 'create' or exp['parent'] not in ('assert', 'dropped')
        if malformed or not attached:
            if obs['server'] is not None:
                out.append(('server-loaded-against-declaration', 'record %r gives %r' % (case['record'], obs['server'])))
            return out
        sv = obs['server']
        if sv is None:
            out.append(('wellformed-server-record-rejected', 'record %r: %r' % (case['record'], obs['out'])))
            return out
        want = {'name': case['name'], 'labels': [exp['label']], 'cap': [exp['memory'], exp['cpu'], exp['disk']],
                'free': [exp['memory'], exp['cpu'], exp['disk']], 'up_since': exp['up_since'], 'valid_until': 0,
                'parent': None if k == 'create' else exp['parent']}
        if exp['traits'] is not None:
            want['self_traits'] = want['traits'] = exp['traits']
        for a, w in want.items():
            if sv[a] != w:
                out.append(('declared-%s-not-on-server' % a, 'the record declares %s = %r, the scheduler.Server has %r'
                            % (a, w, sv[a])))
        if k == 'srv' and case['name'] not in obs['children'].get(exp['parent'], []):
            out.append(('server-not-under-its-parent', 'parent %r has children %r' % (exp['parent'], obs['children'])))
    return out


# ------------------------------------------------------------------ model terms / flattening
_CODES = {'ValueError': 1, 'IndexError': 2, 'Exception': 3, 'KeyError': 3}


def _code(o):
    return 0 if o[0] == 'ok' else _CODES.get(o[0], 4)


class OutOfModel(ValueError):
    """an observable of the implementation that the model has no value for: a guaranteed mismatch"""


def _fstr(s):
    if not isinstance(s, str):
        raise OutOfModel('not a str: %r' % (s,))
    return [len(s)] + [ord(c) for c in s]


def _fostr(s):
    return [0] if s is None else [1] + _fstr(s)


def _foz(v):
    if v is not None and type(v) is not int:
        raise OutOfModel('not an int or None: %r' % (v,))
    return [0] if v is None else [1, v]


def _fzl(l):
    return [len(l)] + list(l)


def _ftval(t):
    if t[0] == 'none':
        return [0]
    if t[0] == 'bool':
        return [1, int(t[1])]
    if t[0] == 'int':
        return [2, t[1]]
    if t[0] == 'str':
        return [3] + _fstr(t[1])
    raise OutOfModel('schedule_once value outside the model: %r' % (t,))


def _fkv(items):
    out = [len(items)]
    for a, b in items:
        out += _fstr(a) + [b]
    return out


def _ints(*xs):
    for x in xs:
        if type(x) is not int:
            raise OutOfModel('non-integer observable %r' % (x,))
    return list(xs)


def flat_app(d):
    return (_fstr(d['name']) + _ints(d['priority']) + _fzl(_ints(*d['demand'])) + _fostr(d['affinity'])
            + _fkv([(a, _ints(b)[0]) for a, b in d['limits']]) + _foz(d['drt']) + _ints(d['lease']) + _fostr(d['group'])
            + _foz(d['identity']) + _ints(d['traits']) + _ftval(d['once'])
            + [int(d['once_bool']), int(d['blacklisted']), int(d['evicted']), int(d['unschedule']), int(d['renew'])]
            + _fostr(d['server']) + _foz(d['expiry']))


def flat_server(d):
    if len(d['labels']) != 1 or d['self_traits'] != d['traits']:
        raise OutOfModel('server outside the model: %r' % (d,))
    return (_fstr(d['name']) + _fstr(d['labels'][0]) + _fzl(_ints(*d['cap'])) + _fzl(_ints(*d['free']))
            + _ints(d['traits'], d['up_since'], d['valid_until']) + _fostr(d['parent']))


def _fload(out, app):
    c = _code(out)
    if c:
        return [c]
    return [0, 0] if app is None else [0, 1] + flat_app(app)


def expected(case, obs):
    try:
        return _expected(case, obs)
    except OutOfModel:
        return [-999]


def _expected(case, obs):
    k = case['kind']
    if k == 'seconds':
        o = obs['out']
        return [0] + _ints(o[1]) if o[0] == 'ok' else [_code(o)]
    if k == 'codes':
        return _fkv(obs['codes'])
    if k == 'app':
        fl = _fload(obs['out'], obs['app'])
        if obs['out'] == ['ok'] and obs['app'] is not None:
            if obs['app']['limit_default'] is not None:
                raise OutOfModel('limit default is not inf')
            for p in obs['app']['probe']:
                fl += _foz(p)
        elif obs['out'] != ['ok'] and obs['app'] is not None:
            raise OutOfModel('instance present after a load_app that raised')
        return fl
    if k == 'refresh':
        fl = _fload(obs['out1'], obs['app1'])
        if obs['app1'] is None:
            return fl
        if obs['out2'] != ['ok']:
            if obs['app2'] != obs['app1']:
                raise OutOfModel('a refresh that raised changed the instance')
            return fl + [_code(obs['out2'])]
        return fl + _fload(obs['out2'], obs['app2'])
    if k == 'create':
        c = _code(obs['out'])
        return ([c] if c else [0] + flat_server(obs['server'])) + _fkv(obs['codes'])
    if k == 'srv':
        o, s = obs['out'], obs['server']
        if case['record'] is None or case['record'] == {}:
            head = [10]
        elif o == ['AssertionError']:
            head = [12]
        elif o != ['ok']:
            head = [11, _code(o)]
        elif s is None:
            head = [13]
        else:
            head = [14] + flat_server(s)
        if head[0] != 14 and s is not None:
            raise OutOfModel('server present although load_server did not attach it')
        return head + _fkv(obs['codes'])
    raise ValueError(k)


def _zs(ns):
    return '[' + ';'.join(('(%d)' % n) if n < 0 else str(n) for n in ns) + ']'


def _s(s):
    if any(ord(c) > 127 for c in s):
        raise ValueError('non-ASCII input is outside the model')
    return _zs([ord(c) for c in s])


def _z(n):
    if type(n) is not int:
        raise ValueError('not an int: %r' % (n,))
    return ('(%d)' % n) if n < 0 else str(n)


def _pyval(v):
    if type(v) is int:
        return '(VInt %s)' % _z(v)
    if isinstance(v, str):
        return '(VStr %s)' % _s(v)
    raise ValueError('value outside the model: %r' % (v,))


def _opt(d, key, f, null_is_absent=False):
    if key not in d:
        return 'None'
    if d[key] is None:
        if null_is_absent:
            return 'None'
        raise ValueError('null %s is outside the model' % key)
    return '(Some %s)' % f(d[key])


def _res(d):
    return '{| r_memory := %s; r_cpu := %s; r_disk := %s |}' % (_opt(d, 'memory', _pyval), _opt(d, 'cpu', _pyval),
                                                                 _opt(d, 'disk', _pyval))


def _tval(v):
    if v is None:
        return 'TNone'
    if type(v) is bool:
        return '(TBool %s)' % ('true' if v else 'false')
    if type(v) is int:
        return '(TInt %s)' % _z(v)
    if isinstance(v, str):
        return '(TStr %s)' % _s(v)
    raise ValueError('schedule_once value outside the model: %r' % (v,))


def _strs(l):
    return '[' + '; '.join(_s(x) for x in l) + ']'


def _limits(d):
    return '[' + '; '.join('(%s, %s)' % (_s(a), _z(b)) for a, b in d.items()) + ']'


def manifest_term(m):
    if m is None or m == {}:
        return 'None'
    once = 'None' if 'schedule_once' not in m else '(Some %s)' % _tval(m['schedule_once'])
    return ('(Some {| m_priority := %s; m_res := %s; m_affinity := %s; m_limits := %s; m_group := %s; m_once := %s; '
            'm_drt := %s; m_lease := %s; m_traits := %s |})'
            % (_opt(m, 'priority', _pyval), _res(m), _opt(m, 'affinity', _s, True),
               _opt(m, 'affinity_limits', _limits, True), _opt(m, 'identity_group', _s, True), once,
               _opt(m, 'data_retention_timeout', _pyval, True), _opt(m, 'lease', _pyval), _opt(m, 'traits', _strs)))


def record_term(rec):
    if rec is None or rec == {}:
        return 'None'
    part = 'None' if rec.get('partition') is None else '(Some %s)' % _s(rec['partition'])
    return ('(Some {| sr_partition := %s; sr_res := %s; sr_traits := %s; sr_up_since := %s; sr_parent := %s |})'
            % (part, _res(rec), _opt(rec, 'traits', _strs), _opt(rec, 'up_since', _z), _opt(rec, 'parent', _s)))


def _cfg(cfg):
    return 'None' if cfg is None else '(Some %s)' % _strs(cfg)


def _oz(v):
    return 'None' if v is None else '(Some %s)' % _z(v)


def _b(v):
    return 'true' if v else 'false'


def case_term(case):
    k = case['kind']
    if k == 'seconds':
        return '(CSeconds %s)' % _pyval(case['value'])
    if k == 'codes':
        return '(CCodes %s)' % _strs(case['traits'])
    if k == 'app':
        return '(CApp %s %s %s %s %s %s)' % (_cfg(case['cfg']), _s(case['name']), manifest_term(case['manifest']),
                                            _oz(case['asg']), _b(case['bl']), _strs(case['levels']))
    if k == 'refresh':
        f, s = case['first'], case['second']
        m1 = manifest_term(f['manifest'])
        if not m1.startswith('(Some '):
            raise ValueError('first manifest is falsy')
        return '(CRefresh %s %s %s %s %s %s %s %s)' % (_cfg(case['cfg']), _s(case['name']), m1[len('(Some '):-1],
                                                      _oz(f['asg']), _b(f['bl']), manifest_term(s['manifest']),
                                                      _oz(s['asg']), _b(s['bl']))
    if k == 'create':
        rt = record_term(case['record'])
        return '(CCreate %s %s %s %s)' % (_cfg(case['cfg']), _z(case['now']), _s(case['name']), rt[len('(Some '):-1])
    if k == 'srv':
        return '(CSrv %s %s %s %s %s)' % (_cfg(case['cfg']), _z(case['now']), _strs(case['buckets']), _s(case['name']),
                                         record_term(case['record']))
    raise ValueError(k)


# ------------------------------------------------------------------ the stage
def _quiet():
    lg = logging.getLogger('treadmill')
    state = (lg.disabled,)
    lg.disabled = True
    return lg, state


def _distribution(cases, obs):
    d = {'seconds': 0, 'codes': 0, 'app': 0, 'refresh': 0, 'create': 0, 'srv': 0}
    keys = {}
    det = {'cfg_none': 0, 'cfg_empty': 0, 'falsy_manifest': 0, 'priority_absent': 0, 'priority_minus1': 0,
           'priority_string': 0, 'priority_malformed': 0, 'assignment_matches': 0, 'blacklisted': 0,
           'limits_levels': {}, 'once_values': {}, 'lease_malformed': 0, 'drt_malformed': 0, 'drt_null': 0,
           'traits_unknown': 0, 'affinity_empty_or_null': 0, 'label_default': 0, 'label_empty_or_null': 0,
           'up_since_absent': 0, 'parent_missing_key': 0, 'parent_unknown': 0, 'falsy_record': 0,
           'refresh_second_raises': 0, 'refresh_second_removed': 0, 'refresh_demand_differs': 0,
           'refresh_lease_malformed_only': 0}
    outcomes = {}

    def man(m, e, asg, bl, cfg):
        if not m:
            det['falsy_manifest'] += 1
            return
        for key in m:
            keys[key] = keys.get(key, 0) + 1
        if 'priority' not in m:
            det['priority_absent'] += 1
        elif e['priority'] is None:
            det['priority_minus1'] += 1
        elif e['priority'] == ERR:
            det['priority_malformed'] += 1
        if isinstance(m.get('priority'), str):
            det['priority_string'] += 1
        det['assignment_matches'] += asg is not None
        det['blacklisted'] += bool(bl)
        n = len(m.get('affinity_limits') or {})
        det['limits_levels'][n] = det['limits_levels'].get(n, 0) + 1
        ov = repr(m['schedule_once']) if 'schedule_once' in m else 'absent'
        det['once_values'][ov] = det['once_values'].get(ov, 0) + 1
        det['lease_malformed'] += e['lease'] == ERR
        det['drt_malformed'] += e['drt'] == ERR
        det['drt_null'] += ('data_retention_timeout' in m and m['data_retention_timeout'] is None)
        det['traits_unknown'] += any(t not in (cfg or []) for t in m.get('traits', []))
        det['affinity_empty_or_null'] += ('affinity' in m and not m['affinity'])
    for c, o in zip(cases, obs):
        k = c['kind']
        d[k] += 1
        if k in ('app', 'refresh', 'create', 'srv'):
            det['cfg_none'] += c['cfg'] is None
            det['cfg_empty'] += c['cfg'] == []
        if k == 'app':
            man(c['manifest'], c['expect'], c['asg'], c['bl'], c['cfg'])
            key = 'load_app:' + o['out'][0]
        elif k == 'refresh':
            man(c['first']['manifest'], c['first']['expect'], c['first']['asg'], c['first']['bl'], c['cfg'])
            s = c['second']
            if s['manifest'] is None:
                det['refresh_second_removed'] += 1
            else:
                man(s['manifest'], s['expect'], s['asg'], s['bl'], c['cfg'])
                e1, e2 = c['first']['expect'], s['expect']
                det['refresh_demand_differs'] += [e1[x] for x in ('memory', 'cpu', 'disk')] != \
                    [e2[x] for x in ('memory', 'cpu', 'disk')]
                det['refresh_lease_malformed_only'] += (e2['lease'] == ERR and e2['priority'] != ERR
                                                        and e2['drt'] != ERR)
            det['refresh_second_raises'] += o.get('out2', ['ok']) != ['ok']
            key = 'refresh:' + o.get('out2', ['first-failed'])[0]
        elif k in ('create', 'srv'):
            rec, e = c['record'], c['expect']
            if not rec:
                det['falsy_record'] += 1
            else:
                for key in rec:
                    keys['server.' + key] = keys.get('server.' + key, 0) + 1
                det['label_default'] += e['label'] == DEFAULT_LABEL
                det['label_empty_or_null'] += ('partition' in rec and not rec['partition'])
                det['up_since_absent'] += 'up_since' not in rec
                det['parent_missing_key'] += e['parent'] == 'assert'
                det['parent_unknown'] += e['parent'] == 'dropped'
            key = ('create_server:' if k == 'create' else 'load_server:') + o['out'][0] + \
                ('' if o['server'] is not None or o['out'] != ['ok'] else ':not-attached')
        elif k == 'seconds':
            key = 'to_seconds:' + o['out'][0]
        else:
            key = 'create_code'
        outcomes[key] = outcomes.get(key, 0) + 1
    det['limits_levels'] = {str(a): b for a, b in sorted(det['limits_levels'].items())}
    det['once_values'] = dict(sorted(det['once_values'].items()))
    return {'kinds': d, 'keys_present': dict(sorted(keys.items())), 'detail': det, 'outcomes': dict(sorted(outcomes.items()))}


def stage(r, seed, tier, n=None):
    """Run the Loader-glue stage on the Run `r`; returns coverage counters (a dict to merge into the coverage)."""
    t0 = time.time()
    rng = random.Random(seed + 3301)
    n = n or (2400 if tier == 'quick' else 40000)
    lg, state = _quiet()
    try:
        return _stage(r, seed, tier, rng, n, t0)
    except Exception as exc:   # never lose the verdict: an unusable tie is a broken obligation
        import traceback
        r.broken_obligation('correspondence', 'loadapp stage failed: %s: %s' % (type(exc).__name__, str(exc)[:300]),
                            traceback.format_exc())
        return {'loadapp_stage': {'error': '%s: %s' % (type(exc).__name__, str(exc)[:300])}, 'loadapp_obligations': 0}
    finally:
        lg.disabled = state[0]


def _stage(r, seed, tier, rng, n, t0):
    # 1. tables, model, theorems
    with core.build_lock():
        terr = core.regen_tables()
        for sec, msg in terr:
            if sec in SECTIONS:
                r.broken_obligation('tables', 'translator section %s' % sec, msg)
        okm, logm = core.make(MODEL_VOS)
        proof = core.compile_props(PROPS)
    if not proof['ok']:
        r.broken_obligation('proof', proof['failed'] or 'Props/%s.v' % PROPS, proof['log'])
    elif not proof['axioms_ok']:
        r.broken_obligation('proof', 'Props/%s.v Print Assumptions: %s' % (PROPS, ', '.join(proof['axioms'])))
    # 2. the real Loader + the oracle
    cases = gen_cases(rng, n)
    obs, pairs = [], []
    nviol = [0]

    def consider(c, o):
        for sig, what in oracle(c, o):
            nviol[0] += 1
            r.violation(sig, what, {'engine': ENGINE, 'case': c}, {'impl_observed': o})
    harness_errors = []
    for c in cases:
        try:
            o = impl_run(c)
            consider(c, o)
            pairs.append((case_term(c), G.zlist(expected(c, o))))
        except Exception as exc:   # the harness can no longer drive the implementation: a broken tie
            import traceback
            harness_errors.append('%s: %s' % (type(exc).__name__, str(exc)[:200]))
            if len(harness_errors) == 1:
                r.broken_obligation('correspondence', 'loadapp stage could not drive the implementation (%s)'
                                    % harness_errors[0], traceback.format_exc())
            o = {'harness_error': harness_errors[-1]}
            pairs.append(None)
        obs.append(o)
    # 3. the model on the same cases
    live = [(i, p) for i, p in enumerate(pairs) if p is not None]
    mism, err = [], None
    with core.build_lock():
        core.regen_tables()
        okm2, logm2 = core.make(MODEL_VOS)
        if not (okm and okm2):
            err = 'model does not build: ' + (logm2 if not okm2 else logm)[-1200:]
        else:
            mism, err = core.run_mismatches(PREAMBLE, RUN_FN, [p for _i, p in live], IN_TYPE, shard=300,
                                            timeout=300, tag='cases_loadapp')
            mism = [live[j][0] for j in mism]
            if mism:
                import json
                smallest = min(mism, key=lambda i: len(json.dumps(cases[i], default=str)))
                mo, _e = core.model_output(PREAMBLE, RUN_FN, pairs[smallest][0])
                r.broken_obligation('correspondence',
                                    'loadapp: model vs implementation: %d of %d cases differ' % (len(mism), len(live)),
                                    json.dumps({'case': cases[smallest], 'impl_observed': obs[smallest],
                                                'impl_flat': expected(cases[smallest], obs[smallest]),
                                                'model_flat': mo}, default=str))
    if err:
        r.broken_obligation('correspondence', 'loadapp: the model could not be evaluated', err)
    # 4. something broke and the oracle has no failing input yet: search further (implementation + oracle only)
    searched = 0
    mine_broken = (not proof['ok']) or (not proof['axioms_ok']) or err or mism or harness_errors \
        or any(sec in SECTIONS for sec, _m in terr)
    if mine_broken and not nviol[0]:
        rng2 = random.Random(seed + 3302)
        t_end = time.time() + (15 if tier == 'quick' else 300)
        for c in gen_cases(rng2, 8000 if tier == 'quick' else 200000):
            searched += 1
            try:
                consider(c, impl_run(c))
            except Exception:   # noqa
                continue
            if nviol[0] > 20 or time.time() > t_end:
                break
    okobs = [(c, o) for c, o in zip(cases, obs) if 'harness_error' not in o]
    cov = {
        'cases': len(cases), 'correspondence_cases': len(live), 'correspondence_mismatches': len(mism),
        'mismatch_indices': mism[:20],
        'oracle_violations': nviol[0], 'extra_search_cases': searched, 'harness_errors': len(harness_errors),
        'distribution': _distribution([c for c, _o in okobs], [o for _c, o in okobs]),
        'theorems': proof['theorems'], 'proof_ok': bool(proof['ok'] and proof['axioms_ok']),
        'print_assumptions': ('all closed under the global context (%d)' % proof['closed_count']
                              if not proof['axioms'] else 'axioms: ' + ', '.join(proof['axioms'])),
        'checker_cmd': proof['cmd'], 'table_sections': list(SECTIONS),
        'source_sha256': core.source_hashes(ANCHORS), 'wall_s': round(time.time() - t0, 2),
        'rule': 'seeded (random.Random(seed+3301)): every time unit in both cases and the unit-less / empty spellings '
                'once; then 42% one new instance (every manifest key present / absent / null independently; priority '
                'absent, -1, int, numeral string, malformed; limits on any subset of levels; lease / retention '
                'spellings incl. malformed; schedule_once None/bool/int/str; trait lists with unknown names; '
                'assignment patterns matching or not; blacklist matching or not; Loader with and without loaded '
                'traits), 20% an existing instance refreshed with an independent second manifest (or its removal), '
                '12% create_server, 16% load_server (partition absent / null / empty / named; parent absent / '
                'unknown / known; up_since absent; new traits), 7% to_seconds, 3% create_code',
    }
    return {'loadapp_stage': cov, 'loadapp_obligations': len(proof['theorems'])}


TRUSTED = [
    'Props/C03Load.v: Coq 8.16.1 kernel; vm_compute for C03L_tables_ok and the Examples; Print Assumptions closed',
    'translator harness/tables_loadapp.py: dataflow of Loader.load_app / create_server / Application.__init__ extracted '
    'from the AST (every statement must be recognised); to_seconds, _get_lease, _get_data_retention, find_assignment, '
    'find_default_assignment, load_server, traits.encode / create_code, Affinity / TraitSet / Node / Server __init__ pinned '
    'by AST template (constants as holes); utils._TIME_SCALE, loader._DEFAULT_PARTITION, traits.INVALID read from the '
    'imported modules; fail-closed',
    'hand-written model Master/LoadApp.v, tied by differential execution of the real Loader over the in-memory backend '
    'of harness/emaster.py (cases_loadapp_*.v + vm_compute); size / cpu spellings through Codec/Units.v',
    'find_assignment (fnmatch patterns of /allocations) and _is_blacklisted (fnmatch on the blacklist) are INPUTS of the '
    'model (the matched assignment priority / the flag); the stage constructs patterns that match or not by construction',
]
ASSUMPTIONS = [
    'manifest / server-record values are JSON scalars of the expected kind: str or int for priority, lease, '
    'data_retention_timeout, memory, cpu, disk; a dict level -> int for affinity_limits; a list of str for traits; '
    'None / bool / int / str for schedule_once; ASCII text.  null is modelled for affinity, affinity_limits, '
    'identity_group, schedule_once, data_retention_timeout, partition (same as absent) and outside the model elsewhere',
    'resource numbers below 2^53 (numpy float vectors are compared as the integers they stand for)',
]


def replay_case(case):
    """case = the dict stored in a replay file ({'engine': 'E-loadapp', 'case': ...}) or the inner case"""
    c = case['case'] if isinstance(case, dict) and case.get('engine') == ENGINE else case
    lg, state = _quiet()
    try:
        v = oracle(c, impl_run(c))
    finally:
        lg.disabled = state[0]
    return v[0] if v else None
