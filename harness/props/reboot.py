"""The code that COMPUTES a server's valid_until (C03 / C02 "lease lifetime"): scheduler.Partition (reboot buckets),
scheduler.RebootBucket, scheduler.reboot_dates.

A STAGE of a property check (to be called from harness/props/c03.py), not a standalone check:

    u = reboot.stage(r, seed, tier)

It ties Sched/Reboot.v to the source: translator section `reboot` (harness/tables_reboot.py), the theorems of
Props/C03Reboot.v (recompiled here, Print Assumptions parsed), differential execution of the REAL Partition against
the model (cases_reboot_*.v + vm_compute: every valid_until, and time stamp / load / members of every bucket and
_reboot_last after every call) and the statement as an oracle on the real objects - on the Partition alone, and on
the real Master / Loader driven through load_model, node reboots (presence gone, new up_since, presence back),
tick_reboots and restarts over the in-memory backend (oracle only: "a rebooted server is not scheduled for reboot
earlier than MIN_SERVER_UPTIME after its boot", "a stored reboot time survives a master restart")."""
import logging
import os
import random
import sys
import time

from .. import core, gallina as G

PID = 'C03'
PROPS = 'C03Reboot'
SECTIONS = ('reboot',)
MODEL_VOS = ['Sched/Reboot', 'Sched/RebootRun', 'Gen/Tables', 'Base/Flat']
PREAMBLE = ('From Coq Require Import ZArith List.\nImport ListNotations.\n'
            'From TM Require Import Sched.Reboot Sched.RebootRun Gen.Tables.\nOpen Scope Z_scope.\n')
RUN_FN = '(run_case reboot_tables)'
IN_TYPE = 'rcase'
ANCHORS = ['lib/python/treadmill/scheduler/__init__.py', 'lib/python/treadmill/scheduler/loader.py']
ENGINE = 'E-reboot'

# the oracle's own reading of the statement (NOT read from the source)
DAY = 86400
UPTIME = 21 * DAY          # a server is rebooted at most this long after its boot ...
MIN_UPTIME = 1 * DAY       # ... and not earlier than this
EPOCH_WEEKDAY = 3          # 1970-01-01 was a Thursday (Monday = 0)
# POSIX TZ strings (no tz database needed, no daylight saving): name -> seconds EAST of UTC
TZS = {'UTC0': 0, 'AAA-5': 5 * 3600, 'BBB8': -8 * 3600, 'CCC-13': 13 * 3600, 'DDD-5:30': 5 * 3600 + 1800}
NSERVERS = 8


# ------------------------------------------------------------------ the oracle's calendar
def sched_dict(items):
    """the dict the constructor gets: items = [[key, [h, m, s]], ...] with int or str keys; None stays None"""
    if items is None:
        return None
    return {k: tuple(v) for k, v in items}


def eff_items(items):
    """(weekday, (h, m, s)) after int(k), later item wins; the default (every day 23:59:59) for None / {}"""
    if not items:
        return {d: (23, 59, 59) for d in range(7)}
    out = {}
    for k, v in items:
        out[int(k)] = tuple(v)
    return out


def date_of_day(eff, tz, d):
    """the reboot date on day number d (days since the epoch, local) or None"""
    wd = (d + EPOCH_WEEKDAY) % 7
    if wd not in eff:
        return None
    h, m, s = eff[wd]
    return d * DAY + h * 3600 + m * 60 + s - tz


def dates_between(eff, tz, lo, hi):
    """all reboot dates t with lo <= t <= hi (plain times of day only)"""
    out = []
    for d in range((lo + tz) // DAY - 1, (hi + tz) // DAY + 2):
        t = date_of_day(eff, tz, d)
        if t is not None and lo <= t <= hi:
            out.append(t)
    return out


def is_plain(items):
    """every scheduled weekday 0..6 has a time of day, and there is one"""
    eff = eff_items(items)
    days = [k for k in eff if 0 <= k <= 6]
    return bool(days) and all(0 <= eff[k][0] * 3600 + eff[k][1] * 60 + eff[k][2] < DAY for k in days)


# ------------------------------------------------------------------ generator
def gen_sched(rng):
    """(items | None, kind)"""
    k = rng.random()
    if k < 0.18:
        return None, 'default-None'
    if k < 0.21:
        return [], 'default-empty'

    def hms():
        j = rng.random()
        if j < 0.2:
            return rng.choice([[0, 0, 0], [23, 59, 59], [12, 0, 0], [0, 0, 1]])
        return [rng.randint(0, 23), rng.randint(0, 59), rng.randint(0, 59)]
    if k < 0.31:
        t = hms()
        days, kind = list(range(7)), 'daily'
        items = [[d, t if rng.random() < 0.5 else hms()] for d in days]
    elif k < 0.45:
        items, kind = [[rng.randint(0, 6), hms()]], 'one-weekday'
    else:
        days = sorted(rng.sample(range(7), rng.randint(2, 6)))
        items, kind = [[d, hms()] for d in days], 'some-weekdays'
    rng.random() < 0.3 and rng.shuffle(items)
    if rng.random() < 0.5:
        items = [[str(d), t] for d, t in items]          # keys as they come out of JSON
        kind += '-strkeys'
    j = rng.random()
    if j < 0.06:
        items.insert(rng.randint(0, len(items)), [rng.choice([7, 8, -1, 13, '7', '-2']), hms()])
        kind += '+dead-key'
    elif j < 0.10:
        d, t = rng.choice(items)
        other = str(d) if isinstance(d, int) else int(d)
        items.append([other, hms()])                      # '1' and 1: the later item wins after int(k)
        kind += '+dup-key'
    elif j < 0.14:
        i = rng.randrange(len(items))
        items[i] = [items[i][0], rng.choice([[24, 0, 0], [30, 70, 5], [47, 59, 59], [0, 0, -5], [-3, 0, 0],
                                             [0, 1440, 0], [23, 59, 60]])]
        kind += '+exotic-time'
    return items, kind


def gen_case(rng, i):
    tzname = rng.choice(['UTC0', 'UTC0', 'UTC0', 'AAA-5', 'BBB8', 'CCC-13', 'DDD-5:30'])
    tz = TZS[tzname]
    items, skind = gen_sched(rng)
    eff = eff_items(items)
    now0 = rng.choice([1700000123, rng.randint(1600000000, 1900000000), rng.randint(1, 20000) * DAY - tz,
                       rng.randint(10000, 20000) * DAY - tz - 1, rng.randint(10 * DAY, 1900000000)])
    cur = now0
    ops, tags = [], []
    up_of = {}
    for _ in range(rng.randint(3, 14)):
        k = rng.random()
        if k < 0.28:
            j = rng.random()
            if j < 0.15:
                dt, tg = 0, 'same'
            elif j < 0.35:
                dt, tg = rng.choice([1, 60, 3600, 7200]), 'minutes'
            elif j < 0.75:
                dt, tg = rng.randint(1, 10) * DAY + rng.choice([0, 0, rng.randint(-3600, 3600)]), 'days'
            elif j < 0.85:
                dt, tg = rng.randint(21, 45) * DAY, 'weeks'
            elif j < 0.93:
                # exactly onto / one second around a reboot date
                near = dates_between(eff, tz, cur, cur + 9 * DAY)
                dt, tg = ((rng.choice(near) + rng.choice([-1, 0, 1]) - cur), 'onto-a-date') if near else (DAY, 'days')
            else:
                dt, tg = -rng.choice([1, 3600, 2 * DAY]), 'backwards'
            cur = max(1, cur + dt)
            ops.append(['tick', cur])
            tags.append('tick:' + tg)
        elif k < 0.85:
            sid = rng.randint(1, NSERVERS)
            near = dates_between(eff, tz, cur - 2 * DAY, cur + 24 * DAY)
            j = rng.random()
            if j < 0.18:
                up, tg = cur - rng.randint(0, 3600), 'fresh'
            elif j < 0.30:
                up, tg = cur - rng.randint(3600, DAY), 'hours'
            elif j < 0.50:
                up, tg = cur - rng.randint(1, 20) * DAY - rng.randint(0, DAY - 1), 'days'
            elif j < 0.60 and near:
                # the first buckets lie exactly UPTIME / MIN_UPTIME (+-1) after the boot
                up, tg = rng.choice(near[:3]) - rng.choice([UPTIME, UPTIME, MIN_UPTIME]) + rng.choice([-1, 0, 1]), 'edge'
            elif j < 0.72:
                up, tg = cur - rng.randint(21, 60) * DAY, 'overdue'
            elif j < 0.80:
                up, tg = cur + rng.randint(1, 2 * DAY), 'future-near'
            elif j < 0.88:
                up, tg = cur + rng.randint(18, 40) * DAY, 'future-far'
            elif sid in up_of:
                up, tg = up_of[sid], 'unchanged'
            else:
                up, tg = cur - rng.randint(0, 5 * DAY), 'days'
            up_of[sid] = up
            j = rng.random()
            if j < 0.50:
                ts, tt = None, 'none'
            elif j < 0.54:
                ts, tt = 0, 'zero'
            elif j < 0.84 and near:
                ts, tt = rng.choice(near if rng.random() < 0.7 else near[:2]), 'a-date'
            elif j < 0.92 and near:
                ts, tt = rng.choice(near) + rng.choice([-1, 1, 60]), 'off-by-a-bit'
            else:
                ts, tt = cur + rng.randint(-5 * DAY, 30 * DAY), 'arbitrary'
            ops.append(['add', sid, up, ts])
            tags.append('add:%s/%s' % (tg, tt))
        else:
            ops.append(['remove', rng.randint(1, NSERVERS)])
            tags.append('remove')
    return {'tz': tzname, 'sched': items, 'sched_kind': skind, 'now': now0, 'now_arg': rng.random() < 0.85,
            'ops': ops, 'tags': tags}


def gen_cases(rng, n):
    return [gen_case(rng, i) for i in range(n)]


# ------------------------------------------------------------------ implementation
_IMPL = None


def impl():
    global _IMPL
    if _IMPL is None:
        if core.PYLIB not in sys.path:
            sys.path.insert(0, core.PYLIB)
        from treadmill import scheduler
        if scheduler.DIMENSION_COUNT is None:
            scheduler.DIMENSION_COUNT = 3
        _IMPL = scheduler
    return _IMPL


class _TZ:
    """TZ of the process for the duration of a run (reboot_dates uses time.mktime / date.fromtimestamp)"""

    def __init__(self, name):
        self.name = name

    def __enter__(self):
        self.old = os.environ.get('TZ')
        os.environ['TZ'] = self.name
        time.tzset()
        if -time.timezone != TZS[self.name] or time.daylight:
            raise RuntimeError('TZ=%s gives offset %r' % (self.name, -time.timezone))

    def __exit__(self, *a):
        if self.old is None:
            os.environ.pop('TZ', None)
        else:
            os.environ['TZ'] = self.old
        time.tzset()


class _Clock:
    """stand-in for the time module inside treadmill.scheduler: time() is the case's clock"""

    def __init__(self, real, now):
        self._real, self._now = real, now

    def time(self):
        return self._now

    def __getattr__(self, k):
        return getattr(self._real, k)


def _int(x, what):
    if isinstance(x, bool) or not isinstance(x, (int, float)) or x != int(x):
        raise ValueError('%s is %r, not an integral number' % (what, x))
    return int(x)


def _dump(part, ids):
    bs = []
    for b in part._reboot_buckets:
        members = sorted(ids[id(s)] for s in b.servers)
        bs.append([_int(b.timestamp, 'bucket time stamp'), len(b.servers), members])
    return {'buckets': bs, 'last': _int(part._reboot_last, '_reboot_last')}


def impl_run(case):
    """[{'op': ..., 'state': dump, 'v': valid_until (add)} | {'op': ..., 'exc': name}], first entry = constructor"""
    s = impl()
    out = []
    with _TZ(case['tz']):
        real_time = s.time
        s.time = _Clock(real_time, case['now'])
        try:
            servers, ids = {}, {}
            try:
                part = s.Partition(reboot_schedule=sched_dict(case['sched']), label='p',
                                   now=case['now'] if case['now_arg'] else None)
            except IndexError:
                return [{'op': 'init', 'exc': 'IndexError'}]
            out.append({'op': 'init', 'state': _dump(part, ids)})
            for op in case['ops']:
                try:
                    if op[0] == 'tick':
                        s.time._now = op[1]
                        part.tick(op[1])
                        out.append({'op': 'tick', 'state': _dump(part, ids)})
                    elif op[0] == 'add':
                        _k, sid, up, ts = op
                        if sid not in servers:
                            servers[sid] = s.Server('s%d' % sid, [10] * s.DIMENSION_COUNT, up_since=up, label='p')
                            ids[id(servers[sid])] = sid
                        srv = servers[sid]
                        srv.up_since = up          # Loader.reload_server: current_server.up_since = server.up_since
                        part.add(srv, ts)
                        out.append({'op': 'add', 'v': _int(srv.valid_until, 'valid_until'), 'state': _dump(part, ids)})
                    elif op[0] == 'remove':
                        sid = op[1]
                        if sid not in servers:
                            servers[sid] = s.Server('s%d' % sid, [10] * s.DIMENSION_COUNT, up_since=0, label='p')
                            ids[id(servers[sid])] = sid
                        part.remove(servers[sid])
                        out.append({'op': 'remove', 'state': _dump(part, ids)})
                    else:
                        raise ValueError('unknown op %r' % (op,))
                except IndexError:
                    out.append({'op': op[0], 'exc': 'IndexError'})
                    break
        finally:
            s.time = real_time
    return out


# ------------------------------------------------------------------ oracle: the statement on implementation results
def _tss(state):
    return [b[0] for b in state['buckets']]


def oracle(case, obs):
    out = []
    tz = TZS[case['tz']]
    eff = eff_items(case['sched'])
    plain = is_plain(case['sched'])
    if not obs or 'exc' in obs[0]:
        return [('partition-constructor-raises', 'Partition(reboot_schedule=%r, now=%r) raises %s'
                 % (case['sched'], case['now'], obs[0].get('exc') if obs else '?'))]

    def check_current(i, now, st, what):
        ts = _tss(st)
        if not ts:
            out.append(('no-reboot-bucket', 'op %d (%s): no bucket at all' % (i, what)))
            return
        if not plain:
            return
        if any(a >= b for a, b in zip(ts, ts[1:])):
            out.append(('buckets-not-sorted', 'op %d (%s): bucket time stamps %r' % (i, what, ts)))
        if ts[0] < now:
            out.append(('stale-bucket-kept', 'op %d (%s now=%d): first bucket %d is in the past' % (i, what, now, ts[0])))
        if not ts[-1] > now + UPTIME:
            out.append(('horizon-not-covered', 'op %d (%s now=%d): last bucket %d is not beyond now + 21 days'
                        % (i, what, now, ts[-1])))
        if st['last'] != ts[-1]:
            out.append(('reboot-last-is-not-the-last-bucket', 'op %d (%s): _reboot_last %d, last bucket %d'
                        % (i, what, st['last'], ts[-1])))
        want = dates_between(eff, tz, ts[0], ts[-1])
        if want != ts:
            off = [t for t in ts if t not in want]
            sig = 'bucket-off-schedule' if off else 'schedule-date-skipped'
            out.append((sig, 'op %d (%s): buckets %r, the schedule %r (tz %+d) has %r between the first and the last'
                        % (i, what, ts, sorted(eff.items()), tz, want)))
    tick_now = case['now']
    check_current(0, tick_now, obs[0]['state'], 'constructor')
    if plain and obs[0]['state']['buckets'] and obs[0]['state']['buckets'][0][0] >= tick_now + 8 * DAY:
        out.append(('first-reboot-date-late', 'constructor at %d: first bucket %d is more than a week away'
                    % (tick_now, obs[0]['state']['buckets'][0][0])))
    if any(b[1] for b in obs[0]['state']['buckets']):
        out.append(('new-bucket-not-empty', 'constructor: %r' % (obs[0]['state']['buckets'],)))
    prev = obs[0]['state']
    for i, (op, o) in enumerate(zip(case['ops'], obs[1:]), 1):
        if 'exc' in o:
            out.append(('partition-%s-raises' % op[0], 'op %d %r raises %s on buckets %r' % (i, op, o['exc'], _tss(prev))))
            break
        st = o['state']
        before = {b[0]: b for b in prev['buckets']}
        if op[0] == 'tick':
            now = op[1]
            tick_now = now
            check_current(i, now, st, 'tick')
            after = {b[0]: b for b in st['buckets']}
            if len(before) != len(prev['buckets']) or len(after) != len(st['buckets']):
                before, after = {}, {}        # repeated time stamps (times outside the day): not comparable by key
            for t, b in before.items():
                if t >= now and (t not in after or after[t][2] != b[2]):
                    out.append(('tick-dropped-live-bucket', 'op %d tick(%d): bucket %r became %r' % (i, now, b, after.get(t))))
            for t, b in after.items():
                if t not in before and b[1]:
                    out.append(('new-bucket-not-empty', 'op %d tick(%d): new bucket %r' % (i, now, b)))
        elif op[0] == 'remove':
            sid = op[1]
            if _tss(st) != _tss(prev) or st['last'] != prev['last']:
                out.append(('remove-changed-buckets', 'op %d remove: %r -> %r' % (i, _tss(prev), _tss(st))))
            for b0, b1 in zip(prev['buckets'], st['buckets']):
                if b1[2] != [x for x in b0[2] if x != sid] or b1[1] != len(b1[2]):
                    out.append(('remove-wrong-members', 'op %d remove(%d): bucket %r -> %r' % (i, sid, b0, b1)))
        else:
            _k, sid, up, ts = op
            v = o['v']
            tss = _tss(prev)
            what = 'op %d add(server %d up_since=%d (now%+d), timestamp=%r) on buckets %r (loads %r), last tick %d: valid_until %d' \
                % (i, sid, up, up - tick_now, ts, tss, [b[1] for b in prev['buckets']], tick_now, v)
            if _tss(st) != tss or st['last'] != prev['last']:
                out.append(('add-changed-buckets', what + '; buckets now %r' % (_tss(st),)))
                prev = st
                continue
            if v not in tss:
                out.append(('valid-until-not-a-bucket', what))
                prev = st
                continue
            # exactly one bucket may change: one with time stamp v, which gains the server (time stamps can repeat
            # only for schedules with times outside the day)
            changed = [j for j, (b0, b1) in enumerate(zip(prev['buckets'], st['buckets'])) if b0 != b1]
            holders = [b1 for b1 in st['buckets'] if b1[0] == v and sid in b1[2] and b1[1] == len(b1[2])]
            if not holders:
                out.append(('server-not-in-its-bucket', what + '; buckets with that time stamp: %r'
                            % ([b1 for b1 in st['buckets'] if b1[0] == v],)))
            for j in changed:
                b0, b1 = prev['buckets'][j], st['buckets'][j]
                if len(changed) > 1 or b0[0] != v or b1[2] != sorted(set(b0[2]) | {sid}) or b1[1] != len(b1[2]):
                    out.append(('add-touched-another-bucket', what + '; bucket %r -> %r' % (b0, b1)))
            named = bool(ts) and ts in tss
            overdue = tss[0] > up + UPTIME
            adm = [b for b in prev['buckets'] if up + MIN_UPTIME <= b[0] <= up + UPTIME]
            if overdue:
                if v != tss[0]:
                    out.append(('overdue-server-not-in-first-bucket', what))
            elif named:
                if v != ts:
                    out.append(('explicit-timestamp-ignored', what))
            elif adm:
                if v < up + MIN_UPTIME:
                    out.append(('reboot-before-min-uptime', what + '; %d s after boot although bucket %d is admissible'
                                % (v - up, adm[0][0])))
                elif v > up + UPTIME:
                    out.append(('reboot-after-max-uptime', what + '; %d s after boot although bucket %d is admissible'
                                % (v - up, adm[0][0])))
                else:
                    low = min(b[1] for b in adm)
                    best = [b for b in adm if b[1] == low][-1]      # the latest in list order
                    if v != best[0]:
                        out.append(('not-least-loaded-latest', what + '; least loaded admissible, latest on ties: %d' % best[0]))
            else:
                if v != tss[-1]:
                    out.append(('no-admissible-bucket-not-last', what))
            if plain and not named and up + MIN_UPTIME <= tick_now + UPTIME:
                if v < up + MIN_UPTIME and adm == []:
                    out.append(('reboot-before-min-uptime', what + '; %d s after boot' % (v - up)))
                if not overdue and not adm:
                    out.append(('existing-server-without-admissible-bucket', what))
        prev = st
    return out


# ------------------------------------------------------------------ the callers: Loader / Master flows (oracle only)
def gen_flow(rng, i):
    """one cell with 1-3 servers in one partition, driven through Master: load_model, presence changes around a
    reboot (the node writes a new up_since), tick_reboots as the clock advances, master restarts"""
    tzname = rng.choice(['UTC0', 'UTC0', 'AAA-5', 'BBB8'])
    k = rng.random()
    if k < 0.25:
        part, items = None, None                      # the _default partition
    elif k < 0.45:
        part, items = 'p1', None                      # a partition node without reboot-schedule
    else:
        part = 'p1'
        while True:
            items, kind = gen_sched(rng)
            if items and is_plain(items) and 'dead' not in kind and 'dup' not in kind:
                break
        items = [[str(d), hms] for d, hms in items]   # JSON
    now = rng.choice([1700000123, rng.randint(1600000000, 1900000000)])
    servers = []
    for sid in range(1, rng.randint(1, 3) + 1):
        j = rng.random()
        age = rng.randint(0, 3600) if j < 0.3 else rng.randint(1, 20) * DAY if j < 0.7 else rng.randint(22, 60) * DAY
        servers.append({'id': sid, 'age': age})
    steps = []
    for _ in range(rng.randint(2, 8)):
        j = rng.random()
        if j < 0.35:
            steps.append(['advance', rng.choice([600, 3600, rng.randint(1, 10) * DAY, rng.randint(1, 30) * 3600]),
                          rng.random() < 0.85])
        elif j < 0.80:
            steps.append(['reboot', rng.choice(servers)['id'], rng.randint(60, 7200), rng.randint(0, 600),
                          rng.random() < 0.85])
        else:
            steps.append(['restart'])
    return {'kind': 'flow', 'tz': tzname, 'partition': part, 'sched': items, 'now': now, 'servers': servers,
            'steps': steps}


def flow_run(case):
    """observations after load_model and after every step: per server the stored record, the in-memory server, the
    partition's buckets; `assigned` = servers whose reboot time was (re)decided in that step, with what the presence
    node said before"""
    from .. import emaster
    scheduler, master, loader, _backend, Mem, _Crash = emaster.mods()
    mods = [scheduler, master, loader]
    label = case['partition'] or '_default'
    out = []
    with _TZ(case['tz']):
        olds = [m.time for m in mods]
        clk = _Clock(olds[0], case['now'])
        for m in mods:
            m.time = clk
        try:
            b = Mem()
            m = master.Master(b, 'cell')
            m.create_rootns()
            b.raw_put('/cell/rack0', {})
            b.raw_put('/buckets/rack0', {'traits': None})
            if case['partition']:
                b.raw_put('/partitions/' + case['partition'],
                          {'reboot-schedule': {k: v for k, v in case['sched']}} if case['sched'] else {})
            for srv in case['servers']:
                rec = dict(emaster.res([1000, 400, 1000]), parent='rack0', up_since=case['now'] - srv['age'])
                if case['partition']:
                    rec['partition'] = case['partition']
                b.raw_put('/servers/s%d' % srv['id'], rec)
                b.raw_put('/server.presence/s%d' % srv['id'], {})
            tick_now = [case['now']]

            def observe(what, assigned):
                part = m.cell.partitions[label]
                tss = [_int(x.timestamp, 'bucket time stamp') for x in part._reboot_buckets]
                srvs = {}
                for srv in case['servers']:
                    name = 's%d' % srv['id']
                    mem = m.servers.get(name)
                    pres = b.d.get('/server.presence/' + name)
                    srvs[name] = {
                        'rec_up': b.get('/servers/' + name)['up_since'],
                        'mem_up': None if mem is None else mem.up_since,
                        'up': pres is not None,
                        'v': None if mem is None or pres is None else _int(mem.valid_until, 'valid_until'),
                        'presence': None if pres is None else (pres[0] or {}).get('valid_until'),
                        'in': [] if mem is None else [_int(x.timestamp, 'ts') for x in part._reboot_buckets
                                                      if mem in x.servers],
                    }
                out.append({'what': what, 'now': clk._now, 'tick_now': tick_now[0], 'tss': tss, 'servers': srvs,
                            'assigned': assigned})
            m.load_model()
            observe('load', {'s%d' % s['id']: None for s in case['servers']})
            for st in case['steps']:
                if st[0] == 'advance':
                    clk._now += st[1]
                    if st[2]:
                        m.tick_reboots()
                        tick_now[0] = clk._now
                    observe('advance', {})
                elif st[0] == 'reboot':
                    _k, sid, down, lag, seen_down = st
                    name = 's%d' % sid
                    b.raw_delete('/server.presence/' + name)
                    if seen_down:
                        m.process_server_presence([s for s in m.servers if s != name and
                                                   ('/server.presence/' + s) in b.d])
                    clk._now += down
                    rec = b.get('/servers/' + name)
                    rec['up_since'] = clk._now - lag
                    b.raw_put('/servers/' + name, rec)
                    b.raw_put('/server.presence/' + name, {})
                    m.process_server_presence([s for s in m.servers if ('/server.presence/' + s) in b.d])
                    if not seen_down:
                        m.reload_servers([name])      # the server event of the rewritten record
                    observe('reboot' if seen_down else 'reboot-unseen', {name: None} if seen_down else {})
                elif st[0] == 'restart':
                    stored = {}
                    for srv in case['servers']:
                        name = 's%d' % srv['id']
                        pres = b.d.get('/server.presence/' + name)
                        if pres is not None:
                            stored[name] = (pres[0] or {}).get('valid_until')
                    m = master.Master(b, 'cell')
                    m.load_model()
                    tick_now[0] = clk._now
                    observe('restart', stored)
                else:
                    raise ValueError('unknown step %r' % (st,))
        finally:
            for m_, o in zip(mods, olds):
                m_.time = o
    return out


def flow_oracle(case, obs):
    out = []
    for i, o in enumerate(obs):
        tss = o['tss']
        for name, s in sorted(o['servers'].items()):
            what = 'step %d (%s, now %d): %s record up_since %r, in memory %r, valid_until %r, presence node %r, buckets %r' \
                % (i, o['what'], o['now'], name, s['rec_up'], s['mem_up'], s['v'], s['presence'], tss[:4] + ['...'] + tss[-1:])
            if not s['up'] or s['v'] is None:
                continue
            if o['what'] != 'reboot-unseen' and s['mem_up'] != s['rec_up']:
                out.append(('server-keeps-old-boot-time', what))
            if name not in o['assigned']:
                continue
            up, v, stored = s['rec_up'], s['v'], o['assigned'][name]
            if v not in tss or v not in s['in']:
                out.append(('valid-until-not-a-bucket', what + '; server sits in %r' % (s['in'],)))
                continue
            if s['presence'] != v:
                out.append(('presence-node-valid-until-differs', what))
            overdue = tss[0] > up + UPTIME
            named = bool(stored) and stored in tss
            if overdue:
                if v != tss[0]:
                    out.append(('overdue-server-not-in-first-bucket', what))
            elif named:
                if v != stored:
                    out.append(('stored-reboot-time-not-kept', what + '; stored %r' % (stored,)))
            else:
                if v < up + MIN_UPTIME:
                    out.append(('reboot-before-min-uptime', what + '; %d s after boot' % (v - up)))
                if v > up + UPTIME:
                    out.append(('reboot-after-max-uptime', what + '; %d s after boot' % (v - up)))
    return out


def _flow_distribution(cases, obs):
    d = {'partition': {}, 'steps': {}, 'decisions': {'overdue-first-bucket': 0, 'stored-kept': 0, 'window': 0},
         'servers': 0}
    for c, o in zip(cases, obs):
        k = '_default' if not c['partition'] else ('p1-schedule' if c['sched'] else 'p1-default-schedule')
        d['partition'][k] = d['partition'].get(k, 0) + 1
        d['servers'] += len(c['servers'])
        for x in o:
            d['steps'][x['what']] = d['steps'].get(x['what'], 0) + 1
            for name, stored in x['assigned'].items():
                s = x['servers'][name]
                if s['v'] is None:
                    continue
                if x['tss'][0] > s['rec_up'] + UPTIME:
                    d['decisions']['overdue-first-bucket'] += 1
                elif stored and stored in x['tss']:
                    d['decisions']['stored-kept'] += 1
                else:
                    d['decisions']['window'] += 1
    return d



# ------------------------------------------------------------------ model terms / flattening
def _flat_state(st):
    out = [len(st['buckets'])]
    for t, n, members in st['buckets']:
        out += [t, n] + list(members)
    return out + [st['last']]


def expected(case, obs):
    out = []
    codes = {'init': 0, 'tick': 1, 'add': 2, 'remove': 3}
    for o in obs:
        if 'exc' in o:
            return (out + [-2]) if o['op'] != 'init' else [-2]
        out.append(codes[o['op']])
        if o['op'] == 'add':
            out.append(o['v'])
        out += _flat_state(o['state'])
    return out


def _z(n):
    return '(%d)' % n if n < 0 else str(n)


def case_term(case):
    items = case['sched'] or []
    sched = '[' + '; '.join('(%s, (%s, %s, %s))' % (_z(int(k)), _z(v[0]), _z(v[1]), _z(v[2])) for k, v in items) + ']'
    ops = []
    for op in case['ops']:
        if op[0] == 'tick':
            ops.append('OTick %s' % _z(op[1]))
        elif op[0] == 'add':
            ops.append('OAdd %s %s %s' % (_z(op[1]), _z(op[2]), 'None' if op[3] is None else '(Some %s)' % _z(op[3])))
        else:
            ops.append('ORemove %s' % _z(op[1]))
    return '{| c_sched := %s; c_tz := %s; c_now := %s; c_ops := [%s] |}' % (sched, _z(TZS[case['tz']]), _z(case['now']),
                                                                             '; '.join(ops))


# ------------------------------------------------------------------ the stage
def _quiet():
    lg = logging.getLogger('treadmill.scheduler')
    state = (lg.disabled,)
    lg.disabled = True
    return lg, state


def _distribution(cases, obs):
    d = {'schedules': {}, 'tz': {}, 'ops': {}, 'add_up_since': {}, 'add_timestamp': {}, 'tick': {}, 'rule': {},
         'buckets': {'<=5': 0, '6-12': 0, '13-23': 0, '>23': 0}, 'ties_between_least_loaded': 0,
         'server_in_two_buckets': 0, 'ticks_dropping': 0, 'ticks_extending': 0, 'constructor_now_from_clock': 0,
         'adds_with_valid_until_before_min_uptime': 0, 'plain_schedules': 0}
    for c, o in zip(cases, obs):
        k = c['sched_kind']
        d['schedules'][k] = d['schedules'].get(k, 0) + 1
        d['tz'][c['tz']] = d['tz'].get(c['tz'], 0) + 1
        d['constructor_now_from_clock'] += not c['now_arg']
        d['plain_schedules'] += is_plain(c['sched'])
        if not o or 'exc' in o[0]:
            continue
        prev = o[0]['state']
        for op, tag, oo in zip(c['ops'], c['tags'], o[1:]):
            d['ops'][op[0]] = d['ops'].get(op[0], 0) + 1
            if 'exc' in oo:
                break
            st = oo['state']
            n = len(st['buckets'])
            d['buckets']['<=5' if n <= 5 else '6-12' if n <= 12 else '13-23' if n <= 23 else '>23'] += 1
            if op[0] == 'tick':
                t = tag.split(':')[1]
                d['tick'][t] = d['tick'].get(t, 0) + 1
                d['ticks_dropping'] += bool(set(_tss(prev)) - set(_tss(st)))
                d['ticks_extending'] += bool(set(_tss(st)) - set(_tss(prev)))
            elif op[0] == 'add':
                a, b = tag.split(':')[1].split('/')
                d['add_up_since'][a] = d['add_up_since'].get(a, 0) + 1
                d['add_timestamp'][b] = d['add_timestamp'].get(b, 0) + 1
                _k, sid, up, ts = op
                tss = _tss(prev)
                adm = [x for x in prev['buckets'] if up + MIN_UPTIME <= x[0] <= up + UPTIME]
                if tss[0] > up + UPTIME:
                    rule = 'overdue-first-bucket'
                elif ts and ts in tss:
                    rule = 'explicit-honoured'
                elif adm:
                    rule = 'cheapest-admissible'
                    low = min(x[1] for x in adm)
                    d['ties_between_least_loaded'] += sum(1 for x in adm if x[1] == low) > 1
                else:
                    rule = 'none-admissible-last-bucket'
                d['rule'][rule] = d['rule'].get(rule, 0) + 1
                d['adds_with_valid_until_before_min_uptime'] += oo['v'] < up + MIN_UPTIME
                d['server_in_two_buckets'] += sum(1 for x in st['buckets'] if sid in x[2]) > 1
            prev = st
    for k in ('schedules', 'tz', 'ops', 'add_up_since', 'add_timestamp', 'tick', 'rule'):
        d[k] = dict(sorted(d[k].items()))
    return d


def stage(r, seed, tier, n=None):
    """Run the reboot-bucket stage on the Run `r`; returns coverage counters (a dict to merge into the coverage)."""
    t0 = time.time()
    rng = random.Random(seed + 4409)
    n = n or (2000 if tier == 'quick' else 24000)
    lg, state = _quiet()
    try:
        return _stage(r, seed, tier, rng, n, t0)
    except Exception as exc:   # never lose the verdict: an unusable tie is a broken obligation
        import traceback
        r.broken_obligation('correspondence', 'reboot stage failed: %s: %s' % (type(exc).__name__, str(exc)[:300]),
                            traceback.format_exc())
        return {'reboot_stage': {'error': '%s: %s' % (type(exc).__name__, str(exc)[:300])}, 'reboot_obligations': 0}
    finally:
        lg.disabled = state[0]


def _stage(r, seed, tier, rng, n, t0):
    # 1. tables, model, theorems
    with core.build_lock():
        terr = core.regen_tables()
        for sec, msg in terr:
            if sec in SECTIONS:
                r.broken_obligation('tables', 'translator section %s' % sec, msg)
        okm, logm = core.make(MODEL_VOS)
        proof = core.compile_props(PROPS)
    if not proof['ok']:
        r.broken_obligation('proof', proof['failed'] or 'Props/%s.v' % PROPS, proof['log'])
    elif not proof['axioms_ok']:
        r.broken_obligation('proof', 'Props/%s.v Print Assumptions: %s' % (PROPS, ', '.join(proof['axioms'])))
    # 2. the real Partition + the oracle
    cases = gen_cases(rng, n)
    obs, pairs = [], []
    nviol = [0]

    def consider(c, o):
        for sig, what in oracle(c, o):
            nviol[0] += 1
            r.violation(sig, what, {'engine': ENGINE, 'case': c}, {'impl_observed': o})
    harness_errors = []
    for c in cases:
        try:
            o = impl_run(c)
            consider(c, o)
            pairs.append((case_term(c), G.zlist(expected(c, o))))
        except Exception as exc:   # the harness can no longer drive the implementation: a broken tie
            import traceback
            harness_errors.append('%s: %s' % (type(exc).__name__, str(exc)[:200]))
            if len(harness_errors) == 1:
                r.broken_obligation('correspondence', 'reboot stage could not drive the implementation (%s)'
                                    % harness_errors[0], traceback.format_exc())
            o = None
            pairs.append(None)
        obs.append(o)
    # 3. the model on the same cases
    live = [(i, p) for i, p in enumerate(pairs) if p is not None]
    mism, err = [], None
    with core.build_lock():
        core.regen_tables()
        okm2, logm2 = core.make(MODEL_VOS)
        if not (okm and okm2):
            err = 'model does not build: ' + (logm2 if not okm2 else logm)[-1200:]
        else:
            mism, err = core.run_mismatches(PREAMBLE, RUN_FN, [p for _i, p in live], IN_TYPE, shard=150,
                                            timeout=600, tag='cases_reboot')
            mism = [live[j][0] for j in mism]
            if mism:
                import json
                smallest = min(mism, key=lambda i: len(json.dumps(cases[i], default=str)))
                mo, _e = core.model_output(PREAMBLE, RUN_FN, pairs[smallest][0])
                r.broken_obligation('correspondence',
                                    'reboot: model vs implementation: %d of %d cases differ' % (len(mism), len(live)),
                                    json.dumps({'case': cases[smallest], 'impl_observed': obs[smallest],
                                                'impl_flat': expected(cases[smallest], obs[smallest]),
                                                'model_flat': mo}, default=str))
    if err:
        r.broken_obligation('correspondence', 'reboot: the model could not be evaluated', err)
    # 4. something broke and the oracle has no failing input yet: search further (implementation + oracle only)
    searched = 0
    mine_broken = (not proof['ok']) or (not proof['axioms_ok']) or err or mism or harness_errors \
        or any(sec in SECTIONS for sec, _m in terr)
    if mine_broken and not nviol[0]:
        rng2 = random.Random(seed + 4410)
        t_end = time.time() + (15 if tier == 'quick' else 300)
        for c in gen_cases(rng2, 8000 if tier == 'quick' else 200000):
            searched += 1
            try:
                consider(c, impl_run(c))
            except Exception:   # noqa
                continue
            if nviol[0] > 20 or time.time() > t_end:
                break
    # 5. the callers (Master / Loader flows around a reboot): oracle only
    frng = random.Random(seed + 4411)
    flows = [gen_flow(frng, i) for i in range(max(50, len(cases) // 8))]
    fobs, fviol, ferr = [], 0, []
    for c in flows:
        try:
            o = flow_run(c)
            for sig, what in flow_oracle(c, o):
                fviol += 1
                nviol[0] += 1
                r.violation(sig, what, {'engine': ENGINE, 'case': c}, {'impl_observed': o})
            fobs.append((c, o))
        except Exception as exc:
            import traceback
            ferr.append('%s: %s' % (type(exc).__name__, str(exc)[:200]))
            if len(ferr) == 1:
                r.broken_obligation('correspondence', 'reboot stage could not drive Master / Loader (%s)' % ferr[0],
                                    traceback.format_exc())
    okobs = [(c, o) for c, o in zip(cases, obs) if o is not None]
    cov = {
        'cases': len(cases), 'calls': sum(len(c['ops']) + 1 for c in cases), 'correspondence_cases': len(live),
        'correspondence_mismatches': len(mism), 'mismatch_indices': mism[:20],
        'oracle_violations': nviol[0], 'extra_search_cases': searched, 'harness_errors': len(harness_errors),
        'distribution': _distribution([c for c, _o in okobs], [o for _c, o in okobs]),
        'flows': {'cases': len(flows), 'oracle_violations': fviol, 'harness_errors': len(ferr),
                  'distribution': _flow_distribution([c for c, _o in fobs], [o for _c, o in fobs]),
                  'rule': 'seeded (seed+4411): Master on the in-memory backend of harness/emaster.py; 1-3 servers (fresh / '
                          'days old / older than 21 days) in _default / a partition with or without reboot-schedule; '
                          '2-8 steps: clock advance (+ tick_reboots 85%), node reboot (presence gone - seen by the master '
                          '85% -, new up_since in the record, presence back), master restart'},
        'theorems': proof['theorems'], 'proof_ok': bool(proof['ok'] and proof['axioms_ok']),
        'print_assumptions': ('all closed under the global context (%d)' % proof['closed_count']
                              if not proof['axioms'] else 'axioms: ' + ', '.join(proof['axioms'])),
        'checker_cmd': proof['cmd'], 'table_sections': list(SECTIONS),
        'source_sha256': core.source_hashes(ANCHORS), 'wall_s': round(time.time() - t0, 2),
        'rule': 'seeded (random.Random(seed+4409)): one Partition per case; schedule None / {} / daily / one weekday / '
                '2-6 weekdays, int or str keys, shuffled, 6% a key outside 0..6, 4% "1" and 1, 4% a time outside the '
                'day; TZ one of 5 fixed offsets; constructor now explicit (85%) or from the patched clock; 3-14 calls: '
                '28% tick (same / minutes / 1-10 days / 3-6 weeks / onto a reboot date +-1 s / backwards), 57% add '
                '(up_since fresh / hours / days / UPTIME or MIN_UPTIME +-1 s before one of the first buckets / overdue '
                '/ future / far future / unchanged; timestamp None / 0 / a reboot date of the schedule near now / a '
                'date +-1 s / arbitrary), 15% remove (present or not); servers are re-added without remove',
    }
    return {'reboot_stage': cov, 'reboot_obligations': len(proof['theorems'])}


TRUSTED = [
    'Props/C03Reboot.v: Coq 8.16.1 kernel; vm_compute for C03R_tables_ok, the witnesses and the Examples; Print '
    'Assumptions closed',
    'translator harness/tables_reboot.py: DEFAULT_SERVER_UPTIME, MIN_SERVER_UPTIME, DEFAULT_MAX_APP_LEASE read from the '
    'imported module (single module-level assignment checked on the AST); Partition.__init__ / _find_bucket / add / '
    'remove / tick, RebootBucket.__init__ / add / remove / cost and reboot_dates pinned by AST template (constants as '
    'holes, docstrings and _LOGGER calls ignored); fail-closed',
    'hand-written model Sched/Reboot.v, tied by differential execution of the real Partition (cases_reboot_*.v + '
    'vm_compute): every valid_until and the time stamp, load and members of every bucket after every call',
    'time: integers (seconds); the zone is a constant offset (time.mktime is called with tm_isdst = 0; the daylight-saving '
    'shift of date.fromtimestamp(now) - the start DAY only - is not modelled); weekday of 1970-01-01 = Thursday is a '
    'parameter of the model (3 in the runner)',
    'Master calling partition.tick(now) every _REBOOT_TICK_INTERVAL and Loader.set_server_valid_until / load_partition / '
    'reload_server / adjust_presence passing up_since and the stored valid_until are the CALLERS of this model (reach = '
    'any sequence of calls); they are not modelled: the stage drives the real Master over the in-memory backend through '
    'load_model, node reboots, tick_reboots and restarts and checks the statement on the real objects (oracle only)',
]
ASSUMPTIONS = [
    'reboot schedules have at least one weekday 0..6 (otherwise reboot_dates never yields: C03R_dead_schedule_no_date); '
    'the theorems about sortedness / the window assume every scheduled (h, m, s) is a time of day',
    'a server passed to Partition.add without a stored valid_until naming a bucket was booted no later than '
    'now + 20 days (a node clock further ahead gets a reboot time before its boot: C03R_future_boot_refuted)',
]


def replay_case(case):
    """case = the dict stored in a replay file ({'engine': 'E-reboot', 'case': ...}) or the inner case"""
    c = case['case'] if isinstance(case, dict) and case.get('engine') == ENGINE else case
    lg, state = _quiet()
    try:
        if c.get('kind') == 'flow':
            v = flow_oracle(c, flow_run(c))
        else:
            v = oracle(c, impl_run(c))
    finally:
        lg.disabled = state[0]
    return v[0] if v else None
