"""C04 on E-cell histories (Props/C04.v, harness/ecell_oracles.py)."""
from .. import core
from . import _ecell_prop as E

PID = 'C04'
PROFILE_C04 = {'affinity': 0.9, 'pressure': 0.8, 'failure': 0.3, 'identity': 0.1, 'move': 0.1}
RULE_C04 = 'C04 profile: affinity limits on random subsets of levels (server, rack, pod, cell) under capacity pressure so that evictions and restores happen'


def run(tier, seed):
    spec = E.make_spec(PID, PROFILE_C04, RULE_C04)
    spec = E.with_master_stage(spec, PID, tier, seed)
    core.standard_run(PID, tier, seed, spec)


def replay_case(case):
    return E.replay(PID, case)
