"""C02: a fitting probe submitted to a quiescent cell is placed (Props/C02.v; oracle = leaf scan)."""
from .. import core, ecell_gen
from ..ecell import UNPLACED
from . import _ecell_prop as E

PID = 'C02'
PROFILE = {'pressure': 0.5, 'failure': 0.5, 'traits': 0.5, 'partitions': 0.5, 'affinity': 0.5, 'lease': 0.3,
           'identity': 0.3, 'raw_remove': 0.05, 'frozen': 0.5}


def gen_case(rng, i):
    case = ecell_gen.gen_history(rng, PROFILE, max_ops=rng.choice([15, 25, 35]))
    ops = case['ops']
    twin = None
    if rng.random() < 0.2:
        # two instances of one shape that fit nowhere, each in a different dimension (incomparable failures): whatever the
        # feasibility tracker remembers of them must not hold back a smaller instance of the same shape
        adds0 = [op for op in ops if op[0] == 'AddApp' and op[3]['order'] > 0]
        if adds0:
            src = rng.choice(adds0)
            big = 5 * 1024
            dims = rng.sample(range(3), 2)
            twin = dict(src[3])
            for j, dim in enumerate(dims):
                a = dict(src[3])
                a['name'] = 880 + 2 * (i % 10) + j
                a['prio'] = 90 + j
                a['order'] = 90000 + 2 * i + j
                a['demand'] = [big if k == dim else rng.choice([1, 2]) for k in range(3)]
                a['group'] = None
                ops.append(['AddApp', src[1], list(src[2]), a])
            twin['_alloc'] = (src[1], tuple(src[2]))
    ops += [['Schedule'], ['Schedule'], ['Schedule']]
    # the probe: modelled on an existing instance (same affinity/limits so that trackers and counters matter) or fresh
    adds = [op for op in ops if op[0] == 'AddApp' and op[3]['order'] > 0]
    base = dict(rng.choice(adds)[3]) if adds and rng.random() < 0.7 else None
    allocs = sorted({(op[1], tuple(op[2])) for op in ops if op[0] == 'AddApp'}) or [(4000, ())]
    label, path = rng.choice(allocs)
    name = 900 + i % 50
    if base is None:
        base = {'aff': 3000, 'limits': [], 'traits': 0, 'lease': 0, 'drt': None, 'group': None, 'once': False}
    probe = {'name': name, 'prio': rng.randint(1, 10), 'demand': [rng.choice([1, 8, 32, 64]) for _ in range(3)],
             'aff': base['aff'], 'limits': base['limits'], 'traits': rng.choice([0, 0, base['traits'], 1, 2]),
             'lease': rng.choice([0, 0, base['lease']]), 'drt': None,
             'group': base['group'] if rng.random() < 0.5 else None, 'once': False, 'order': 100000 + i}
    if twin is not None:
        probe.update({'aff': twin['aff'], 'limits': twin['limits'], 'traits': twin['traits'], 'lease': twin['lease'],
                      'demand': [rng.choice([4, 8, 16]) for _ in range(3)], 'prio': rng.randint(1, 10)})
        label, path = twin['_alloc']
    ops.append(['AddApp', label, list(path), probe])
    ops.append(['Schedule'])
    case['probe'] = name
    return case


def _eligible(snap, ap):
    apps, servers, buckets = snap['apps'], snap['servers'], snap['buckets']
    cnt = {}
    for sid, s in servers.items():
        for a in s['apps']:
            if a in apps and apps[a]['aff'] == ap['aff']:
                for node in [sid] + s['chain']:
                    cnt[node] = cnt.get(node, 0) + 1
    need = ap['traits']
    out = []
    for sid, s in servers.items():
        if s['state'] != 'up' or s['label'] != ap['label']:
            continue
        if need and (s['traits'] & need) != need:
            continue
        if ap['lease'] and not (snap['now'] + ap['lease'] < s['valid_until']):
            continue
        if any(d > f for d, f in zip(ap['demand'], s['free'])):
            continue
        ok = True
        for node in [sid] + s['chain']:
            level = 0 if node in servers else buckets[node]['level']
            lim = ap['limits'].get(level)
            if lim is not None and cnt.get(node, 0) >= lim:
                ok = False
        if ok:
            out.append(sid)
    return out


def _aggregates(snap, where):
    """AggSound on the implementation: no rack/pod/cell aggregate may hide an up server below it."""
    out = []
    for sid, s in snap['servers'].items():
        if s['state'] != 'up':
            continue
        for b in s['chain']:
            bk = snap['buckets'][b]
            if any(f > bf for f, bf in zip(s['free'], bk['free'])):
                out.append(('aggregate-hides-free-capacity', '%s: up server %d has free %r but bucket %d says %r'
                            % (where, sid, s['free'], b, bk['free'])))
            if s['label'] not in bk['labels']:
                out.append(('aggregate-hides-partition', '%s: bucket %d lacks label %d of up server %d'
                            % (where, b, s['label'], sid)))
            if (bk['traits'] & s['traits']) != s['traits']:
                out.append(('aggregate-hides-traits', '%s: bucket %d traits %d lack those of up server %d (%d)'
                            % (where, b, bk['traits'], sid, s['traits'])))
    return out[:3]


def extra_oracle(case, r):
    agg = []
    for i, rec in enumerate(r['trace']):
        if rec.get('op') == 'Schedule':
            agg += _aggregates(rec['before'], 'before the cycle at op %d' % i)
            agg += _aggregates(rec['after'], 'after the cycle at op %d' % i)
        if agg:
            break
    if agg:
        return agg[:2]
    recs = [(i, rec) for i, rec in enumerate(r['trace']) if rec.get('op') == 'Schedule']
    if len(recs) < 2:
        return []
    (i_prev, prev), (i_last, last) = recs[-2], recs[-1]
    quiescent = all(sb == sa and eb == ea for (_n, sb, eb, sa, ea) in prev['placement'])
    probe = case['probe']
    bef, aft = last['before'], last['after']
    if not quiescent or probe not in bef['apps'] or probe not in aft['apps']:
        return []
    ap = bef['apps'][probe]
    if ap['blacklisted'] or aft['apps'][probe]['rank'] == UNPLACED or aft['apps'][probe]['server'] is not None:
        return []
    g = ap['group']
    if g is not None:
        grp = bef['groups'].get(g)
        if grp is None or not grp['available']:
            return []
    fit = _eligible(bef, ap)
    if not fit:
        return []
    # was the probe skipped by the feasibility tracker? (recorded by wrapping PlacementFeasibilityTracker.feasible)
    sig = 'fitting-probe-left-pending'
    if probe in last.get('tracker_skipped', []):
        # The tracker may only hold the probe back because an instance of the same shape (affinity name and limits,
        # lease, allocation constraints) whose demand is <= the probe's in every dimension failed earlier in this
        # cycle. The known finding is that "same shape" ignores the instance's own traits; a skip that no such
        # smaller failure explains is a different defect.
        pos = {}
        for _lbl, q in last.get('queues', []):
            for k, ent in enumerate(q):
                pos[ent[0]] = (_lbl, k)
        lims = sorted(ap['limits'].values())
        explained = False
        for f, fp in aft['apps'].items():
            if f == probe or fp['server'] is not None or f not in pos or probe not in pos:
                continue
            if pos[f][0] != pos[probe][0] or pos[f][1] > pos[probe][1]:
                continue
            if (fp['aff'] == ap['aff'] and sorted(fp['limits'].values()) == lims and fp['lease'] == ap['lease']
                    and fp['label'] == ap['label'] and all(x <= y for x, y in zip(fp['demand'], ap['demand']))):
                explained = True
        sig = ('fitting-probe-skipped:feasibility-tracker-shape-collision' if explained
               else 'fitting-probe-skipped:no-smaller-failure-of-its-shape')
    return [(sig, 'at op %d: probe %d (demand %r, traits %d) stays pending although up server(s) %r fit it'
             % (i_last, probe, ap['demand'], ap['traits'], fit))]


def trace_oracle(trace):
    """master-level stage: the aggregates of the real Master's cell before and after every cycle it runs"""
    agg = []
    for i, rec in enumerate(trace):
        if rec.get('op') == 'Schedule':
            agg += _aggregates(rec['before'], 'before the cycle at op %d' % i)
            agg += _aggregates(rec['after'], 'after the cycle at op %d' % i)
        if agg:
            break
    return agg[:2]


def run(tier, seed):
    spec = E.make_spec(PID, PROFILE, 'C02 profile: mixed partitions/traits/limits, servers down/up/removed/re-added; '
                       'each history is driven quiescent (three extra cycles), then ONE probe instance is submitted '
                       'and a cycle run; the oracle scans all leaf servers for a fit', extra_oracle=extra_oracle)
    spec['gen_case'] = gen_case
    spec = E.with_master_stage(spec, PID, tier, seed, trace_oracle=trace_oracle)
    core.standard_run(PID, tier, seed, spec)


def replay_case(case):
    return E.replay(PID, case, extra_oracle=extra_oracle, trace_oracle=trace_oracle)
