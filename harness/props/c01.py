"""C01: accounting and the two views (Sched/InvAcct.v, Props/C01.v) on E-cell histories."""
from .. import core
from . import _ecell_prop as E

PID = 'C01'
PROFILE = {'pressure': 0.7, 'failure': 0.5, 'raw_remove': 0.15}


def run(tier, seed):
    spec = E.make_spec(PID, PROFILE, 'C01 profile: capacity pressure (demands that fit one dimension but not another), '
                       'servers removed with and without their instances, re-added, resized by replacement')
    core.standard_run(PID, tier, seed, spec)


def replay_case(case):
    return E.replay(PID, case)
