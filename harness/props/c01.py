"""C01: accounting and the two views (Sched/InvAcct.v, Props/C01.v).

Stage 1: E-cell histories (model correspondence + oracle on the scheduler objects).
Stage 2 (Loader level): the real master.Master/Loader over the in-memory backend (E-master histories: server records
changed/reloaded/deleted, presence flips, restarts); after every master cycle the C01 statement is evaluated on the
real cell. Stage 2 is oracle-only (the Loader is not in the scheduler model) and exists for the failing-input search."""
import random

from .. import core
from . import _ecell_prop as E

PID = 'C01'
PROFILE = {'pressure': 0.7, 'failure': 0.5, 'raw_remove': 0.15}


def _cell_violations(w, where):
    out = []
    cell = w.m.cell
    members = cell.members()
    seen = {}
    for sname, srv in members.items():
        tot = [0.0] * len(srv.init_capacity)
        for aname, app in srv.apps.items():
            if aname in seen:
                out.append(('instance-on-two-servers', '%s: %s is listed on %s and %s' % (where, aname, seen[aname], sname)))
            seen[aname] = sname
            tot = [t + d for t, d in zip(tot, app.demand)]
            if app.server != sname:
                out.append(('views-disagree', '%s: server %s lists %s whose own server is %r' % (where, sname, aname, app.server)))
        # the capacity the scheduler works with is the one the server DECLARED (its record in the store), not merely
        # whatever the Server object happens to hold
        ent = w.b.d.get('/servers/' + sname)
        rec = ent[0] if isinstance(ent, tuple) else ent
        if isinstance(rec, dict) and 'memory' in rec and sname not in getattr(w, 'pending_deletes', ()):
            declared = [float(str(rec['memory']).rstrip('M')), float(str(rec['cpu']).rstrip('%')),
                        float(str(rec['disk']).rstrip('M'))]
            if [float(x) for x in srv.init_capacity] != declared:
                out.append(('capacity-differs-from-declared-record',
                            '%s: server %s works with capacity %r but its record declares %r'
                            % (where, sname, list(srv.init_capacity), declared)))
            if any(t > c for t, c in zip(tot, declared)):
                out.append(('oversubscribed', '%s: server %s summed demand %r exceeds declared capacity %r'
                            % (where, sname, tot, declared)))
        if any(t > c for t, c in zip(tot, srv.init_capacity)):
            out.append(('oversubscribed', '%s: server %s summed demand %r exceeds capacity %r'
                        % (where, sname, tot, list(srv.init_capacity))))
        if any(abs((c - t) - f) > 1e-9 for c, t, f in zip(srv.init_capacity, tot, srv.free_capacity)):
            out.append(('free-capacity-wrong', '%s: server %s free %r != capacity %r - demand %r'
                        % (where, sname, list(srv.free_capacity), list(srv.init_capacity), tot)))
    for aname, app in cell.apps.items():
        if app.server:
            if app.server not in members:
                out.append(('placed-on-missing-server', '%s: %s is placed on %r which is not in the cell' % (where, aname, app.server)))
            elif aname not in members[app.server].apps:
                out.append(('views-disagree', '%s: %s says server %s which does not list it' % (where, aname, app.server)))
    return out


def _published_violations(w, where):
    """The statement on what the master PUBLISHED (observe_at: /placement/<server>/<instance> nodes vs /servers/<server>
    and /scheduled/<instance>): after a cycle the instances recorded under a server fit its declared capacity and no
    instance is recorded under two servers. Records the master could not have reconciled are left out: a server that is
    being deleted behind the master's back, entries the delete API removed or left behind (C09's attributions)."""
    from .. import emaster
    out = []
    if where != 'after-cycle' or w.pending_deletes:
        return out
    ent = emaster.placement_entries(w.b.d)
    cell = w.m.cell
    by_app = {}
    by_srv = {}
    for (s, a) in ent:
        if s not in w.m.servers or a not in cell.apps or (s, a) in w.left_behind or (s, a) in w.api_deleted:
            continue
        by_app.setdefault(a, []).append(s)
        by_srv.setdefault(s, []).append(a)
    for a, ss in by_app.items():
        if len(ss) > 1:
            out.append(('published-on-two-servers', '%s: %s is recorded under %s' % (where, a, sorted(ss))))
    for s, apps in by_srv.items():
        rec = w.b.d.get('/servers/' + s)
        rec = rec[0] if isinstance(rec, tuple) else rec
        if not (isinstance(rec, dict) and 'memory' in rec):
            continue
        declared = [float(str(rec['memory']).rstrip('M')), float(str(rec['cpu']).rstrip('%')),
                    float(str(rec['disk']).rstrip('M'))]
        tot = [0.0, 0.0, 0.0]
        for a in apps:
            tot = [t + float(d) for t, d in zip(tot, cell.apps[a].demand)]
        if any(t > c for t, c in zip(tot, declared)):
            out.append(('published-oversubscribed',
                        '%s: the instances recorded under /placement/%s (%s) demand %r, its record declares %r'
                        % (where, s, ', '.join(sorted(apps)), tot, declared)))
    return out


def loader_stage(r, seed, n):
    from .. import emaster
    rng = random.Random(seed + 7)
    cycles = 0
    hits_total = 0
    for i in range(n):
        case = emaster.gen_case(rng, profile='c09')
        hits = []

        def hook(w, where, hits=hits):
            hits.extend(_cell_violations(w, where))
            hits.extend(_published_violations(w, where))
        try:
            res = emaster.run_history(case, crash_points=False, want=(), cell_hook=hook)
            cycles += res.get('stats', {}).get('cycles', 0) if isinstance(res, dict) else 0
        except Exception as exc:   # noqa
            r.broken_obligation('correspondence', 'C01 loader stage could not drive the master: %s: %s'
                                % (type(exc).__name__, str(exc)[:200]))
            break
        seen = set()
        for sig, what in hits:
            if sig in seen:
                continue
            seen.add(sig)
            hits_total += 1
            r.violation(sig, what, {'engine': 'E-master', 'case': case})
    return {'loader_stage': {'histories': n, 'master_cycles': cycles, 'violations': hits_total}}


def run(tier, seed):
    spec = E.make_spec(PID, PROFILE, 'C01 profile: capacity pressure (demands that fit one dimension but not another), '
                       'servers removed with and without their instances, re-added, resized by replacement; plus a '
                       'Loader-level stage: E-master histories on the real Master, C01 oracle on its cell after every cycle')
    from . import c01units
    spec['trusted'] = list(spec['trusted']) + list(c01units.TRUSTED)
    spec['assumptions'] = list(spec['assumptions']) + list(c01units.ASSUMPTIONS)
    spec['table_sections'] = list(spec['table_sections']) + list(c01units.SECTIONS)
    inner = spec['extra']

    def extra(r, cases, obs):
        cov = inner(r, cases, obs)
        cov.update(loader_stage(r, seed, 60 if tier == 'quick' else 3000))
        # unit spellings (1G = 1024M, 100% = 100): Codec/Units.v, Props/C01Units.v, harness/props/c01units.py
        from . import c01units
        u = c01units.stage(r, seed, tier)
        cov['extra_obligations'] = cov.get('extra_obligations', 0) + u.pop('units_obligations')
        cov.update(u)
        return cov
    spec['extra'] = extra
    spec = E.with_master_stage(spec, PID, tier, seed)
    core.standard_run(PID, tier, seed, spec)


def replay_case(case):
    if isinstance(case, dict) and case.get('engine') == 'E-units':
        from . import c01units
        return c01units.replay_case(case)
    if isinstance(case, dict) and case.get('engine') == 'E-master-probe':
        return E.replay(PID, case)
    if isinstance(case, dict) and case.get('engine') == 'E-master':
        from .. import emaster
        hits = []
        emaster.run_history(case['case'], crash_points=False, want=(),
                            cell_hook=lambda w, where: hits.extend(_cell_violations(w, where) + _published_violations(w, where)))
        return hits[0] if hits else None
    return E.replay(PID, case)
