"""C06: scheduling queue order (Sched/Queue.v, Props/C06.v) on E-cell histories with deep allocation trees."""
from .. import core
from . import _ecell_prop as E

PID = 'C06'
PROFILE = {'deep': 0.6, 'alloc': 0.9, 'maxutil': 0.35, 'prio0': 0.35, 'pressure': 0.5, 'failure': 0.2,
           'identity': 0.5, 'affinity': 0.2, 'many_allocs': 3, 'sparse_demand': 0.2, 'few_shapes': 0.3}


def run(tier, seed):
    spec = E.make_spec(PID, PROFILE, 'C06 profile: allocation paths up to depth 5, reservations, ranks, rank '
                       'adjustments, utilisation caps, priority-0 instances, running/pending mix',
                       table_sections=['sched_consts'])
    spec = E.with_master_stage(spec, PID, tier, seed)
    core.standard_run(PID, tier, seed, spec)


def replay_case(case):
    return E.replay(PID, case)
