"""C20, the stats the instance API's quota check reads: `/scheduled-stats` after a master start.

The quota theorems (Props/C20Quota.v) assume the stats are the master's aggregate of `/scheduled`. The master rewrites
the node in `process_scheduled`; a NEW leader must do so even when its model already equals the listing (load_model has
loaded every instance before the first watch event), otherwise instances created while no master was leading are never
counted. Oracle-only stage on E-master: instances are created behind the master's back (`ScheduleRaw`), the master is
restarted, and `/scheduled-stats` must equal the per-proid count of `/scheduled`."""
import random


def _expected(w):
    out = {}
    for name in w.b.list('/scheduled'):
        proid = name[:name.find('.')]
        out[proid] = out.get(proid, 0) + 1
    return out


def stage(r, seed, n):
    from .. import emaster
    rng = random.Random(seed + 2020)
    hits = 0
    restarts = 0
    for _ in range(n):
        case = emaster.gen_case(rng, profile='c11', max_ops=rng.choice([6, 10]))
        nid = 900
        extra = []
        for _k in range(rng.randint(1, 4)):
            extra.append(['ScheduleRaw', nid, emaster.gen_app(rng, [])])
            nid += 1
        case['ops'] = case['ops'] + extra + [['Restart'], ['Tick', 2], ['MasterCycle']]
        found = []

        def hook(w, where, found=found):
            if where != 'after-restart':
                return
            ent = w.b.d.get('/scheduled-stats')
            got = ent[0] if isinstance(ent, tuple) else ent
            exp = _expected(w)
            if (got or {}) != exp:
                found.append(('scheduled-stats-stale-after-master-start',
                              'after a master start /scheduled-stats holds %r, the scheduled instances are %r' % (got, exp)))
        try:
            emaster.run_history(case, crash_points=False, want=(), cell_hook=hook)
        except Exception as exc:   # noqa
            r.broken_obligation('correspondence', 'C20 stats stage could not drive the master: %s: %s'
                                % (type(exc).__name__, str(exc)[:200]))
            break
        restarts += sum(1 for o in case['ops'] if o[0] == 'Restart')
        if found:
            hits += 1
            r.violation(found[0][0], found[0][1], {'engine': 'E-master-c20stats', 'case': case})
    return {'scheduled_stats_stage': {'histories': n, 'restarts': restarts, 'violations': hits}}


def replay_case(case):
    from .. import emaster
    found = []

    def hook(w, where):
        if where == 'after-restart':
            ent = w.b.d.get('/scheduled-stats')
            got = ent[0] if isinstance(ent, tuple) else ent
            exp = _expected(w)
            if (got or {}) != exp:
                found.append(('scheduled-stats-stale-after-master-start',
                              'after a master start /scheduled-stats holds %r, the scheduled instances are %r' % (got, exp)))
    emaster.run_history(case['case'], crash_points=False, want=(), cell_hook=hook)
    return found[0] if found else None
