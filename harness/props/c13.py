"""C13: AppCfgMgr handlers, monitor.MonitorContainerCleanup, cleanup.Cleanup.invoke vs Node/AppCfg.v.

The REAL handlers run on a real temporary tree.  Replaced from outside: app_cfg.configure (a stub that
creates apps/<eventfile_unique_name> or fails), supervisor.control_svscan, app_abort.report_aborted and
runtime.get_runtime (recording stubs).  inotify is simulated by the harness as a FIFO queue of events,
one per change of the cache directory; delivery points, supervisor reactions (containers exiting),
cleanup completion and manager restarts are inputs (the op sequence)."""
import json
import os
import shutil
import sys
import tempfile

from .. import core, gallina as G

PID = 'C13'
ANCHORS = ['lib/python/treadmill/appcfgmgr.py', 'lib/python/treadmill/appcfg/__init__.py',
           'lib/python/treadmill/appcfg/configure.py', 'lib/python/treadmill/monitor.py',
           'lib/python/treadmill/cleanup.py']
PREAMBLE = ('From Coq Require Import ZArith List.\nImport ListNotations.\n'
            'From TM Require Import Node.AppCfg.\nOpen Scope Z_scope.\n')
RUN_FN = 'run_case'
READY = '.ready'
KINDS = ['exitinfo', 'aborted', 'oom']
INSTANCES = ['tm.web#0000000011', 'tm.web#0000000012', 'ab.db-x_y.z#0000000003']   # dash, underscore, dot in the app part


# ------------------------------------------------------------------ generator
def _scenario(rng, i):
    """op fragments aimed at the histories the property names"""
    s = rng.choice(['evict-replace', 'evict-replace', 'evict-replace-fast', 'terminate-restart', 'exit-resync', 'flip',
                    'late-event', 'fail', 'replace-while-down', 'finish-boot', 'finish-boot'])
    d = {'op': 'deliver'}
    if s == 'evict-replace':      # same instance evicted and placed again, old generation still in cleanup
        return [{'op': 'del', 'i': i}, d, {'op': 'put', 'i': i, 'ok': True}, d]
    if s == 'evict-replace-fast':   # evicted and placed again before the manager handles the first event
        return [{'op': 'put', 'i': i, 'ok': True}, {'op': 'del', 'i': i}, {'op': 'put', 'i': i, 'ok': True}, d, d, d]
    if s == 'replace-while-down':   # the manifest is replaced while the manager is down
        return [{'op': 'put', 'i': i, 'ok': True}, {'op': 'restart'}, {'op': 'ready_up'}, d]
    if s == 'finish-boot':          # node reboot: running/ and cleanup/ are cleared, finished containers remain in apps/
        return [rng.choice([{'op': 'exit', 'i': i, 'kind': rng.choice(KINDS)},
                            {'op': 'flag', 'i': i, 'g': rng.randint(0, 1), 'kind': rng.choice(KINDS)}]),
                {'op': 'boot'}, {'op': 'ready_up'}, d]
    if s == 'terminate-restart':
        return [{'op': 'del', 'i': i}, d, {'op': 'restart'}, {'op': 'ready_up'}, d]
    if s == 'exit-resync':
        return [{'op': 'exit', 'i': i, 'kind': rng.choice(KINDS)}, {'op': 'ready_down'}, d, {'op': 'ready_up'}, d]
    if s == 'flip':
        return [{'op': 'ready_down'}, d, {'op': 'ready_up'}, d]
    if s == 'late-event':         # the container ends between a resync and the delivery of a queued event
        return [{'op': 'ready_down'}, d, {'op': 'ready_up'}, {'op': 'put', 'i': i, 'ok': True}, d,
                {'op': 'exit', 'i': i, 'kind': rng.choice(KINDS)}, d]
    return [{'op': 'put', 'i': i, 'ok': False}, d, d]


def gen_case(rng, idx):
    n = rng.choice([1, 2, 2, 3])
    ops = []
    if rng.random() < 0.8:
        ops += [{'op': 'ready_up'}, {'op': 'deliver'}]
    puts = {i: 0 for i in range(n)}
    target = rng.randint(6, 22)
    while len(ops) < target:
        c = rng.random()
        i = rng.randrange(n)
        if c < 0.16:
            ops.append({'op': 'put', 'i': i, 'ok': rng.random() < 0.9})
        elif c < 0.24:
            ops.append({'op': 'del', 'i': i})
        elif c < 0.50:
            ops.append({'op': 'deliver'})
        elif c < 0.56:
            ops.append({'op': 'ready_up', 'via': rng.choice(['created', 'modified'])})
        elif c < 0.60:
            ops.append({'op': 'ready_down'})
        elif c < 0.66:
            ops.append({'op': 'exit', 'i': i, 'kind': rng.choice(KINDS)})
        elif c < 0.69:
            ops.append({'op': 'flag', 'i': i, 'g': rng.randint(0, 2), 'kind': rng.choice(KINDS)})
        elif c < 0.74:
            ops.append({'op': 'cleanup', 'l': rng.choice([['inst', i], ['cont', i, rng.randint(0, 2)]])})
        elif c < 0.77:
            ops.append({'op': 'restart'})
        elif c < 0.78:
            ops.append({'op': 'boot'})
        elif c < 0.80:
            ops.append({'op': 'dot', 'created': rng.random() < 0.5})
        else:
            ops += _scenario(rng, i)
    for o in ops:
        if o['op'] == 'put':
            puts[o['i']] += 1
    return {'n': n, 'ops': ops[:26]}


# ------------------------------------------------------------------ implementation
_IMPL = None


def impl():
    global _IMPL
    if _IMPL is None:
        import logging
        logging.disable(logging.CRITICAL)
        sys.path.insert(0, core.PYLIB)
        from treadmill import appcfgmgr, appcfg, supervisor, monitor, cleanup, fs, exc
        from treadmill import runtime as app_runtime
        from treadmill.appcfg import configure as app_cfg
        from treadmill.appcfg import abort as app_abort
        _IMPL = dict(appcfgmgr=appcfgmgr, appcfg=appcfg, supervisor=supervisor, monitor=monitor, cleanup=cleanup,
                     fs=fs, exc=exc, app_runtime=app_runtime, app_cfg=app_cfg, app_abort=app_abort)
    return _IMPL


class _Runtime:
    def __init__(self, container_dir):
        self.container_dir = container_dir

    def finish(self):
        shutil.rmtree(self.container_dir)


class Node:
    """One node: real AppCfgMgr + simulated inotify queue + stubs; all real functions restored by close()."""

    def __init__(self, n):
        m = impl()
        self.m = m
        self.root = tempfile.mkdtemp(prefix='c13-', dir=core.scratch())
        self.n = n
        self.queue = []
        self.fds = []
        self.cont_of_name = {}        # container unique name -> (i, fid)
        self.name_of_cont = {}
        self.gens = {i: [] for i in range(n)}     # instance -> [fid of the g-th put]
        self.oc, self.oi = [], []
        self.saved = dict(configure=m['app_cfg'].configure, svscan=m['supervisor'].control_svscan,
                          report=m['app_abort'].report_aborted, get_runtime=m['app_runtime'].get_runtime,
                          rm_safe=m['fs'].rm_safe, app_name=m['appcfg'].app_name,
                          eun=m['appcfg'].eventfile_unique_name)
        real_eun, real_app_name, real_rm = self.saved['eun'], self.saved['app_name'], self.saved['rm_safe']
        node = self

        def configure(tm_env, event, _runtime, _param=None):
            if not os.path.exists(event):
                return None
            with open(event) as f:
                content = f.read()
            if content.startswith('bad'):
                raise (m['exc'].ContainerSetupError('stub') if content == 'bad1' else ValueError('stub'))
            d = os.path.join(tm_env.apps_dir, real_eun(event))
            os.makedirs(os.path.join(d, 'data'), exist_ok=True)
            return d

        def eun(path):
            r = real_eun(path)
            node.oi.append(os.path.basename(path))
            return r

        def app_name(container):
            node.oc.append(container)
            return real_app_name(container)

        def rm_safe(path):
            existed = os.path.lexists(path)
            real_rm(path)
            if existed and os.path.dirname(path) == node.env.cache_dir and not os.path.basename(path).startswith('.'):
                node.queue.append(['deleted', os.path.basename(path)])
        m['app_cfg'].configure = configure
        m['supervisor'].control_svscan = lambda *a, **k: None
        m['app_abort'].report_aborted = lambda *a, **k: None
        m['app_runtime'].get_runtime = lambda _rt, _env, cdir, _param=None: _Runtime(cdir)
        m['fs'].rm_safe = rm_safe
        m['appcfg'].app_name = app_name
        m['appcfg'].eventfile_unique_name = eun
        self.real_eun = real_eun
        self.mgr = m['appcfgmgr'].AppCfgMgr(self.root, 'linux')
        self.env = self.mgr.tm_env
        for d in (self.env.cache_dir, self.env.apps_dir, self.env.running_dir, self.env.cleanup_dir):
            os.makedirs(d, exist_ok=True)

    def close(self):
        m, s = self.m, self.saved
        m['app_cfg'].configure, m['supervisor'].control_svscan = s['configure'], s['svscan']
        m['app_abort'].report_aborted, m['app_runtime'].get_runtime = s['report'], s['get_runtime']
        m['fs'].rm_safe, m['appcfg'].app_name, m['appcfg'].eventfile_unique_name = s['rm_safe'], s['app_name'], s['eun']
        for fd in self.fds:
            os.close(fd)
        shutil.rmtree(self.root, ignore_errors=True)

    # -- the environment's actions
    def put(self, i, ok):
        name = INSTANCES[i]
        path = os.path.join(self.env.cache_dir, name)
        tmp = os.path.join(self.env.cache_dir, '.%s-harness' % name)
        with open(tmp, 'w') as f:
            f.write('good' if ok else ('bad1' if len(self.gens[i]) % 2 else 'bad2'))
        self.fds.append(os.open(tmp, os.O_RDONLY))     # keeps the inode allocated: no inode reuse within a case
        os.replace(tmp, path)
        uname = self.real_eun(path)
        if uname not in self.cont_of_name:
            fid = len(self.cont_of_name)
            self.cont_of_name[uname] = (i, fid)
            self.name_of_cont[(i, fid)] = uname
        fid = self.cont_of_name[uname][1]
        self.gens[i].append(fid)
        self.queue.append(['created', name])
        return fid

    def gen_cont(self, i, g):
        if i < self.n and g < len(self.gens[i]):
            return (i, self.gens[i][g])
        return None

    def apply(self, op):
        """returns the model op (a dict) this implementation step corresponds to"""
        env, k = self.env, op['op']
        if k == 'put':
            fid = self.put(op['i'], op['ok'])
            return {'m': 'CachePut', 'i': op['i'], 'f': fid, 'ok': op['ok']}
        if k == 'del':
            path = os.path.join(env.cache_dir, INSTANCES[op['i']])
            if os.path.exists(path):
                os.unlink(path)
                self.queue.append(['deleted', INSTANCES[op['i']]])
            return {'m': 'CacheDel', 'i': op['i']}
        if k == 'ready_up':
            with open(os.path.join(env.cache_dir, READY), 'w'):
                pass
            self.queue.append(['ready_up', op.get('via', 'created')])
            return {'m': 'ReadyUp'}
        if k == 'ready_down':
            self.saved['rm_safe'](os.path.join(env.cache_dir, READY))
            self.queue.append(['ready_down', ''])
            return {'m': 'ReadyDown'}
        if k == 'dot':
            self.queue.append(['dot', bool(op['created'])])
            return {'m': 'DotFile', 'b': bool(op['created'])}
        if k == 'restart':
            self.mgr = self.m['appcfgmgr'].AppCfgMgr(self.root, 'linux')
            self.queue = []
            return {'m': 'Restart'}
        if k == 'boot':
            for d in (env.running_dir, env.cleanup_dir):
                for name in os.listdir(d):
                    os.unlink(os.path.join(d, name))
            self.mgr = self.m['appcfgmgr'].AppCfgMgr(self.root, 'linux')
            self.queue = []
            return {'m': 'Boot'}
        if k == 'exit':
            name = INSTANCES[op['i']]
            link = os.path.join(env.running_dir, name)
            if os.path.islink(link):
                data = os.path.join(os.readlink(link), 'data')
                if os.path.isdir(data):
                    with open(os.path.join(data, op['kind']), 'w') as f:
                        f.write('{}')
            self.m['monitor'].MonitorContainerCleanup(env, {}).execute({'id': name, 'signal': 0})
            return {'m': 'Exit', 'i': op['i'], 'k': op['kind']}
        if k == 'flag':
            c = self.gen_cont(op['i'], op['g'])
            if c is None:
                return {'m': 'Flag', 'c': (op['i'], 99), 'k': op['kind']}
            data = os.path.join(env.apps_dir, self.name_of_cont[c], 'data')
            if os.path.isdir(data):
                with open(os.path.join(data, op['kind']), 'w') as f:
                    f.write('{}')
            return {'m': 'Flag', 'c': c, 'k': op['kind']}
        if k == 'cleanup':
            l = op['l']
            if l[0] == 'inst':
                lname, ml = INSTANCES[l[1]], ('inst', l[1])
            else:
                c = self.gen_cont(l[1], l[2])
                if c is None:
                    return {'m': 'CleanupDone', 'l': ('cont', (l[1], 99))}
                lname, ml = self.name_of_cont[c], ('cont', c)
            self.m['cleanup'].Cleanup(env).invoke('linux', lname)
            return {'m': 'CleanupDone', 'l': ml}
        if k == 'deliver':
            self.oc, self.oi = [], []
            if self.queue:
                ev, arg = self.queue.pop(0)
                mgr, cache = self.mgr, env.cache_dir
                if ev == 'created':
                    mgr._on_created(os.path.join(cache, arg))
                elif ev == 'deleted':
                    mgr._on_deleted(os.path.join(cache, arg))
                elif ev == 'ready_up':
                    (mgr._on_modified if arg == 'modified' else mgr._on_created)(os.path.join(cache, READY))
                elif ev == 'ready_down':
                    mgr._on_deleted(os.path.join(cache, READY))
                else:
                    tmpname = os.path.join(cache, '.%s-a1b2c3d4' % INSTANCES[0])
                    (mgr._on_created if arg else mgr._on_deleted)(tmpname)
            oc = [self.cont_of_name.get(c, (-1, -1)) for c in self.oc]
            oi = [INSTANCES.index(x) for x in self.oi if x in INSTANCES]
            return {'m': 'Deliver', 'oc': oc, 'oi': oi}
        raise ValueError(k)

    # -- observation
    def _target(self, path):
        return self.cont_of_name.get(os.path.basename(os.readlink(path)), (-1, -1))

    def observe(self):
        env = self.env
        cache = {}
        for name in os.listdir(env.cache_dir):
            if name in INSTANCES:
                p = os.path.join(env.cache_dir, name)
                with open(p) as f:
                    ok = f.read() == 'good'
                cache[str(INSTANCES.index(name))] = [self.cont_of_name.get(self.real_eun(p), (-1, -1))[1], ok]
        apps = {}
        for name in os.listdir(env.apps_dir):
            c = self.cont_of_name.get(name, (-1, -1))
            data = os.path.join(env.apps_dir, name, 'data')
            apps['%d,%d' % c] = [os.path.exists(os.path.join(data, k)) for k in KINDS]
        running = {}
        for name in os.listdir(env.running_dir):
            i = INSTANCES.index(name) if name in INSTANCES else -1
            running[str(i)] = list(self._target(os.path.join(env.running_dir, name)))
        cleanup = {}
        for name in os.listdir(env.cleanup_dir):
            if name in INSTANCES:
                key = 'i%d' % INSTANCES.index(name)
            elif name in self.cont_of_name:
                key = 'c%d,%d' % self.cont_of_name[name]
            else:
                key = '?' + name
            cleanup[key] = list(self._target(os.path.join(env.cleanup_dir, name)))
        return {'active': bool(self.mgr._is_active), 'cache': cache, 'apps': apps, 'running': running,
                'cleanup': cleanup, 'queue': [list(e) for e in self.queue]}


def impl_run(case):
    node = Node(case['n'])
    try:
        mops, obs, err = [], [], None
        for op in case['ops']:
            try:
                mops.append(node.apply(op))
            except Exception as e:      # pylint: disable=broad-except
                err = '%s at op %d (%s): %s' % (type(e).__name__, len(mops), op['op'], e)
                break
            obs.append(node.observe())
        conts = sorted(node.name_of_cont)
        return {'mops': mops, 'obs': obs, 'error': err, 'conts': [list(c) for c in conts]}
    finally:
        node.close()


# ------------------------------------------------------------------ oracle (the statement, on implementation traces)
EMPTY = {'active': False, 'cache': {}, 'apps': {}, 'running': {}, 'cleanup': {}, 'queue': []}


def _links(o):
    """container key 'i,f' -> list of link descriptions"""
    out = {}
    for i, c in o['running'].items():
        out.setdefault('%d,%d' % tuple(c), []).append('running/' + i)
    for k, c in o['cleanup'].items():
        out.setdefault('%d,%d' % tuple(c), []).append('cleanup/' + k)
    return out


def _flagged(o, ck):
    return ck in o['apps'] and any(o['apps'][ck])


def oracle(case, res):
    out = []
    if res['error']:
        out.append(('handler-raised', res['error']))
    pre = EMPTY
    finished = set()
    made_by = {}          # cleanup link -> what created it (the known double link pairs _terminate's container-named link
                          # with the instance-named one of _synchronize / the monitor; any other origin is something else)
    for t, (mop, post) in enumerate(zip(res['mops'], res['obs'])):
        where = 'after op %d (%s)' % (t, case['ops'][t]['op'])
        lpre, lpost = _links(pre), _links(post)
        by = case['ops'][t]['op']
        if mop['m'] == 'Deliver' and pre['queue']:
            by = {'created': '_on_created', 'deleted': '_on_deleted', 'ready_up': '_first_sync',
                  'ready_down': '_on_deleted', 'dot': 'dot-event'}[pre['queue'][0][0]]
            if pre['queue'][0][0] == 'ready_up' and not pre['active']:
                by = '_synchronize'
        for ck, ls in lpost.items():
            for l in ls:
                if l.startswith('cleanup/') and l not in lpre.get(ck, []):
                    made_by[l] = by
        # P1: at most one link per container
        for ck, ls in sorted(lpost.items()):
            if len(ls) > 1 and len(lpre.get(ck, [])) <= 1:
                kinds = sorted(l.split('/')[0] + '/' + l.split('/')[1][0] for l in ls)
                if kinds == ['cleanup/c', 'cleanup/i']:
                    sig = 'two-cleanup-links-container-name-vs-instance-name'
                    cl = [l for l in ls if l.startswith('cleanup/c')][0]
                    if made_by.get(cl) not in (None, '_on_deleted', 'del', '_synchronize', '_first_sync'):   # callers of _terminate
                        sig += ':container-named-link-made-by-' + str(made_by.get(cl))
                elif any(l.startswith('running/') for l in ls):
                    sig = 'container-running-and-in-cleanup:by-' + by
                else:
                    sig = 'container-with-several-links'
                out.append((sig, 'container %s is referenced by %r %s' % (ck, sorted(ls), where)))
        is_handler = mop['m'] == 'Deliver' and len(pre['queue']) > 0
        ev = pre['queue'][0] if is_handler else None
        is_sync = is_handler and ev[0] == 'ready_up' and not pre['active']
        if is_sync:
            # P2: running links == cached manifests that can be configured
            for i, (fid, ok) in sorted(pre['cache'].items()):
                ck = '%d,%d' % (int(i), fid)
                should = ok and not _flagged(pre, ck) and not any(l.startswith('cleanup/') for l in lpre.get(ck, []))
                now = post['running'].get(i)
                if should and now != [int(i), fid]:
                    older = any(k.split(',')[0] == i and k != ck for k in pre['apps'])
                    pending = any(e[0] == 'created' and e[1] == INSTANCES[int(i)] for e in post['queue'])
                    out.append(('sync-leaves-configurable-cached-instance-not-running'
                                + (':another-generation-present' if older else '')
                                + (':created-event-pending' if pending else ':no-event-pending'),
                                'instance %s (container %s) is cached and configurable but running/%s = %r %s'
                                % (i, ck, i, now, where)))
            for i, c in sorted(post['running'].items()):
                cached = pre['cache'].get(i)
                if cached is None or cached[0] != c[1] or not cached[1]:
                    out.append(('sync-leaves-running-link-without-matching-cache-entry',
                                'running/%s -> %r but cache entry is %r %s' % (i, c, cached, where)))
        if is_handler:
            # P3: a running container whose cache entry disappeared is handed to cleanup
            cands = []
            if is_sync:
                cands = list(pre['running'].items())
            elif ev[0] == 'deleted' and pre['active'] and ev[1] in INSTANCES:
                i = str(INSTANCES.index(ev[1]))
                if i in pre['running']:
                    cands = [(i, pre['running'][i])]
            for i, c in cands:
                ck = '%d,%d' % tuple(c)
                cached = pre['cache'].get(i)
                if ck in pre['apps'] and (cached is None or cached[0] != c[1]):
                    ls = lpost.get(ck, [])
                    if any(l.startswith('running/') for l in ls) or not any(l.startswith('cleanup/') for l in ls):
                        out.append(('uncached-container-not-handed-to-cleanup',
                                    'container %s lost its cache entry but its links are %r %s' % (ck, ls, where)))
            # a handler never drops a running container without handing it to cleanup
            for i, c in sorted(pre['running'].items()):
                ck = '%d,%d' % tuple(c)
                if ck in post['apps'] and not lpost.get(ck):
                    out.append(('running-container-dropped-without-cleanup:by-' + by,
                                'running/%s -> %s is gone and the container has no link %s' % (i, ck, where)))
            # P4: a finished / aborted / oom container is never started again
            for i, c in sorted(post['running'].items()):
                if pre['running'].get(i) != c:
                    ck = '%d,%d' % tuple(c)
                    if _flagged(pre, ck):
                        out.append(('finished-container-started-again:by-' + by,
                                    'running/%s -> %s created although the container has a finish flag %s' % (i, ck, where)))
                    elif ck in finished and ck not in pre['apps']:
                        out.append(('finished-container-recreated-after-cleanup:by-' + by,
                                    'running/%s -> %s: same container name as one that finished and was cleaned up %s'
                                    % (i, ck, where)))
            # P5: an unchanged running container is left running
            for i, c in sorted(pre['running'].items()):
                ck = '%d,%d' % tuple(c)
                cached = pre['cache'].get(i)
                if ck in pre['apps'] and not _flagged(pre, ck) and cached is not None and cached[0] == c[1] \
                        and cached[1] and post['running'].get(i) != c:
                    other = any(k.split(',')[0] == i and k != ck for k in pre['apps'])
                    out.append(('unchanged-running-container-stopped:by-' + by
                                + (':another-generation-present' if other else ''),
                                'running/%s -> %s with unchanged manifest is gone (now %r) %s'
                                % (i, ck, post['running'].get(i), where)))
        if out:
            break       # later steps start from a state that already violates the property: report root causes only
        for ck in post['apps']:
            if _flagged(post, ck):
                finished.add(ck)
        pre = post
    # one report per signature (the earliest)
    seen, uniq = set(), []
    for sig, what in out:
        if sig not in seen:
            seen.add(sig)
            uniq.append((sig, what))
    return uniq or None


# ------------------------------------------------------------------ model terms / flattening
def _zc(c):
    return G.pair(G.z(c[0]), G.z(c[1]))


KCON = {'exitinfo': 'KExit', 'aborted': 'KAborted', 'oom': 'KOom'}


def t_op(m):
    k = m['m']
    if k == 'CachePut':
        return '(CachePut %s %s %s)' % (G.z(m['i']), G.z(m['f']), G.b(m['ok']))
    if k == 'CacheDel':
        return '(CacheDel %s)' % G.z(m['i'])
    if k in ('ReadyUp', 'ReadyDown', 'Restart', 'Boot'):
        return k
    if k == 'DotFile':
        return '(DotFile %s)' % G.b(m['b'])
    if k == 'Deliver':
        return '(Deliver %s %s)' % (G.lst([_zc(c) for c in m['oc']]), G.zlist(m['oi']))
    if k == 'Exit':
        return '(Exit %s %s)' % (G.z(m['i']), KCON[m['k']])
    if k == 'Flag':
        return '(Flag %s %s)' % (_zc(m['c']), KCON[m['k']])
    if k == 'CleanupDone':
        l = m['l']
        return '(CleanupDone %s)' % ('(LInst %s)' % G.z(l[1]) if l[0] == 'inst' else '(LCont %s)' % _zc(l[1]))
    raise ValueError(k)


def case_term(case, res):
    return G.pair(G.lst([t_op(m) for m in res['mops']]), G.zlist(range(case['n'])),
                  G.lst([_zc(c) for c in res['conts']]))


def _fc(c):
    return [0] if c is None else [1, c[0], c[1]]


def flat_obs(case, res, o):
    insts = list(range(case['n']))
    conts = [tuple(c) for c in res['conts']]
    out = [int(o['active']), len(o['cache']), len(o['apps']), len(o['running']), len(o['cleanup']), len(o['queue'])]
    for i in insts:
        c = o['cache'].get(str(i))
        out += [0] if c is None else [1, c[0], int(c[1])]
    for i in insts:
        out += _fc(o['running'].get(str(i)))
    for i in insts:
        out += _fc(o['cleanup'].get('i%d' % i))
    for c in conts:
        out += _fc(o['cleanup'].get('c%d,%d' % c))
    for c in conts:
        f = o['apps'].get('%d,%d' % c)
        out += [0] if f is None else [1] + [int(x) for x in f]
    for ev, arg in o['queue']:
        if ev == 'created':
            out += [1, INSTANCES.index(arg)]
        elif ev == 'deleted':
            out += [2, INSTANCES.index(arg)]
        elif ev == 'ready_up':
            out += [3]
        elif ev == 'ready_down':
            out += [4]
        else:
            out += [5, int(bool(arg))]
    return out


def expected(case, res):
    out = []
    for o in res['obs']:
        out += flat_obs(case, res, o)
    return out


def nontrivial(case, res):
    """two generations of one instance coexist in apps/ at some point, or a container exits, or a restart happens
    while something is configured"""
    for o in res['obs']:
        by = {}
        for k in o['apps']:
            by.setdefault(k.split(',')[0], []).append(k)
        if any(len(v) > 1 for v in by.values()):
            return True
    return any(m['m'] in ('Exit', 'Restart', 'Boot') for m in res['mops']) and any(o['running'] for o in res['obs'])


def _extra(_r, cases, obs):
    dist = {'ops': {}, 'syncs': 0, 'two_generations_cases': 0, 'handler_errors': 0}
    for c, r in zip(cases, obs):
        for op in c['ops']:
            dist['ops'][op['op']] = dist['ops'].get(op['op'], 0) + 1
        pre = EMPTY
        two = False
        for m, o in zip(r['mops'], r['obs']):
            if m['m'] == 'Deliver' and pre['queue'] and pre['queue'][0][0] == 'ready_up' and not pre['active']:
                dist['syncs'] += 1
            by = {}
            for k in o['apps']:
                by.setdefault(k.split(',')[0], []).append(k)
            two = two or any(len(v) > 1 for v in by.values())
            pre = o
        dist['two_generations_cases'] += two
        dist['handler_errors'] += bool(r['error'])
    return {'distribution': dist}


TRUSTED = [
    'Coq 8.16.1 kernel (coqc); vm_compute for the refutation witnesses and the Example; no native_compute',
    'Print Assumptions: closed under the global context for every theorem of Props/C13.v',
    'hand-written model Node/AppCfg.v of the AppCfgMgr handlers (after the repairs of _synchronize, _on_deleted, '
    '_on_created), MonitorContainerCleanup.execute and Cleanup.invoke, '
    'tied by differential execution (cases.v + vm_compute) after every op, with the set/dict iteration orders of '
    '_synchronize recorded from the implementation and fed to the model',
    'modelled, not verified: symlink/rename/readlink/exists semantics of the directories (finite maps; os.path.exists '
    'follows the link, islink does not; rename replaces the destination); a container name is (instance, cache file id): '
    'gen_uniqueid is assumed to give distinct ids to distinct cache files of one instance (inode+ctime; tied under C15); '
    'one handler call is atomic w.r.t. the other actors',
    'harness: inotify is simulated as a FIFO queue (one event per cache change; created for rename-over, as '
    'linux_dirwatch maps IN_MOVED_TO); app_cfg.configure, supervisor.control_svscan, app_abort.report_aborted and '
    'runtime.get_runtime are stubs; supervisor reaction (a container exiting) and delivery points are inputs',
]
ASSUMPTIONS = [
    'distinct cache files of one instance get distinct container names (the harness keeps inodes allocated within a case)',
    'instance names have the form <proid>.<app>#<10 digits> (what gen_uniqueid/app_name parse)',
    'no other process changes running/, cleanup/ or apps/ during a handler call',
]


def run(tier, seed):
    def extra(r, cases, obs):
        cov = _extra(r, cases, obs)
        from . import c13names     # container names recomputed by separate interpreter processes (real restarts)
        cov.update(c13names.stage(r, seed, 40 if tier == 'quick' else 400))
        return cov
    core.standard_run(PID, tier, seed, {
        'model_vos': ['Node/AppCfg'], 'table_sections': ['source_shape'],
        'preamble': PREAMBLE, 'run_fn': RUN_FN, 'in_type': 'list op * list inst * list cont',
        'gen_case': gen_case, 'impl_run': impl_run, 'expected': lambda c, r: expected(c, r),
        'case_term': case_term, 'oracle': oracle, 'nontrivial': nontrivial,
        'n_quick': 600, 'n_thorough': 20000, 'search_quick': 3000, 'search_thorough': 60000,
        'shard': 100, 'corpus': 'c13.json',
        'rule': 'seeded generator: 1-3 instances, 6-26 ops drawn from cache put (configurable or not) / delete, .ready '
                'up/down, dot-file events, deliver, container exit (exitinfo/aborted/oom + monitor cleanup), flag files, '
                'cleanup completion by instance or container name, manager restart, node boot (running/ and cleanup/ cleared), plus scenario fragments '
                '(evict+re-place, terminate+restart+resync, exit+resync, late event); non-trivial = two generations of '
                'one instance coexist in apps/, or an exit/restart happens while something runs',
        'trusted': TRUSTED, 'assumptions': ASSUMPTIONS, 'anchors': ANCHORS, 'extra': extra,
    })


def replay_case(case):
    if isinstance(case, dict) and case.get('engine') == 'E-node-c13names':
        from . import c13names
        return c13names.replay_case(case)
    v = oracle(case, impl_run(case))
    return v[0] if v else None
