"""Second stage of C17 (Node/EpPresence.v, Node/EpPresenceP.v): hostname ownership in presence.EndpointPresence and
placement ownership in trace.app.zk._unschedule.

Operation lists (two or three hosts - one host name a prefix of another -, successive containers of one instance, sessions
that expire, an administrator's session, the master placing / moving / scheduling the instance, stale events, leftover
nodes holding nothing / somebody else's name / a bare host name / more fields) are played on the REAL
EndpointPresence.register_* / unregister_* and the REAL trace.app.zk._unschedule over the in-memory ZooKeeper of c17.py.
Two things are decided on them:

* correspondence: outcome of every call and the whole node table after every operation must equal what the model
  `ep_case` computes from the same operations (the theorems C17_ep_* are about that model);
* oracle: the three statements of this level, from the node table before and after each call and the harness's own record
  of who registered what and where the instance is placed (neither reads the model).
"""
import json
import random
import sys

from .. import core, gallina as G
from . import c17

ENGINE = 'E-eppresence'
PREAMBLE = ('From Coq Require Import ZArith List.\nImport ListNotations.\nOpen Scope Z_scope.\n'
            'From TM Require Import Node.EpPresence.\n')
RUN_FN = 'ep_case'
IN_TYPE = 'table * list op'
MODEL_VOS = ['Node/EpPresence']
HOST_SETS = [['nodea', 'nodeb'], ['nodea', 'nodeb', 'nodea1'], ['nodea', 'nodea1'], ['n', 'n1', 'nodeb']]
APPS = ['proid.web#0000000012', 'proid.web#0000000013']
GROUP = 'proid.ig'
PROTO = {'tcp': 1, 'udp': 2}
ADMIN = 200
REG = ('reg_running', 'reg_endpoints', 'reg_identity')
UNREG = ('unreg_running', 'unreg_endpoints', 'unreg_identity')

_IMPL = None


def impl():
    global _IMPL
    if _IMPL is None:
        c17.impl()                                   # sys.path, logging off, kazoo
        from treadmill import presence, exc, zknamespace as z
        from treadmill.trace.app import zk as tracezk
        import kazoo.client                          # noqa  (presence.py names kazoo.client.NodeExistsError)
        _IMPL = {'presence': presence, 'exc': exc, 'z': z, 'tracezk': tracezk, 'kz': kazoo.exceptions}
    return _IMPL


class EpClient(c17.Client):
    """the kazoo look-alike of c17.py without the scheduler: a call runs to completion"""

    def _yield(self):
        if not self.alive:
            raise c17._Expired()


# ------------------------------------------------------------------ paths
def real_path(desc):
    z = impl()['z']
    k = desc[0]
    if k == 'running':
        return z.path.running(desc[1])
    if k == 'endpoint':
        return z.path.endpoint(desc[1], desc[2], desc[3])
    if k == 'identity':
        return z.path.identity_group(desc[1], str(desc[2]))
    if k == 'placement':
        return z.path.placement(desc[1], desc[2])
    if k == 'scheduled':
        return z.path.scheduled(desc[1])
    return '/other/%s' % desc[1]


def parse_path(path):
    """real path string -> descriptor (the inverse of the zknamespace functions, written from the path layout)"""
    parts = path.split('/')
    if parts[1] == 'running' and len(parts) == 3:
        return ['running', parts[2]]
    if parts[1] == 'endpoints' and len(parts) == 4:
        rest, proto, name = parts[3].split(':', 2)
        return ['endpoint', parts[2] + '.' + rest, proto, name]
    if parts[1] == 'identity-groups' and len(parts) == 4:
        return ['identity', parts[2], int(parts[3])]
    if parts[1] == 'placement' and len(parts) == 4:
        return ['placement', parts[2], parts[3]]
    if parts[1] == 'scheduled' and len(parts) == 3:
        return ['scheduled', parts[2]]
    return ['other', parts[-1]]


class Codes:
    """Z codes of instance names, endpoint names, groups: fixed tables (everything a case can mention)"""
    NAMES = ['', 'http', 'ssh', '8000', '22', '53']

    @staticmethod
    def app(a):
        return 12 + APPS.index(a)

    @classmethod
    def name(cls, n):
        return cls.NAMES.index(n)

    @staticmethod
    def group(g):
        assert g == GROUP
        return 1

    @classmethod
    def path_flat(cls, desc):
        k = desc[0]
        if k == 'running':
            return [1, cls.app(desc[1])]
        if k == 'endpoint':
            return [2, cls.app(desc[1]), PROTO[desc[2]], cls.name(desc[3])]
        if k == 'identity':
            return [3, cls.group(desc[1]), int(desc[2])]
        if k == 'placement':
            h = list(desc[1].encode())
            return [4, cls.app(desc[2]), len(h)] + h
        if k == 'scheduled':
            return [5, cls.app(desc[1])]
        return [6, int(desc[1])]

    @classmethod
    def path_term(cls, desc):
        k = desc[0]
        if k == 'running':
            return '(PRunning %s)' % G.z(cls.app(desc[1]))
        if k == 'endpoint':
            return '(PEndpoint %s %s %s)' % (G.z(cls.app(desc[1])), G.z(PROTO[desc[2]]), G.z(cls.name(desc[3])))
        if k == 'identity':
            return '(PIdentity %s %s)' % (G.z(cls.group(desc[1])), G.z(int(desc[2])))
        if k == 'placement':
            return '(PPlacement %s %s)' % (G.bytes_as_zlist(desc[1]), G.z(cls.app(desc[2])))
        if k == 'scheduled':
            return '(PScheduled %s)' % G.z(cls.app(desc[1]))
        return '(POther %s)' % G.z(int(desc[1]))


def parse_payload(data):
    """bytes -> ('ident', host, app) for the JSON object written by register_identity, else ('text', bytes)"""
    try:
        obj = json.loads(data.decode())
    except ValueError:
        obj = None
    if isinstance(obj, dict) and sorted(obj) == ['app', 'host'] and isinstance(obj['host'], str) \
            and obj['app'] in APPS:
        return ('ident', obj['host'], obj['app'])
    return ('text', data)


def payload_flat(data):
    p = parse_payload(data)
    if p[0] == 'ident':
        h = list(p[1].encode())
        return [1, Codes.app(p[2]), len(h)] + h
    return [0, len(data)] + list(data)


def payload_term(data):
    p = parse_payload(data)
    if p[0] == 'ident':
        return '(DIdent %s %s)' % (G.bytes_as_zlist(p[1]), G.z(Codes.app(p[2])))
    return '(DText %s)' % G.bytes_as_zlist(data)


# ------------------------------------------------------------------ manifests
def ep_fields(ep):
    """(proto, name) as BOTH register_endpoints and unregister_endpoints default them"""
    return ep.get('proto', 'tcp'), ep.get('name', str(ep.get('port', '')))


def target_paths(kind, app, manifest):
    """the paths an (un)register call is about, written from the statement: running node of the instance, the endpoint
    nodes of the manifest, the identity node"""
    if kind.endswith('running'):
        return [real_path(['running', app])]
    if kind.endswith('endpoints'):
        out = []
        for ep in manifest.get('endpoints', []):
            proto, name = ep_fields(ep)
            if not name and kind.startswith('unreg'):
                break                                     # "Logic error, no endpoint info": the loop returns
            out.append(real_path(['endpoint', app, proto, name]))
        return out
    if not manifest.get('identity_group'):
        return []
    return [real_path(['identity', manifest['identity_group'], manifest.get('identity', sys.maxsize)])]


def manifest_term(app, manifest):
    eps = []
    for ep in manifest.get('endpoints', []):
        proto, name = ep_fields(ep)
        eps.append('{| ep_proto := %s; ep_name := %s; ep_port := %s |}'
                   % (G.z(PROTO[proto]), G.z(Codes.name(name)), G.bytes_as_zlist(str(ep['real_port']))))
    if manifest.get('identity_group'):
        ident = '(Some (%s, %s))' % (G.z(Codes.group(manifest['identity_group'])),
                                      G.z(manifest.get('identity', sys.maxsize)))
    else:
        ident = 'None'
    return '{| m_app := %s; m_eps := %s; m_ident := %s |}' % (G.z(Codes.app(app)), G.lst(eps), ident)


def agent_term(host, sess):
    return '{| a_host := %s; a_sess := %s |}' % (G.bytes_as_zlist(host), G.z(sess))


# ------------------------------------------------------------------ generator
def _manifest(rng, k):
    eps = []
    for name, port in (('http', 8000), ('ssh', 22)):
        if rng.random() < 0.65:
            ep = {'name': name, 'port': port, 'real_port': 5000 + rng.randint(0, 2)}
            r = rng.random()
            if r < 0.07:
                ep['name'] = ''                          # unregister_endpoints stops here
            elif r < 0.17:
                del ep['name']                           # defaults to str(port)
            if rng.random() < 0.1:
                ep['proto'] = 'udp'
            elif rng.random() < 0.5:
                ep['proto'] = 'tcp'
            eps.append(ep)
    if eps and rng.random() < 0.06:
        eps.append(dict(eps[0], real_port=5003))         # the same endpoint twice: the second create cannot succeed
    m = {'endpoints': eps}
    r = rng.random()
    if r < 0.5:
        m['identity_group'] = GROUP
        if rng.random() < 0.9:
            m['identity'] = rng.randint(0, 1)
    elif r < 0.6:
        m['identity_group'] = None
    return m


def _reg_all(h, c):
    return [['reg_identity', h, 'own', c], ['reg_running', h, 'own', c], ['reg_endpoints', h, 'own', c]]


def _unreg_all(rng, h, c):
    s = 'admin' if rng.random() < 0.3 else 'own'
    ops = [['unreg_running', h, s, c], ['unreg_endpoints', h, s, c], ['unreg_identity', h, s, c]]
    if rng.random() < 0.3:
        rng.shuffle(ops)
    return ops


def gen_case(rng):
    hosts = rng.choice(HOST_SETS)
    napps = 1 if rng.random() < 0.8 else 2
    ncont = rng.randint(2, 5)
    conts = []
    for k in range(ncont):
        app = APPS[0] if (napps == 1 or rng.random() < 0.7) else APPS[1]
        conts.append({'app': app, 'manifest': _manifest(rng, k)})
    if rng.random() < 0.5 and ncont >= 2:
        # the next container of the instance has the shape of the previous one (same endpoints, other ports)
        conts[1] = {'app': conts[0]['app'], 'manifest': json.loads(json.dumps(conts[0]['manifest']))}
        for ep in conts[1]['manifest']['endpoints']:
            ep['real_port'] = 5000 + rng.randint(0, 2)
    hi = list(range(len(hosts)))
    frags = []
    for _ in range(rng.randint(1, 3)):
        kind = rng.random()
        a, b = rng.sample(hi, 2)
        c1, c2 = rng.sample(range(ncont), 2)
        app = conts[c1]['app']
        if kind < 0.35:      # the instance moves from a to b; the old container is cleaned up late on a
            f = _reg_all(a, c1) + ([['expire_host', a]] if rng.random() < 0.6 else _unreg_all(rng, a, c1))
            f += _reg_all(b, c2) + _unreg_all(rng, a, c1)
            if rng.random() < 0.4:
                f += _unreg_all(rng, b, c2)
        elif kind < 0.55:    # the newer container starts on the same host
            f = _reg_all(a, c1) + [['expire_host', a]] + _reg_all(a, c2) + _unreg_all(rng, a, c1)
        elif kind < 0.9:     # placement moves; stale event on the old host, then the event of the new host
            f = [['create', ['placement', hosts[a], app], '', 0], ['create', ['scheduled', app], '{}', 0]]
            if rng.random() < 0.8:
                f += [['delete', ['placement', hosts[a], app]]]
                if rng.random() < 0.8:
                    f += [['create', ['placement', hosts[b], app], '', 0]]
            f += [['unschedule', a, 'own', app]]
            if rng.random() < 0.6:
                f += [['unschedule', b, 'own', app]]
            if rng.random() < 0.4:
                f += [['unschedule', a, 'own', app]]
        else:                # a blacked-out node: the administrator removes its presence (presence.kill_node)
            f = _reg_all(a, c1) + _reg_all(b, c2)
            f += [['unreg_running', a, 'admin', c1], ['unreg_endpoints', a, 'admin', c1]]
        frags.append(f)
    # free operations
    free = []
    for _ in range(rng.randint(0, 14)):
        h = rng.choice(hi)
        c = rng.randrange(ncont)
        r = rng.random()
        if r < 0.3:
            free.append([rng.choice(REG), h, 'own', c])
        elif r < 0.62:
            free.append([rng.choice(UNREG), h, 'admin' if rng.random() < 0.25 else 'own', c])
        elif r < 0.72:
            free.append(['unschedule', h, 'own', conts[c]['app']])
        elif r < 0.8:
            free.append(['expire_host', h])
        elif r < 0.86:
            free.append(['create', ['placement', hosts[h], conts[c]['app']], '', 0])
        elif r < 0.9:
            free.append(['delete', ['placement', hosts[h], conts[c]['app']]])
        elif r < 0.94:
            free.append(['create', ['scheduled', conts[c]['app']], '{}', 0])
        else:
            free.append(['leftover', h, c])
    frags.append(free)
    # random merge keeping the order inside each fragment
    sym = []
    frags = [f for f in frags if f]
    while frags:
        f = rng.choice(frags)
        sym.append(f.pop(0))
        if not f:
            frags.remove(f)
    # leftovers of earlier sessions in the initial table
    init_sym = []
    if rng.random() < 0.45:
        for _ in range(rng.randint(1, 4)):
            init_sym.append(['leftover', rng.choice(hi), rng.randrange(ncont)])
    # resolve sessions and leftovers
    cur = {h: 101 + h for h in hi}
    nxt = [110]
    leftover_sid = [150]

    def leftover(h, c):
        app, man = conts[c]['app'], conts[c]['manifest']
        host = hosts[h]
        other = hosts[(h + 1) % len(hosts)]
        kinds = ['running']
        if man.get('endpoints'):
            kinds.append('endpoint')
        if man.get('identity_group'):
            kinds.append('identity')
        k = rng.choice(kinds)
        ident = lambda hh: json.dumps({'app': app, 'host': hh}, sort_keys=True)      # noqa
        if k == 'running':
            desc = ['running', app]
            data = rng.choice([host, other, '', 'stale', host + 'x', host + ':5000', ident(host)])
        elif k == 'endpoint':
            ep = rng.choice(man['endpoints'])
            proto, name = ep_fields(ep)
            desc = ['endpoint', app, proto, name]
            data = rng.choice([host + ':5000', host + ':%s' % ep['real_port'], other + ':5000', host, '', 'stale',
                               host + ':1:2', host + 'x:5000', ':5000', host + ':', ident(host)])
        else:
            desc = ['identity', man['identity_group'], man.get('identity', sys.maxsize)]
            data = rng.choice([ident(host), ident(other), ident(host + 'x'), host, '', 'stale'])
        r = rng.random()
        owner = cur[h] if r < 0.4 else (0 if r < 0.5 else leftover_sid[0])
        return ['create', desc, data, owner]

    init = [leftover(h, c)[1:] for _k, h, c in init_sym]
    seen = set()
    init = [n for n in init if not (json.dumps(n[0]) in seen or seen.add(json.dumps(n[0])))]
    ops = []
    for o in sym:
        k = o[0]
        if k == 'expire_host':
            ops.append(['expire', cur[o[1]]])
            cur[o[1]] = nxt[0]
            nxt[0] += 1
        elif k == 'leftover':
            ops.append(leftover(o[1], o[2]))
        elif k in REG or k in UNREG:
            ops.append([k, hosts[o[1]], ADMIN if o[2] == 'admin' else cur[o[1]], o[3]])
        elif k == 'unschedule':
            ops.append([k, hosts[o[1]], cur[o[1]], o[3]])
        else:
            ops.append(o)
    return {'hosts': hosts, 'containers': conts, 'init': init, 'ops': ops}


# ------------------------------------------------------------------ the implementation
def _snapshot(srv):
    return [[p, d, o] for p, (d, o) in srv.nodes.items()]


def impl_run(case):
    """plays the case on the real code; returns per operation the outcome code and the node table after it"""
    im = impl()
    pres, tz = im['presence'], im['tracezk']
    srv = c17.Server()
    for desc, data, owner in case['init']:
        srv.nodes[real_path(desc)] = [data.encode(), owner]
    clients = {}

    def client(sid):
        if sid not in clients:
            clients[sid] = EpClient(srv, 0, sid)
        return clients[sid]
    init = _snapshot(srv)
    steps = []
    old_interval, old_host = pres._EPHEMERAL_RETRY_INTERVAL, tz._HOSTNAME
    pres._EPHEMERAL_RETRY_INTERVAL = 0              # 13 attempts, no waiting between them
    try:
        for op in case['ops']:
            k = op[0]
            n0 = len(srv.oplog)
            try:
                if k in REG or k in UNREG:
                    _k, host, sess, c = op
                    cont = case['containers'][c]
                    ep = pres.EndpointPresence(client(sess), cont['manifest'], hostname=host, appname=cont['app'])
                    getattr(ep, {'reg_running': 'register_running', 'unreg_running': 'unregister_running',
                                 'reg_endpoints': 'register_endpoints', 'unreg_endpoints': 'unregister_endpoints',
                                 'reg_identity': 'register_identity', 'unreg_identity': 'unregister_identity'}[k])()
                elif k == 'unschedule':
                    _k, host, sess, app = op
                    tz._HOSTNAME = host              # module global read by _unschedule
                    tz._unschedule(client(sess), app)
                elif k == 'create':
                    _k, desc, data, owner = op
                    p = real_path(desc)
                    if p in srv.nodes:
                        raise im['kz'].NodeExistsError(p)
                    srv.nodes[p] = [data.encode(), owner]
                elif k == 'delete':
                    p = real_path(op[1])
                    if p not in srv.nodes:
                        raise im['kz'].NoNodeError(p)
                    del srv.nodes[p]
                elif k == 'expire':
                    if op[1] in clients:
                        clients[op[1]].alive = False
                    srv.expire(op[1])
                else:
                    raise ValueError(k)
                out, what = 0, None
            except im['exc'].ContainerSetupError as e:
                out, what = 1, str(e)[:80]
            except c17._Expired:
                raise
            except Exception as e:                   # pylint: disable=broad-except
                out, what = 2, type(e).__name__
            steps.append({'out': out, 'exc': what, 'zk_calls': len(srv.oplog) - n0,
                          'table': [[p, d.decode('latin-1'), o] for p, d, o in _snapshot(srv)]})
    finally:
        pres._EPHEMERAL_RETRY_INTERVAL = old_interval
        tz._HOSTNAME = old_host
    return {'init': [[p, d.decode('latin-1'), o] for p, d, o in init], 'steps': steps}


# ------------------------------------------------------------------ flattening and terms
def expected(case, obs):
    out = []
    for st in obs['steps']:
        out.append(st['out'])
        out.append(len(st['table']))
        for p, d, o in st['table']:
            out += Codes.path_flat(parse_path(p)) + payload_flat(d.encode('latin-1')) + [o]
    return out


def case_term(case, obs):
    nodes = ['{| e_path := %s; e_data := %s; e_owner := %s |}'
             % (Codes.path_term(parse_path(p)), payload_term(d.encode('latin-1')), G.z(o)) for p, d, o in obs['init']]
    ops = []
    for op in case['ops']:
        k = op[0]
        if k in REG or k in UNREG:
            _k, host, sess, c = op
            cont = case['containers'][c]
            ctor = {'reg_running': 'ORegRunning', 'unreg_running': 'OUnregRunning', 'reg_endpoints': 'ORegEndpoints',
                    'unreg_endpoints': 'OUnregEndpoints', 'reg_identity': 'ORegIdentity',
                    'unreg_identity': 'OUnregIdentity'}[k]
            ops.append('%s %s %s' % (ctor, agent_term(host, sess), manifest_term(cont['app'], cont['manifest'])))
        elif k == 'unschedule':
            ops.append('OUnschedule %s %s' % (agent_term(op[1], op[2]), G.z(Codes.app(op[3]))))
        elif k == 'create':
            ops.append('OCreate %s %s %s' % (Codes.path_term(op[1]), payload_term(op[2].encode()), G.z(op[3])))
        elif k == 'delete':
            ops.append('ODelete %s' % Codes.path_term(op[1]))
        else:
            ops.append('OExpire %s' % G.z(op[1]))
    return G.pair(G.lst(nodes), G.lst(ops))


# ------------------------------------------------------------------ oracle
def _kind(path):
    return parse_path(path)[0]


def named_host(path, data):
    """the host a presence node names: running = the data, endpoint = host of host:port, identity = 'host' of the
    JSON object; None if it names nobody"""
    k = _kind(path)
    if not data:
        return None
    if k == 'running':
        return data
    if k == 'endpoint':
        return data.partition(':')[0]
    if k == 'identity':
        try:
            obj = json.loads(data)
        except ValueError:
            return None
        return obj.get('host') if isinstance(obj, dict) else None
    return None


def oracle(case, obs):
    """list of (signature, what); plus statistics in obs['stats']"""
    out = []
    stats = {'unregister_removed_own': 0, 'unregister_spared_foreign': 0, 'unregister_absent': 0,
             'cleanup_after_move_spared': 0, 'same_host_other_container_unregistered': 0,
             'unschedule_with_placement': 0, 'unschedule_stale': 0, 'unschedule_stale_scheduled_kept': 0,
             'register_created': 0, 'register_refused': 0, 'admin_session_unregisters': 0, 'raised': 0}

    def bad(sig, what):
        if not any(s == sig for s, _ in out):
            out.append((sig, what))
    before = {p: (d, o) for p, d, o in obs['init']}
    latest = {}          # path -> (host, container index): who registered the node that is there now
    placed = set()       # (host, app): placements the harness created and has not deleted
    for n, (op, st) in enumerate(zip(case['ops'], obs['steps'])):
        after = {p: (d, o) for p, d, o in st['table']}
        gone = [p for p in before if p not in after]
        new = [p for p in after if p not in before]
        changed = [p for p in after if p in before and after[p] != before[p]]
        k = op[0]
        where = 'operation %d %s' % (n, json.dumps(op))
        stats['raised'] += st['out'] == 2
        if k in REG:
            _k, host, sess, c = op
            cont = case['containers'][c]
            if gone or changed:
                bad('ep:register-modifies-existing-node', '%s: %s' % (where, gone + changed))
            for p in new:
                if after[p][1] != sess:
                    bad('ep:register-creates-node-not-owned-by-its-session', '%s: %s owner %s' % (where, p, after[p][1]))
                if p not in target_paths(k, cont['app'], cont['manifest']):
                    bad('ep:register-creates-unrelated-node', '%s: %s' % (where, p))
                latest[p] = (host, c)
                stats['register_created'] += 1
            stats['register_refused'] += st['out'] == 1
        elif k in UNREG:
            _k, host, sess, c = op
            cont = case['containers'][c]
            targets = target_paths(k, cont['app'], cont['manifest'])
            if new or changed:
                bad('ep:unregister-creates-or-rewrites-node', '%s: %s' % (where, new + changed))
            for p in gone:
                data = before[p][0]
                if p not in targets:
                    bad('ep:unregister-deletes-unrelated-node', '%s: %s' % (where, p))
                elif named_host(p, data) != host:
                    bad('ep:unregister-deletes-node-of-another-host',
                        '%s: host %s removed %s holding %r (owner session %s)' % (where, host, p, data, before[p][1]))
                reg = latest.get(p)
                if reg is not None and reg[0] != host:
                    bad('ep:cleanup-unregisters-newer-registration-on-another-host',
                        '%s: %s was registered by container %d on %s' % (where, p, reg[1], reg[0]))
                elif reg is not None and reg[1] != c:
                    stats['same_host_other_container_unregistered'] += 1
                stats['unregister_removed_own'] += 1
                stats['admin_session_unregisters'] += sess == ADMIN
            for p in targets:
                if p not in before:
                    stats['unregister_absent'] += 1
                elif named_host(p, before[p][0]) == host:
                    if p in after:
                        bad('ep:unregister-leaves-own-node', '%s: %s holding %r is still there'
                            % (where, p, before[p][0]))
                elif p in after:
                    stats['unregister_spared_foreign'] += 1
                    reg = latest.get(p)
                    if reg is not None and reg[0] != host:
                        stats['cleanup_after_move_spared'] += 1
        elif k == 'unschedule':
            _k, host, sess, app = op
            sched = real_path(['scheduled', app])
            plc = real_path(['placement', host, app])
            if new or changed or [p for p in gone if p != sched]:
                bad('ep:unschedule-touches-other-node', '%s: %s' % (where, new + changed + gone))
            if plc in before:
                stats['unschedule_with_placement'] += 1
                if sched in after:
                    bad('ep:unschedule-keeps-scheduled-despite-placement', where)
            else:
                stats['unschedule_stale'] += 1
                if sched in gone:
                    bad('ep:unschedule-without-placement', '%s: %s does not exist' % (where, plc))
            if (host, app) not in placed and sched in before:
                # by the harness's own record the instance is not placed on this host: a stale event
                if sched in gone:
                    bad('ep:stale-event-unschedules', '%s: the instance is placed on %s'
                        % (where, sorted(h for h, a in placed if a == app) or 'no host'))
                else:
                    stats['unschedule_stale_scheduled_kept'] += 1
        elif k == 'create' and st['out'] == 0:
            if op[1][0] == 'placement':
                placed.add((op[1][1], op[1][2]))
        elif k == 'delete' and st['out'] == 0:
            if op[1][0] == 'placement':
                placed.discard((op[1][1], op[1][2]))
        for p in gone:
            latest.pop(p, None)
        before = after
    obs['stats'] = stats
    return out


# ------------------------------------------------------------------ the stage
def stage(r, seed, n):
    rng = random.Random(seed + 17)
    cases = []
    corpus = []
    try:
        import os
        path = os.path.join(core.VERIF, 'corpus', 'c17ep.json')
        if os.path.exists(path):
            with open(path) as f:
                corpus = json.load(f)
    except Exception:                                # noqa
        corpus = []
    cases.extend(corpus)
    for _ in range(n):
        cases.append(gen_case(rng))
    pairs, meta = [], []
    total = {}
    nviol = 0
    nops = 0
    for case in cases:
        try:
            obs = impl_run(case)
            hits = oracle(case, obs)
        except Exception as exc:                     # noqa
            import traceback
            r.broken_obligation('correspondence', 'C17 EndpointPresence stage could not drive the implementation: %s: %s'
                                % (type(exc).__name__, str(exc)[:200]), traceback.format_exc())
            break
        nops += len(case['ops'])
        for sig, what in hits:
            nviol += 1
            r.violation(sig, what, {'engine': ENGINE, 'case': case})
        for k, v in obs['stats'].items():
            total[k] = total.get(k, 0) + int(v)
        pairs.append((case_term(case, obs), G.zlist(expected(case, obs))))
        meta.append((case, obs))
    mism, err = [], None
    if pairs:
        with core.build_lock():
            okm, logm = core.make(MODEL_VOS + ['Base/Flat'])
            if not okm:
                err = 'model does not build: ' + logm[-800:]
            else:
                mism, err = core.run_mismatches(PREAMBLE, RUN_FN, pairs, IN_TYPE, shard=100, timeout=300, tag='cases_c17ep')
    if err:
        r.broken_obligation('correspondence', 'C17 EndpointPresence stage: the model could not be evaluated', err)
    if mism:
        j = min(mism, key=lambda i: len(pairs[i][0]))
        mo, _e = core.model_output(PREAMBLE, RUN_FN, pairs[j][0])
        r.broken_obligation('correspondence',
                            'C17 EndpointPresence stage: model vs implementation: %d of %d operation lists differ'
                            % (len(mism), len(pairs)),
                            json.dumps({'case': meta[j][0], 'impl_flat': expected(*meta[j]), 'model_flat': mo},
                                       default=str)[:6000])
    return {'endpoint_presence_stage': {'operation_lists': len(cases), 'corpus_cases': len(corpus), 'operations': nops,
                                        'violations': nviol, 'compared': len(pairs), 'differ': len(mism),
                                        'distribution': total}}


def replay(case):
    obs = impl_run(case)
    hits = oracle(case, obs)
    return hits[0] if hits else None
