"""C11: a restarted master reloads exactly the placement that was published.

Oracle (E-master): at every Restart, after load_model() and before init_schedule(), every instance recorded under a
healthy server (server record and parent bucket present, presence node present with ctime <= ctime of the placement
node, partition and traits of the record still match, the recorded instances still fit together) is placed on that
server with the recorded identity and expiry; nothing unrecorded is placed.  Theorems: Props/C11.v."""
from .. import core, emaster

PID = 'C11'


def run(tier, seed):
    spec = emaster.make_spec(PID, 'c11', n_quick=500, n_thorough=15000,
                             rule_extra='Master.cell compared with the stored placement right after load_model()')
    # load_model as a run of the scheduler's operations: Master/LoadModel.v, Props/C11Load.v, harness/props/c11load.py
    from . import c11load
    spec['trusted'] = list(spec.get('trusted', [])) + list(c11load.TRUSTED)
    spec['assumptions'] = list(spec.get('assumptions', [])) + list(c11load.ASSUMPTIONS)
    # what the restarted master reads goes through ZkBackend / zkutils (E-master replaces them by an in-memory backend):
    # Store/ZkUtils.v, Props/C09Zk.v, harness/props/zkutilsstage.py - the read side (a stored record decodes to itself)
    from . import zkutilsstage
    spec['trusted'] += list(zkutilsstage.TRUSTED)
    spec['assumptions'] += list(zkutilsstage.ASSUMPTIONS)
    spec['table_sections'] = list(spec.get('table_sections', [])) + list(zkutilsstage.SECTIONS)
    inner = spec.get('extra')

    def extra(r, cases, obs):
        cov = inner(r, cases, obs) if inner else {}
        u = c11load.stage(r, seed, tier)
        cov['extra_obligations'] = cov.get('extra_obligations', 0) + u.pop('loadmodel_obligations', 0)
        cov.update(u)
        z = zkutilsstage.stage(r, seed, tier, n=400 if tier == 'quick' else 6000)
        cov['extra_obligations'] = cov.get('extra_obligations', 0) + z.pop('zkutils_obligations', 0)
        cov.update(z)
        return cov
    spec['extra'] = extra
    core.standard_run(PID, tier, seed, spec)


def replay_case(case):
    if isinstance(case, dict) and case.get('engine') == 'E-master-c11load':
        from . import c11load
        return c11load.replay_case(case)
    if isinstance(case, dict) and case.get('engine') == 'E-zkutils':
        from . import zkutilsstage
        return zkutilsstage.replay_case(case)
    return emaster.replay(PID, case)
