"""C12: EventMgr._synchronize/_cache/_cache_notify + fs.write_safe vs Node/Cache.v.

The REAL code runs on a real temporary directory against an in-memory kazoo-client fake.
Faults are injected inside the harness process at the boundaries of fs.write_safe's calls
(temp file creation, inside the YAML dump, fchmod, replace, immediately after replace, the final
rm_safe), either as an exception or as a process kill (os._exit in a forked child); immediately after
os.replace returned a reader may also open <cache>/<instance> in the same process (observation point)."""
import errno
import json
import os
import re
import shutil
import sys
import tempfile

from .. import core, gallina as G

PID = 'C12'
ANCHORS = ['lib/python/treadmill/eventmgr.py', 'lib/python/treadmill/fs/__init__.py',
           'lib/python/treadmill/zkutils.py']
RUN_FN = '(run_case c12_cfg)'


def preamble():
    """The cases files take the source-derived constants straight from the translator (same function that
    writes Gen/Tables.v) instead of importing Gen/Tables.vo: that file is shared with the other properties and
    may be rebuilt by a concurrent check while the shards are being evaluated."""
    from .. import tables, tables_c12
    try:
        f = tables_c12.c12_facts()
    except tables.TranslatorError:
        f = {'pre': '.', 'post': '-', 'ready': READY}      # reported as a broken tables section by standard_run
    return ('From Coq Require Import ZArith List String.\nImport ListNotations.\n'
            'From TM Require Import Node.Fs Node.Cache.\nOpen Scope Z_scope.\n'
            'Definition c12_cfg : cfg := {| c_pre := %s; c_post := %s; c_ready := %s |}.\n'
            % (G.string(f['pre']), G.string(f['post']), G.string(f['ready'])))
READY = '.ready'
POINTS = ['create', 'dump', 'chmod', 'replace', 'after_replace', 'unlink']
# number of system calls of write_safe_ops that happened when the fault strikes
POINT_K = {'create': 0, 'dump': 2, 'chmod': 2, 'replace': 4, 'after_replace': 5, 'unlink': 5}


def is_probe(fault):
    """'after_replace' without kill is not a fault but an observation point: a reader opens <cache>/<instance> in
    the same process immediately after os.replace returned, before control is back in write_safe"""
    return bool(fault) and fault['point'] == 'after_replace' and not fault['kill']
KEYS = ['cpu', 'memory', 'disk', 'services', 'environment', 'identity', 'identity_count', 'expires', 'task',
        'name', 'endpoints', 'tickets']
GARBAGE = ['cpu: 10%\nservices:\n- comm', '{"cpu": "10', 'services: [', '\x00\x00\x00', '- a\n- b\n']


# ------------------------------------------------------------------ generator
def _value(rng):
    c = rng.random()
    if c < 0.3:
        return rng.randint(0, 5)
    if c < 0.55:
        return rng.choice(['10%', '100M', 'prod', 'yes', 'a\nb', '', '0000000001', '~'])
    if c < 0.7:
        return [rng.randint(0, 3), rng.choice(['x', 'y'])]
    if c < 0.8:
        return {'name': rng.choice(['web', 'db']), 'command': rng.choice(['/bin/true', 'sleep 5\nexit'])}
    if c < 0.9:
        return None
    return rng.choice([True, False])


def _manifest(rng):
    ks = rng.sample([k for k in KEYS if k not in ('identity', 'identity_count', 'expires')], rng.randint(0, 4))
    m = {k: _value(rng) for k in ks}
    if rng.random() < 0.15:
        m['identity'] = rng.randint(0, 3)     # overridden by the placement data
    return m


def _placement_data(rng):
    if rng.random() < 0.15:
        return None
    ident = rng.choice([None, 0, 1, 2])
    return {'identity': ident, 'identity_count': (None if ident is None else 3), 'expires': rng.randint(100, 200)}


def gen_case(rng, i):
    pool = ['%s.%s#%010d' % (rng.choice(['tm', 'ab']), rng.choice(['web', 'db', 'x']), n)
            for n in rng.sample(range(1, 40), 7)]
    if rng.random() < 0.04:
        pool[0] = 'tm.nohash'                      # ValueError path of app.index('#')
    expected = rng.sample(pool, rng.randint(0, 5))
    prior = []
    sched, place = {}, {}
    # all 2^3 combinations of (placed, manifest node, placement node) appear over the pool
    for n in pool:
        placed = n in expected
        has_file = rng.random() < 0.5
        if rng.random() < (0.75 if placed else 0.4):
            sched[n] = _manifest(rng)
        if rng.random() < (0.8 if placed else 0.3):
            place[n] = {'data': _placement_data(rng), 'rel': rng.choice(['older', 'equal', 'newer', 'newer'])}
        if has_file:
            kind = rng.choice(['dict', 'dict', 'dict', 'garbage'])
            if kind == 'dict':
                old = _manifest(rng)
                if '#' in n:
                    old['task'] = n[n.index('#') + 1:]
                if rng.random() < 0.5 and n in sched:          # same manifest as ZooKeeper: only outdated by ctime
                    old = dict(sched[n], task=old.get('task', '0'))
                prior.append({'name': n, 'kind': 'dict', 'content': old})
            else:
                prior.append({'name': n, 'kind': 'garbage', 'garbage': rng.randrange(len(GARBAGE))})
    if rng.random() < 0.5:
        prior.append({'name': READY, 'kind': 'empty'})
    if rng.random() < 0.25:      # temp file left behind by an earlier kill
        n = rng.choice(pool)
        prior.append({'name': '.%s-%s' % (n, rng.choice(['a1b2c3d4', 'zzzzzzzz'])), 'kind': 'garbage',
                      'garbage': rng.randrange(len(GARBAGE))})
    rng.shuffle(prior)
    if expected and rng.random() < 0.05:
        expected = expected + [expected[0]]
    fault = None
    if rng.random() < 0.55 and expected:
        have = {p['name'] for p in prior}
        cands = [n for n in expected if n in sched and n in place and '#' in n
                 and (n not in have or place[n]['rel'] == 'newer')] or expected
        fault = {'app': rng.choice(cands), 'point': rng.choice(POINTS), 'kill': rng.random() < 0.4,
                 'cut': rng.choice([0.0, 0.3, 0.6, 0.95])}
    return {'prior': prior, 'sched': sched, 'place': place, 'expected': expected,
            'check': rng.random() < 0.5, 'fault': fault,
            'pre_notify': rng.choice([None, None, True, False]),
            'post_notify': rng.choice([None, None, True, False])}


# ------------------------------------------------------------------ implementation
_IMPL = None


def impl():
    global _IMPL
    if _IMPL is None:
        import logging
        logging.disable(logging.CRITICAL)
        sys.path.insert(0, core.PYLIB)
        from treadmill import eventmgr, fs, yamlwrapper
        import kazoo.exceptions
        import yaml
        _IMPL = (eventmgr, fs, yamlwrapper, kazoo.exceptions, yaml)
    return _IMPL


class _Stat:
    def __init__(self, ctime):
        self.ctime = ctime
        self.mtime = ctime
        self.version = 0
        self.children_count = 0


class FakeZk:
    """The part of kazoo.client.KazooClient that eventmgr/zkutils use: get / exists / get_children."""

    def __init__(self, nodes, exc):
        self.nodes = nodes          # path -> (bytes or None, ctime_ms)
        self.exc = exc

    def get(self, path, watch=None):
        if path not in self.nodes:
            raise self.exc.NoNodeError()
        data, ctime = self.nodes[path]
        return data, _Stat(ctime)

    def exists(self, path, watch=None):
        return _Stat(self.nodes[path][1]) if path in self.nodes else None

    def get_children(self, path, watch=None):
        pre = path.rstrip('/') + '/'
        return sorted({p[len(pre):].split('/')[0] for p in self.nodes if p.startswith(pre)})


class _Killed(BaseException):
    pass


def _write_prior(cache_dir, p, yaml):
    path = os.path.join(cache_dir, p['name'])
    with open(path, 'w') as f:
        if p['kind'] == 'dict':
            yaml.safe_dump(p['content'], f)
        elif p['kind'] == 'garbage':
            f.write(GARBAGE[p['garbage']])


def _drive(case, root, log_fd):
    """Runs the real code; returns outcome 0 (completed) / 1 (exception). A kill never returns."""
    eventmgr, fs, yamlwrapper, kexc, yaml = impl()
    em = eventmgr.EventMgr(root)
    cache_dir = em.tm_env.cache_dir
    host = em._hostname
    nodes = {'/placement/%s' % host: (b'', 1)}
    for n, m in case['sched'].items():
        nodes['/scheduled/%s' % n] = (json.dumps(m).encode(), 1)
    for n, p in case['place'].items():
        try:
            ns = os.stat(os.path.join(cache_dir, n)).st_ctime_ns
            base = ns // 1000000
        except OSError:
            base = 1500000000000
        ctime = {'older': base - 5000, 'equal': base, 'newer': base + 2}[p['rel']]
        data = b'' if p['data'] is None else json.dumps(p['data']).encode()
        nodes['/placement/%s/%s' % (host, n)] = (data, ctime)
    zk = FakeZk(nodes, kexc)
    fault = case['fault']
    cur = {'app': None, 'fired': False}

    def log(kind, name):
        os.write(log_fd, ('%s %s\n' % (kind, name)).encode())

    def fire(stream=None):
        cur['fired'] = True
        log('F', fault['point'])
        if fault['kill']:
            if stream is not None:
                stream.flush()
            os._exit(77)
        raise OSError(errno.ENOSPC, 'injected fault at %s' % fault['point'])

    def armed(point):
        return fault is not None and not cur['fired'] and fault['point'] == point and cur['app'] == fault['app']
    real_cache = eventmgr.EventMgr._cache
    real_unlink, real_fchmod, real_replace = os.unlink, os.fchmod, os.replace
    real_ntf, real_dump = tempfile.NamedTemporaryFile, yamlwrapper.dump
    real_stat = os.stat

    class _StatMs:
        """stat result whose st_ctime is truncated to the millisecond (the harness's clock for 'equal' ctimes)"""

        def __init__(self, st):
            self._st = st
            self.st_ctime = (st.st_ctime_ns // 1000000) / 1000.0

        def __getattr__(self, k):
            return getattr(self._st, k)

    def w_stat(path, *a, **k):
        st = real_stat(path, *a, **k)
        if isinstance(path, str) and os.path.dirname(path) == cache_dir:
            return _StatMs(st)
        return st

    def w_cache(self, zkclient, app, check_existing=False):
        log('C', app)
        cur['app'] = app
        try:
            return real_cache(self, zkclient, app, check_existing=check_existing)
        finally:
            cur['app'] = None

    def w_unlink(path, *a, **k):
        base = os.path.basename(path)
        if os.path.dirname(path) == cache_dir:
            if not base.startswith('.') and cur['app'] is None:
                log('U', base)
            elif armed('unlink'):
                fire()
        return real_unlink(path, *a, **k)

    def w_fchmod(*a, **k):
        if armed('chmod'):
            fire()
        return real_fchmod(*a, **k)

    def w_replace(src, dst, *a, **k):
        if armed('replace'):
            fire()
        res = real_replace(src, dst, *a, **k)
        if armed('after_replace'):
            if fault['kill']:
                fire()                      # the process dies right after rename(2) returned
            cur['fired'] = True             # a reader looks at the instance name right now
            try:
                with open(dst, 'rb') as f:
                    seen = f.read().decode('utf-8', 'replace')
            except OSError as err:
                seen = None
                log('F', 'reader-error %s' % err)
            log('R', json.dumps({'name': os.path.basename(dst), 'text': seen}))
            log('F', 'after_replace')
        return res

    def w_ntf(*a, **k):
        if armed('create'):
            fire()
        return real_ntf(*a, **k)

    def w_dump(data, stream=None, **k):
        if armed('dump') and stream is not None:
            text = real_dump(data, **k)
            stream.write(text[:int(len(text) * fault['cut'])])
            fire(stream)
        return real_dump(data, stream=stream, **k)
    if case['pre_notify'] is not None:
        em._cache_notify(case['pre_notify'])
    # readers that opened an entry BEFORE the publisher ran and keep it open: replacing or removing a name never changes
    # what they read (the old inode stays complete); writing into the existing file does
    held = {}
    for n in os.listdir(cache_dir):
        hp = os.path.join(cache_dir, n)
        if not n.startswith('.') and os.path.isfile(hp) and not os.path.islink(hp):
            hf = open(hp, 'rb')
            held[n] = (hf, hf.read())
    eventmgr.EventMgr._cache = w_cache
    os.unlink, os.fchmod, os.replace, os.stat = w_unlink, w_fchmod, w_replace, w_stat
    tempfile.NamedTemporaryFile, yamlwrapper.dump = w_ntf, w_dump
    try:
        try:
            em._synchronize(zk, list(case['expected']), check_existing=case['check'])
            outcome, err = 0, ''
        except Exception as e:          # pylint: disable=broad-except
            outcome, err = 1, '%s: %s' % (type(e).__name__, e)
    finally:
        eventmgr.EventMgr._cache = real_cache
        os.unlink, os.fchmod, os.replace, os.stat = real_unlink, real_fchmod, real_replace, real_stat
        tempfile.NamedTemporaryFile, yamlwrapper.dump = real_ntf, real_dump
        for n, (hf, was) in sorted(held.items()):
            hf.seek(0)
            now = hf.read()
            hf.close()
            if now != was:
                log('W', json.dumps({'name': n, 'was': was.decode('utf-8', 'replace')[:120],
                                     'now': now.decode('utf-8', 'replace')[:120]}))
    if case['post_notify'] is not None:
        em._cache_notify(case['post_notify'])
    log('E', '%d %s' % (outcome, err.replace('\n', ' ')[:200]))
    return outcome


def _read_entry(path, yaml):
    if os.path.islink(path):
        return {'link': os.readlink(path)}
    with open(path, 'rb') as f:
        raw = f.read()
    try:
        text = raw.decode()
    except UnicodeDecodeError:
        return {'text': repr(raw), 'parsed': None, 'is_dict': False}
    try:
        parsed = yaml.safe_load(text)
    except Exception:       # pylint: disable=broad-except
        parsed = None
    return {'text': text, 'parsed': parsed if isinstance(parsed, dict) else None, 'is_dict': isinstance(parsed, dict)}


def impl_run(case):
    _eventmgr, _fs, _yw, _kexc, yaml = impl()
    root = tempfile.mkdtemp(prefix='c12-', dir=core.scratch())
    try:
        cache_dir = os.path.join(root, 'cache')
        os.makedirs(cache_dir)
        for p in case['prior']:
            _write_prior(cache_dir, p, yaml)
        log_path = os.path.join(root, 'harness.log')
        log_fd = os.open(log_path, os.O_WRONLY | os.O_CREAT | os.O_APPEND)
        try:
            if case['fault'] and case['fault']['kill']:
                pid = os.fork()
                if pid == 0:
                    code = 70
                    try:
                        code = _drive(case, root, log_fd)
                    finally:
                        os._exit(code)
                _pid, status = os.waitpid(pid, 0)
                code = os.waitstatus_to_exitcode(status)
                outcome = {0: 0, 1: 1, 77: 2}.get(code, 9)
            else:
                outcome = _drive(case, root, log_fd)
        finally:
            os.close(log_fd)
        with open(log_path) as f:
            lines = [l.rstrip('\n').split(' ', 1) for l in f]
        order = [l[1] for l in lines if l[0] in ('U', 'C')]
        err = ' '.join(l[1] for l in lines if l[0] == 'E')
        fired = any(l[0] == 'F' for l in lines)
        reader = None
        for l in lines:
            if l[0] == 'R':
                reader = json.loads(l[1])
                text = reader['text']
                try:
                    parsed = yaml.safe_load(text) if text is not None else None
                except Exception:       # pylint: disable=broad-except
                    parsed = None
                reader.update({'parsed': parsed if isinstance(parsed, dict) else None,
                               'is_dict': isinstance(parsed, dict)})
        inplace = [json.loads(l[1]) for l in lines if l[0] == 'W']
        import glob as _glob
        listing = sorted(os.listdir(cache_dir))
        globbed = sorted(os.path.basename(p) for p in _glob.glob(os.path.join(cache_dir, '*')))
        entries = {n: _read_entry(os.path.join(cache_dir, n), yaml) for n in listing}
        return {'outcome': outcome, 'error': err, 'order': order, 'fired': fired, 'listing': listing,
                'globbed': globbed, 'entries': entries, 'reader': reader, 'inplace': inplace}
    finally:
        shutil.rmtree(root, ignore_errors=True)


# ------------------------------------------------------------------ oracle (the statement, on implementation results)
def _merged(case, n):
    m = dict(case['sched'][n])
    m['task'] = n[n.index('#') + 1:]
    pd = case['place'][n]['data']
    if pd is not None:
        m.update(pd)
    return m


def _prior_map(case):
    return {p['name']: p for p in case['prior']}


def _same_as_prior(entry, p):
    if p['kind'] == 'dict':
        return entry.get('is_dict') and entry['parsed'] == p['content']
    if p['kind'] == 'garbage':
        return entry.get('text') == GARBAGE[p['garbage']]
    return entry.get('text') == ''


def oracle(case, o):
    out = []
    prior = _prior_map(case)
    exp = set(case['expected'])
    ready_touched = case['pre_notify'] is not None or case['post_notify'] is not None
    fetchable = {n for n in exp if n in case['sched'] and n in case['place'] and '#' in n}
    visible = [n for n in o['listing'] if not n.startswith('.')]
    if sorted(visible) != o['globbed']:
        out.append(('glob-star-disagrees-with-dot-filter', 'glob(*) = %r, non-dot names = %r' % (o['globbed'], visible)))
    # every outcome: a visible entry is the old one or the complete merged manifest
    for n in visible:
        e = o['entries'][n]
        old_ok = n in prior and _same_as_prior(e, prior[n])
        new_ok = n in fetchable and e.get('is_dict') and e['parsed'] == _merged(case, n)
        if not (old_ok or new_ok):
            out.append(('partial-or-foreign-manifest-visible',
                        'cache/%s is neither its old content nor the complete merged manifest: %r'
                        % (n, e.get('text', e)[:200])))
    # a reader that opens the instance name right after the rename sees the old or the complete new manifest
    rd = o.get('reader')
    if rd is not None:
        n = rd['name']
        old_ok = n in prior and _same_as_prior(rd, prior[n])
        new_ok = n in fetchable and rd.get('is_dict') and rd['parsed'] == _merged(case, n)
        if not (old_ok or new_ok):
            out.append(('partial-or-foreign-manifest-visible',
                        'a reader opening cache/%s immediately after os.replace returned sees neither the old content '
                        'nor the complete merged manifest: %r' % (n, (rd.get('text') or '')[:200])))
    # a reader that had the entry open before the update keeps reading the complete old manifest: an update replaces the
    # name, it never writes into the published file (which would expose an empty / half-written manifest on the way)
    for w in o.get('inplace') or []:
        out.append(('published-entry-written-in-place',
                    'cache/%s was rewritten through its existing inode: a reader holding it open read %r before and %r '
                    'after the synchronisation' % (w['name'], w['was'], w['now'])))
    # dot files: untouched; a kill may leave exactly one temporary file
    new_dots = [n for n in o['listing'] if n.startswith('.') and n not in prior and n != READY]
    for n in prior:
        if n.startswith('.') and not (n == READY and ready_touched):
            if n not in o['entries'] or not _same_as_prior(o['entries'][n], prior[n]):
                out.append(('dot-file-changed', 'cache/%s was changed or removed by the synchronisation' % n))
    if o['outcome'] != 2 and new_dots:
        out.append(('temp-file-left-behind', 'no kill, yet %r remain in the cache' % new_dots))
    if o['outcome'] == 2 and len(new_dots) > 1:
        out.append(('temp-file-left-behind', 'more than one temporary file after a kill: %r' % new_dots))
    if o['outcome'] == 9:
        out.append(('harness-child-failed', o['error']))
    if o['outcome'] == 1 and (not o['fired'] or is_probe(case['fault'])) and all('#' in n for n in exp):
        out.append(('synchronize-raised-without-fault', o['error']))
    if o['outcome'] == 0:
        for n in visible:
            if n not in exp:
                out.append(('cache-names-unplaced-instance', 'cache/%s exists but %s is not placed here' % (n, n)))
        for n in sorted(exp):
            if n in case['sched'] and n in case['place'] and n not in o['entries']:
                out.append(('placed-instance-without-cache-file', '%s is placed, manifest and placement '
                            'node exist, but cache/%s does not' % (n, n)))
        for n in sorted(fetchable):
            must_write = n not in prior or (case['check'] and case['place'][n]['rel'] == 'newer')
            e = o['entries'].get(n)
            if must_write and e is not None and not (e.get('is_dict') and e['parsed'] == _merged(case, n)):
                out.append(('written-file-is-not-manifest-merged-with-placement',
                            'cache/%s = %r, expected %r' % (n, e.get('parsed'), _merged(case, n))))
            if not must_write and e is not None and not _same_as_prior(e, prior[n]):
                out.append(('up-to-date-entry-rewritten', 'cache/%s was up to date but changed' % n))
        for n in sorted(exp - fetchable):
            if n not in prior and n in o['entries'] and '#' in n:
                out.append(('cache-file-without-zookeeper-nodes', 'cache/%s written though a node is missing' % n))
    return out or None


# ------------------------------------------------------------------ abstraction to the model's universe
def _tables(case):
    keys = set(KEYS)
    vals = []

    def addv(v):
        t = json.dumps(v, sort_keys=True)
        if t not in vals:
            vals.append(t)
    for m in list(case['sched'].values()) + [p['content'] for p in case['prior'] if p['kind'] == 'dict'] \
            + [p['data'] for p in case['place'].values() if p['data'] is not None]:
        keys.update(m)
        for v in m.values():
            addv(v)
    kid = {'task': 0}
    for k in sorted(keys - {'task'}):
        kid[k] = len(kid)
    return kid, {t: i + 1 for i, t in enumerate(vals)}


_STRV = re.compile(r'^[0-9A-Za-z]{0,12}$')


def _absval(k, v, vid):
    """('s', text) for the task id string, ('i', id) otherwise"""
    if k == 'task' and isinstance(v, str) and _STRV.match(v):
        return ('s', v)
    return ('i', vid.get(json.dumps(v, sort_keys=True), 999999))


def flat_dict(m, kid, vid):
    out = []
    for k in sorted(m, key=lambda k: kid.get(k, 999999)):
        out.append(kid.get(k, 999999))
        t, v = _absval(k, m[k], vid)
        out.extend([1, v] if t == 'i' else [2, len(v)] + [ord(ch) for ch in v])
    return out


def _prior_content(p, kid, vid):
    if p['kind'] == 'dict':
        return flat_dict(p['content'], kid, vid)
    if p['kind'] == 'garbage':
        return [-1, p['garbage']]
    return []


def _obs_content(e, kid, vid):
    if e.get('text') == '':
        return []
    if e.get('text') in GARBAGE:
        return [-1, GARBAGE.index(e['text'])]
    if e.get('is_dict'):
        return flat_dict(e['parsed'], kid, vid)
    return [-2]


def _leftover(case, o):
    prior = _prior_map(case)
    return [n for n in o['listing'] if n.startswith('.') and n not in prior and n != READY]


def _report(case, o):
    names = {p['name'] for p in case['prior']} | set(case['expected']) | set(o['listing']) | {READY}
    left = set(_leftover(case, o))
    return [(n, n not in left) for n in sorted(names)]


def expected(case, o):
    if o['outcome'] == 9:
        return None
    kid, vid = _tables(case)
    out = [o['outcome'], len(o['listing'])]
    for n, with_content in _report(case, o):
        e = o['entries'].get(n)
        if e is None:
            out.append(0)
        elif 'link' in e:
            out.append(2)
        elif with_content:
            c = _obs_content(e, kid, vid)
            out.extend([1, len(c)] + c)
        else:
            out.append(1)
    return out


# ------------------------------------------------------------------ model terms
def t_dict(m, kid, vid):
    items = []
    for k, v in m.items():
        t, a = _absval(k, v, vid)
        items.append(G.pair(G.z(kid[k]), '(VId %s)' % G.z(a) if t == 'i' else '(VStr %s)' % G.string(a)))
    return G.lst(items)


def case_term(case, o):
    kid, vid = _tables(case)
    ctime = {}
    d = []
    for i, p in enumerate(case['prior']):
        ctime[p['name']] = 1000000 + 10 * i
        d.append(G.pair(G.string(p['name']),
                        '(File %s %s)' % (G.zlist(_prior_content(p, kid, vid)), G.z(ctime[p['name']]))))
    sched = G.lst([G.pair(G.string(n), t_dict(m, kid, vid)) for n, m in case['sched'].items()])
    places = []
    for n, p in case['place'].items():
        base = ctime.get(n, 777000)
        ct = {'older': base - 5000, 'equal': base, 'newer': base + 2}[p['rel']]
        places.append(G.pair(G.string(n), '{| pl_data := %s; pl_ctime := %s |}'
                             % (G.opt(p['data'], lambda x: t_dict(x, kid, vid)), G.z(ct))))
    orc = []
    f = case['fault']
    if f and not is_probe(f):
        cfgpre = '.%s-' % f['app']
        sfx = 'x'
        for n in _leftover(case, o):
            sfx = n[len(cfgpre):] if n.startswith(cfgpre) else 'nomatch'
        orc.append(G.pair(G.string(f['app']),
                          '{| w_sfx := %s; w_pre := 1%%nat; w_now := 5%%Z; w_fault := Some (%s, %s) |}'
                          % (G.string(sfx), G.nat(POINT_K[f['point']]), G.b(f['kill']))))
    rep = G.lst([G.pair(G.string(n), G.b(wc)) for n, wc in _report(case, o)])
    return ('{| k_dir := %s; k_zk := {| z_sched := %s; z_place := %s |}; k_expected := %s; k_check := %s; '
            'k_ord := %s; k_orc := %s; k_pre_notify := %s; k_post_notify := %s; k_report := %s |}'
            % (G.lst(d), sched, G.lst(places), G.lst([G.string(n) for n in case['expected']]), G.b(case['check']),
               G.lst([G.string(n) for n in o['order']]), G.lst(orc),
               G.opt(case['pre_notify'], G.b), G.opt(case['post_notify'] if o['outcome'] != 2 else None, G.b), rep))


def nontrivial(case, o):
    prior = _prior_map(case)
    exp = set(case['expected'])
    extra = any(not n.startswith('.') and n not in exp for n in prior)
    fetched = any(n in case['sched'] and n in case['place'] and n not in prior for n in exp)
    return (extra and fetched) or o['fired']


def _extra(_r, cases, obs):
    dist = {'completed': 0, 'raised': 0, 'killed': 0, 'fault_fired': 0, 'check_existing': 0,
            'fault_points': {p: 0 for p in POINTS}, 'presence_combinations': {}}
    for c, o in zip(cases, obs):
        dist[['completed', 'raised', 'killed'][o['outcome']] if o['outcome'] < 3 else 'raised'] += 1
        dist['check_existing'] += bool(c['check'])
        if o['fired']:
            dist['fault_fired'] += 1
            dist['fault_points'][c['fault']['point']] += 1
        names = set(c['expected']) | set(c['sched']) | set(c['place']) | {p['name'] for p in c['prior'] if not p['name'].startswith('.')}
        for n in names:
            key = 'placed=%d manifest=%d placement=%d' % (n in c['expected'], n in c['sched'], n in c['place'])
            dist['presence_combinations'][key] = dist['presence_combinations'].get(key, 0) + 1
    return {'distribution': dist}


TRUSTED = [
    'Coq 8.16.1 kernel (coqc); vm_compute for C12_source_constants and the Example; no native_compute',
    'Print Assumptions: closed under the global context for every theorem of Props/C12.v',
    'the file system is the model Node/Fs.v: a directory is a finite map, each system call is one step, '
    'rename(2)/os.replace replaces the target atomically BY DEFINITION, a reader or a crash sees the state between '
    'two steps (no torn read of one file, no reordering of directory updates by the kernel or the disk: fsync=False '
    'in this call, so durability across power loss is not claimed)',
    'translator harness/tables_c12.py (AST pattern match, fail-closed): temp prefix format, READY_FILE, glob pattern, '
    'AppCfgMgr dot filter, call order of fs.write_safe',
    'hand-written model Node/Cache.v of _synchronize/_cache/_cache_notify/write_safe, tied by differential execution '
    '(cases.v + vm_compute) with the set iteration order, the temp suffix and the fault as recorded inputs',
    'harness abstraction: YAML text <-> sorted (key id, value id) token list (yaml.safe_load of the file; json value '
    'table per case); ZooKeeper = in-memory fake with get/exists/get_children and ctime; fault injection by patching '
    'tempfile.NamedTemporaryFile, yamlwrapper.dump, os.fchmod, os.replace, os.unlink inside the harness process; '
    'os.stat of cache files reports st_ctime truncated to the millisecond (so that ctime == placement time is reachable); '
    'kill = os._exit in a forked child',
]
ASSUMPTIONS = [
    'placed instance names come from ZooKeeper children: non-empty, not starting with a dot (C12_completes also: contain #)',
    'tempfile picks a name that does not exist in the cache directory (O_EXCL retry loop of the standard library)',
    '/scheduled/<instance> payloads are JSON/YAML mappings and placement payloads are mappings or empty, as the master writes them',
    'one writer: no other process creates or removes cache entries during a synchronisation',
    'the close()/flush boundary of the temporary file is covered by the theorem (k = 3) but not by fault injection',
]


def run(tier, seed):
    def extra(r, cases, obs):
        cov = _extra(r, cases, obs)
        from . import c12run       # the cache after EventMgr.run(once=True): the start-up synchronisation
        cov.update(c12run.stage(r, seed, 150 if tier == 'quick' else 4000))
        return cov
    core.standard_run(PID, tier, seed, {
        'model_vos': ['Node/Fs', 'Node/Cache'], 'table_sections': ['c12', 'source_shape'],
        'preamble': preamble(), 'run_fn': RUN_FN, 'in_type': 'case',
        'gen_case': gen_case, 'impl_run': impl_run, 'expected': expected, 'case_term': case_term,
        'oracle': oracle, 'nontrivial': nontrivial,
        'n_quick': 700, 'n_thorough': 20000, 'search_quick': 3000, 'search_thorough': 60000,
        'shard': 100, 'corpus': 'c12.json',
        'rule': 'seeded generator: 7 instance names; each independently placed / with manifest node / with placement '
                'node (all 8 combinations), with or without a prior cache file (same or different manifest, or garbage), '
                'placement ctime older/equal/newer than the file; .ready and stale temp files; check_existing on/off; '
                '55% of cases inject one fault (create, inside dump at a cut, fchmod, replace, right after replace, final '
                'unlink) as exception or kill; right after replace without kill = a reader opens the instance name in the '
                'same process before control returns to write_safe; non-trivial = (an extra entry and a fetched entry) or a fault fired',
        'trusted': TRUSTED, 'assumptions': ASSUMPTIONS, 'anchors': ANCHORS, 'extra': extra,
    })


def replay_case(case):
    if isinstance(case, dict) and case.get('engine') == 'E-node-c12run':
        from . import c12run
        return c12run.replay_case(case)
    v = oracle(case, impl_run(case))
    return v[0] if v else None
