"""C16, third anchored mechanism: "runtime.allocate_network_ports keeps prod and non-prod port ranges disjoint and
ports distinct" (lib/python/treadmill/runtime/__init__.py: _allocate_sockets, _allocate_network_ports_proto,
allocate_network_ports).

A STAGE of the C16 check (to be called from harness/props/c16.py), not a standalone check:

    u = ports.stage(r, seed, tier)

It ties Node/Ports.v to the source: translator section `ports` (harness/tables_ports.py), the theorems of
Props/C16Ports.v (recompiled here, Print Assumptions parsed), differential execution of the REAL
runtime.allocate_network_ports against the model (cases_ports_*.v + vm_compute) and the statement as an oracle on
the real results.

How the real function is driven (nothing in the repository is edited): inside this process the names `socket` and
`random` of the module treadmill.runtime are replaced, for the duration of one call, by
  * a fake socket module: socket(AF_INET, type) objects that bind against an in-memory busy set PER SOCKET TYPE
    (explicit ports + closed ranges + what this call has bound so far), raise socket.error(EADDRINUSE) on a busy
    port, and support getsockname / setsockopt / listen / set_inheritable (recorded);
  * a fake random module whose sample(pool, k) records the request (type of pool, start, stop, step, k) and returns
    the case's list: an explicit list without repetition of ports of the pool ('prefix': a permutation prefix), that
    list followed by the rest of the REQUESTED pool in ascending order ('full': a permutation of the whole pool,
    what random.sample(pool, PORT_SPAN) is), or random.Random(seed).sample(pool, k) itself ('real').
"""
import errno
import logging
import random
import re
import sys
import time

from .. import core, gallina as G

PID = 'C16'
PROPS = 'C16Ports'
SECTIONS = ('ports',)
MODEL_VOS = ['Node/Ports', 'Node/PortsRun', 'Gen/Tables', 'Base/Flat']
PREAMBLE = ('From Coq Require Import ZArith List.\nImport ListNotations.\n'
            'From TM Require Import Node.Ports Node.PortsRun Gen.Tables.\nOpen Scope Z_scope.\n')
RUN_FN = '(run_case ports_tables)'
IN_TYPE = 'pcase'
ANCHORS = ['lib/python/treadmill/runtime/__init__.py', 'lib/python/treadmill/iptables.py']
ENGINE = 'E-ports'

HOST_IP = '10.20.30.40'
ENVS = {'dev': 0, 'qa': 1, 'uat': 2, 'prod': 3}
ENV_OTHER = 9                      # any other environment string
PROTO_CODE = {None: 0, 'tcp': 1, 'udp': 2}
PROTO_OTHER = 7                    # any other protocol string
EP_NAMES = ['http', 'ssh', 'ws', 'admin', 'metrics', 'rpc', 'dns']
FIXED_PORTS = [22, 53, 80, 443, 8000, 8080, 9090]
SHAPES = ('plenty', 'exact_last', 'exact_notlast', 'one_short', 'empty')

# the oracle's own reading of the statement (NOT taken from runtime/__init__.py): the prod range and the non-prod
# range are the ones the firewall (iptables.py: conntrack marks of PROD / NONPROD traffic) is configured with;
# 'uat' and 'prod' containers are prod traffic
PROD_ENVS = ('uat', 'prod')


def _ranges():
    """(prod (lo, hi), nonprod (lo, hi), span) as iptables.py has them"""
    if core.PYLIB not in sys.path:
        sys.path.insert(0, core.PYLIB)
    from treadmill import iptables
    return ((iptables.PROD_PORT_LOW, iptables.PROD_PORT_HIGH),
            (iptables.NONPROD_PORT_LOW, iptables.NONPROD_PORT_HIGH), iptables.PORT_SPAN)


def pool_of(env):
    prod, nonprod, _span = _ranges()
    return prod if env in PROD_ENVS else nonprod


# ------------------------------------------------------------------ generator
def _eff_proto(ep):
    return ep.get('proto', 'tcp')


def _count(case, proto):
    return (sum(1 for ep in case['endpoints'] if _eff_proto(ep) == proto)
            + int(case['ephemeral'].get(proto, 0)))


def _complement(lo, hi, free):
    """closed ranges covering [lo, hi] minus the ports of `free`"""
    out, a = [], lo
    for p in sorted(free):
        if p > a:
            out.append([a, p - 1])
        a = p + 1
    if a <= hi:
        out.append([a, hi])
    return out


def _gen_proto(rng, env, count, mode, shape, real_seed):
    """(sample spec, busy spec, shape actually used) for one protocol"""
    lo, hi = pool_of(env)
    span = _ranges()[2]
    if count == 0 and shape in ('exact_last', 'one_short'):
        shape = 'plenty'
    if mode != 'prefix' and shape == 'empty':
        shape = 'plenty'
    noise = [rng.randint(lo, hi) for _ in range(rng.randint(0, 3))] if rng.random() < 0.3 else []
    if mode == 'real':
        sample = random.Random(real_seed).sample(range(lo, hi + 1), span)
        head = sample[:count + 6]
        busy = sorted(set(rng.sample(head, rng.randint(0, min(4, len(head))))))
        return {'mode': 'real', 'seed': real_seed}, {'ports': busy, 'ranges': []}, 'plenty'
    if mode == 'prefix':
        if shape == 'empty':
            return {'mode': 'prefix', 'ports': []}, {'ports': noise, 'ranges': []}, shape
        nbusy = rng.randint(0, 4)
        nfree = count + rng.randint(1, 6) if shape == 'plenty' else count if shape != 'one_short' else count - 1
        flags = [True] * nfree + [False] * nbusy          # True = bind succeeds
        rng.shuffle(flags)
        if shape == 'exact_last' and not flags[-1]:        # count >= 1 here: the last sampled port is a free one
            k = flags.index(True)
            flags[k], flags[-1] = flags[-1], flags[k]
        elif shape == 'exact_notlast' and (not flags or flags[-1]):
            if False not in flags:
                flags.append(False)
            else:
                k = flags.index(False)
                flags[k], flags[-1] = flags[-1], flags[k]
        elif shape == 'one_short' and not flags:
            flags = [False]
        ports = rng.sample(range(lo, hi + 1), len(flags))
        busy_idx = [k for k, f in enumerate(flags) if not f]
        busy = sorted(set(ports[i] for i in busy_idx) | set(p for p in noise if p not in ports))
        return {'mode': 'prefix', 'ports': ports}, {'ports': busy, 'ranges': []}, shape
    # full: prefix + the rest of the pool ascending
    prefix = rng.sample(range(lo, hi + 1), rng.randint(0, 6))
    last = max(p for p in range(hi, hi - 8, -1) if p not in prefix)
    if shape == 'plenty':
        cand = prefix + list(range(lo, lo + count + 4))
        busy = sorted(set(rng.sample(cand, rng.randint(0, min(4, len(cand))))))
        return {'mode': 'full', 'ports': prefix}, {'ports': busy, 'ranges': []}, shape
    pool_wo_last = [p for p in (prefix + [rng.randint(lo, hi) for _ in range(12)]) if p != last]
    pool_wo_last = list(dict.fromkeys(pool_wo_last))
    if shape == 'exact_last':
        free = set(pool_wo_last[:count - 1]) | {last}
    elif shape == 'exact_notlast':
        free = set(pool_wo_last[:count])
    else:
        free = set(pool_wo_last[:count - 1])
    return {'mode': 'full', 'ports': prefix}, {'ports': [], 'ranges': _complement(lo, hi, free)}, shape


def gen_case(rng, i, mode=None):
    k = rng.random()
    env = rng.choice(['dev', 'qa', 'uat', 'prod']) if k < 0.96 else rng.choice(['test', 'sandbox', 'PROD'])
    eps = []
    for j in range(rng.choice([0, 1, 1, 2, 2, 3, 3, 4, 5, 6])):
        ep = {'name': EP_NAMES[j], 'port': 0 if rng.random() < 0.4 else rng.choice(FIXED_PORTS)}
        q = rng.random()
        if q < 0.40:
            ep['proto'] = 'tcp'
        elif q < 0.72:
            ep['proto'] = 'udp'
        elif q < 0.97:
            pass                                     # no 'proto' key
        else:
            ep['proto'] = 'sctp'                     # neither pass takes it
        if rng.random() < 0.05:
            ep['real_port'] = rng.randint(1024, 65535)   # a stale value is overwritten
        eps.append(ep)
    eph = {}
    for proto in ('tcp', 'udp'):
        if rng.random() < 0.8:
            eph[proto] = rng.choice([0, 0, 1, 1, 2, 3, 4])
    case = {'env': env, 'endpoints': eps, 'ephemeral': eph, 'sample': {}, 'busy': {}, 'shape': {}}
    if mode is None:
        mode = 'prefix' if rng.random() < 0.89 else 'full'
    for proto in ('tcp', 'udp'):
        q = rng.random()
        if proto == 'tcp':      # the udp pass only runs when the tcp pass succeeded
            shape = ('plenty' if q < 0.50 else 'exact_notlast' if q < 0.70 else 'exact_last' if q < 0.84
                     else 'one_short' if q < 0.97 else 'empty')
        else:
            shape = ('plenty' if q < 0.40 else 'exact_notlast' if q < 0.58 else 'exact_last' if q < 0.78
                     else 'one_short' if q < 0.97 else 'empty')
        s, b, shape = _gen_proto(rng, env, _count(case, proto), mode, shape, rng.randint(0, 2 ** 31))
        case['sample'][proto], case['busy'][proto], case['shape'][proto] = s, b, shape
    return case


def gen_cases(rng, n, n_real):
    cases = [gen_case(rng, i, mode='real') for i in range(n_real)]
    while len(cases) < n:
        cases.append(gen_case(rng, len(cases)))
    return cases


# ------------------------------------------------------------------ implementation (fakes patched into treadmill.runtime)
_IMPL = None


def impl():
    global _IMPL
    if _IMPL is None:
        if core.PYLIB not in sys.path:
            sys.path.insert(0, core.PYLIB)
        from treadmill import runtime
        _IMPL = runtime
    return _IMPL


class _World(object):
    """the host: per socket type, the ports bind() refuses"""

    def __init__(self, case):
        self.busy = {}
        for proto, so_type in (('tcp', FakeSocketModule.SOCK_STREAM), ('udp', FakeSocketModule.SOCK_DGRAM)):
            b = case['busy'][proto]
            self.busy[so_type] = (set(b['ports']), [tuple(r) for r in b['ranges']], set())
        self.created = []
        self.anomalies = []

    def is_busy(self, so_type, port):
        ports, ranges, bound = self.busy[so_type]
        return port in ports or port in bound or any(a <= port <= b for a, b in ranges)


class FakeSocket(object):
    def __init__(self, world, family, so_type):
        self.world, self.family, self.type = world, family, so_type
        self.addr = None
        self.listening = None
        self.opts = []
        self.inheritable = False
        world.created.append(self)
        if family != FakeSocketModule.AF_INET:
            world.anomalies.append('socket family %r' % (family,))
        if so_type not in world.busy:
            world.anomalies.append('socket type %r' % (so_type,))

    def bind(self, addr):
        ip, port = addr
        if ip != HOST_IP:
            self.world.anomalies.append('bind to %r' % (ip,))
        if self.addr is not None:
            raise OSError(errno.EINVAL, 'Invalid argument')
        if self.world.is_busy(self.type, port):
            # Linux lets two UDP sockets that BOTH set SO_REUSEADDR before bind() share an address. The holders of the
            # busy ports are other containers' sockets made by this same code, so they carry the options this socket
            # carries: a udp socket that set SO_REUSEADDR before binding is let in (and the oracle then sees a port of
            # the busy set handed out). TCP holders are listening: always refused.
            shared = (self.type == FakeSocketModule.SOCK_DGRAM
                      and (FakeSocketModule.SOL_SOCKET, FakeSocketModule.SO_REUSEADDR, 1) in self.opts)
            if not shared:
                raise OSError(errno.EADDRINUSE, 'Address already in use')
        self.world.busy[self.type][2].add(port)
        self.addr = (ip, port)

    def setsockopt(self, level, opt, value):
        self.opts.append((level, opt, value))

    def listen(self, backlog):
        if self.type != FakeSocketModule.SOCK_STREAM or self.addr is None:
            raise OSError(errno.EOPNOTSUPP, 'Operation not supported')
        self.listening = backlog

    def set_inheritable(self, flag):
        self.inheritable = bool(flag)

    def getsockname(self):
        return self.addr if self.addr is not None else ('0.0.0.0', 0)


class FakeSocketModule(object):
    AF_INET = 2
    SOCK_STREAM = 1
    SOCK_DGRAM = 2
    SOL_SOCKET = 1
    SO_REUSEADDR = 2
    error = OSError

    def __init__(self, world):
        self._world = world

    def socket(self, family=-1, type=-1, *_a):   # noqa: the real signature
        return FakeSocket(self._world, family, type)


class FakeRandom(object):
    """random.sample(pool, k): records the request, returns the case's list (see the module docstring)"""

    def __init__(self, case):
        self.specs = [case['sample']['tcp'], case['sample']['udp']]
        self.calls = []
        self.returned = []

    def sample(self, pool, k):
        i = len(self.calls)
        if isinstance(pool, range):
            self.calls.append(['range', pool.start, pool.stop, pool.step, k])
        else:
            self.calls.append([type(pool).__name__, 0, 0, 0, k])
        spec = self.specs[i] if i < len(self.specs) else {'mode': 'prefix', 'ports': []}
        if spec['mode'] == 'prefix':
            out = list(spec['ports'])
        elif spec['mode'] == 'full':
            pre = set(spec['ports'])
            out = (list(spec['ports']) + [p for p in pool if p not in pre])
        else:
            out = random.Random(spec['seed']).sample(pool, k)
        self.returned.append(out)
        return out


def impl_run(case):
    """drive the real allocate_network_ports; everything JSON-able"""
    runtime = impl()
    manifest = {'environment': case['env'],
                'endpoints': [dict(ep) for ep in case['endpoints']],
                'ephemeral_ports': dict(case['ephemeral'])}
    world = _World(case)
    fsock, frand = FakeSocketModule(world), FakeRandom(case)
    saved = (runtime.socket, runtime.random)
    runtime.socket, runtime.random = fsock, frand
    obs = {}
    try:
        try:
            socks = runtime.allocate_network_ports(HOST_IP, manifest)
            obs['outcome'] = 'ok'
            obs['sockets'] = [[s.type, s.getsockname()[1], s.listening, bool(s.inheritable),
                               [list(o) for o in s.opts]] if isinstance(s, FakeSocket) else ['?', repr(s)[:40]]
                              for s in socks]
        except Exception as exc:   # noqa
            obs['outcome'] = 'error'
            reason = getattr(exc, 'reason', None)
            obs['error'] = [type(exc).__name__, str(getattr(exc, 'message', exc))[:80],
                            str(getattr(reason, 'value', reason))]
    finally:
        runtime.socket, runtime.random = saved
    obs['sample_calls'] = frand.calls
    # the lists random.sample returned: kept whole only when short (the oracle recomputes the long ones)
    obs['sample_returned'] = [r if len(r) <= 64 else None for r in frand.returned]
    obs['sample_facts'] = [{'len': len(r), 'distinct': len(set(r)) == len(r), 'min': min(r) if r else None,
                            'max': max(r) if r else None, 'last': r[-1] if r else None,
                            'free': sum(1 for p in r if not _initially_busy(case, j, p))}
                           for j, r in enumerate(frand.returned)]
    obs['bound'] = {'tcp': len(world.busy[FakeSocketModule.SOCK_STREAM][2]),
                    'udp': len(world.busy[FakeSocketModule.SOCK_DGRAM][2])}
    obs['created'] = len(world.created)
    obs['anomalies'] = world.anomalies[:5]
    obs['manifest'] = manifest
    return obs


def _initially_busy(case, j, port):
    b = case['busy'][('tcp', 'udp')[j]] if j < 2 else {'ports': [], 'ranges': []}
    return port in b['ports'] or any(a <= port <= c for a, c in b['ranges'])


# ------------------------------------------------------------------ oracle: the statement on implementation results
_MSG = re.compile(r'^(\d+) < (\d+)$')


def oracle(case, obs):
    out = []
    env = case['env']
    lo, hi = pool_of(env)
    prod, nonprod, span = _ranges()
    if not (prod[1] < nonprod[0] or nonprod[1] < prod[0]):
        out.append(('ports-prod-and-nonprod-ranges-overlap', 'iptables: prod %r and non-prod %r overlap' % (prod, nonprod)))
    if obs['anomalies']:
        out.append(('ports-unexpected-socket-use', '; '.join(obs['anomalies'])))
    # the pool every sample is drawn from is the range of the environment's class, PORT_SPAN ports are asked for
    for j, call in enumerate(obs['sample_calls']):
        if call != ['range', lo, hi + 1, 1, span]:
            out.append(('ports-sample-drawn-from-wrong-pool',
                         'environment %r (%s): random.sample asked for %r, the %s range is %d..%d and PORT_SPAN %d'
                         % (env, 'prod' if env in PROD_ENVS else 'non-prod', call,
                            'prod' if env in PROD_ENVS else 'non-prod', lo, hi, span)))
    want = {p: _count(case, p) for p in ('tcp', 'udp')}
    facts = obs['sample_facts']
    # the hypothesis of the theorems on what random.sample returns (the real one in 'real' mode)
    for j, f in enumerate(facts):
        if not f['distinct'] or (f['len'] and not (lo <= f['min'] and f['max'] <= hi)) \
                or (case['sample'][('tcp', 'udp')[j]]['mode'] != 'prefix' and f['len'] != span):
            out.append(('ports-sample-not-a-repetition-free-list-of-the-pool', 'sample %d: %r (pool %d..%d, span %d)'
                         % (j, f, lo, hi, span)))
    if obs['outcome'] == 'ok':
        socks = obs['sockets']
        if any(s[0] == '?' for s in socks):
            return out + [('ports-returned-foreign-object', repr(socks)[:200])]
        by = {'tcp': [s[1] for s in socks if s[0] == FakeSocketModule.SOCK_STREAM],
              'udp': [s[1] for s in socks if s[0] == FakeSocketModule.SOCK_DGRAM]}
        if [s[0] for s in socks] != [FakeSocketModule.SOCK_STREAM] * len(by['tcp']) + [FakeSocketModule.SOCK_DGRAM] * len(by['udp']):
            out.append(('ports-sockets-not-tcp-then-udp', 'socket types in order: %r' % [s[0] for s in socks]))
        for proto in ('tcp', 'udp'):
            ports = by[proto]
            if len(ports) != want[proto]:
                out.append(('ports-wrong-number-of-ports', '%s: %d ports returned, %d endpoints + ephemeral ports wanted'
                             % (proto, len(ports), want[proto])))
            if len(set(ports)) != len(ports):
                out.append(('ports-duplicate-port', '%s ports %r are not pairwise distinct' % (proto, ports)))
            j = ('tcp', 'udp').index(proto)
            for p in ports:
                if _initially_busy(case, j, p):
                    out.append(('ports-busy-port-handed-out', '%s port %d was already bound on the host' % (proto, p)))
                if not lo <= p <= hi:
                    out.append(('ports-port-outside-environment-range',
                                 '%s port %d of a %r container is outside %d..%d' % (proto, p, env, lo, hi)))
            if j < len(facts) and facts[j]['free'] < want[proto]:
                out.append(('ports-more-ports-than-free-in-sample', '%s: %d ports returned but the sample has %d free'
                             % (proto, len(ports), facts[j]['free'])))
        for s in socks:
            if not s[3]:
                out.append(('ports-socket-not-inheritable', 'port %d would not survive the exec of the container' % s[1]))
            if s[0] == FakeSocketModule.SOCK_STREAM and s[2] is None:
                out.append(('ports-tcp-socket-not-listening', 'port %d is bound but not held by listen()' % s[1]))
        # the manifest: endpoints first, in manifest order; port 0 = the real port; the rest ephemeral
        man = obs['manifest']
        if len(man['endpoints']) != len(case['endpoints']):
            out.append(('ports-endpoint-list-changed', '%d endpoints became %d' % (len(case['endpoints']), len(man['endpoints']))))
        else:
            nxt = {'tcp': 0, 'udp': 0}
            for before, after in zip(case['endpoints'], man['endpoints']):
                proto = _eff_proto(before)
                if proto not in nxt:
                    if after != before:
                        out.append(('ports-foreign-endpoint-touched', '%r became %r' % (before, after)))
                    continue
                exp = dict(before)
                if nxt[proto] < len(by[proto]):
                    exp['real_port'] = by[proto][nxt[proto]]
                    if before['port'] == 0:
                        exp['port'] = exp['real_port']
                nxt[proto] += 1
                if after != exp:
                    out.append(('ports-endpoint-wrong-real-port', 'endpoint %r became %r, expected %r (sockets %r)'
                                 % (before, after, exp, by[proto])))
            for proto in ('tcp', 'udp'):
                if man['ephemeral_ports'].get(proto) != by[proto][nxt[proto]:]:
                    out.append(('ports-ephemeral-ports-wrong', 'ephemeral_ports[%s] = %r, the sockets after the endpoints are %r'
                                 % (proto, man['ephemeral_ports'].get(proto), by[proto][nxt[proto]:])))
            seen = {}
            for after in man['endpoints']:
                key = (_eff_proto(after), after.get('real_port'))
                if key[1] is not None and key in seen:
                    out.append(('ports-two-endpoints-one-real-port', '%r and %r' % (seen[key], after)))
                seen[key] = after
    else:
        cls, msg, reason = obs['error']
        j = len(obs['sample_calls']) - 1
        proto = ('tcp', 'udp')[j] if 0 <= j < 2 else '?'
        m = _MSG.match(msg)
        if cls != 'ContainerSetupError' or reason != 'ports' or not m or proto == '?':
            out.append(('ports-unexpected-exception', '%s(%r, reason=%s) after %d sample calls'
                         % (cls, msg, reason, len(obs['sample_calls']))))
        else:
            free = facts[j]['free']
            if free > want[proto]:
                out.append(('ports-error-although-more-free-ports-than-needed',
                             '%s: ContainerSetupError(%r) but %d of the %d sampled ports are free and %d are needed'
                             % (proto, msg, free, facts[j]['len'], want[proto])))
            # free == want: the boundary (the last sampled port is the last one needed) - real behaviour, proved as
            # C16P_exactly_enough_boundary / C16P_error_iff_fewer_refuted, counted in the coverage, not a violation
            if int(m.group(2)) != want[proto]:
                out.append(('ports-error-message-count', '%s: message %r, %d ports were needed' % (proto, msg, want[proto])))
    return out


def is_boundary(case, obs):
    """the error was raised although exactly enough free ports were in the sample"""
    if obs.get('outcome') != 'error' or obs['error'][0] != 'ContainerSetupError':
        return False
    j = len(obs['sample_calls']) - 1
    if not 0 <= j < 2:
        return False
    return obs['sample_facts'][j]['free'] == _count(case, ('tcp', 'udp')[j]) and obs['sample_facts'][j]['len'] > 0


# ------------------------------------------------------------------ model terms / flattening
def _zs(ns):
    return '[' + '; '.join(('(%d)' % n) if n < 0 else str(n) for n in ns) + ']'


def _proto_code(ep):
    if 'proto' not in ep:
        return 0
    return PROTO_CODE.get(ep['proto'], PROTO_OTHER)


def _flat_eph(v):
    if v is None:
        return [0]
    if isinstance(v, list):
        return [2, len(v)] + [int(x) for x in v]
    return [1, int(v)]


def expected(case, obs):
    """the implementation's observables, flattened like Node/PortsRun.v run_case"""
    calls = []
    for c in obs['sample_calls']:
        if c[0] != 'range' or c[3] != 1:
            return [-1]
        calls += [c[1], c[2], c[4]]
    if obs['outcome'] == 'ok':
        socks = obs['sockets']
        if any(s[0] == '?' for s in socks):
            return [-1]
        tcp = [s[1] for s in socks if s[0] == FakeSocketModule.SOCK_STREAM]
        udp = [s[1] for s in socks if s[0] == FakeSocketModule.SOCK_DGRAM]
        if [s[1] for s in socks] != tcp + udp:
            return [-1]
        out = [0, len(tcp)] + tcp + [len(udp)] + udp + calls
    else:
        cls, msg, reason = obs['error']
        m = _MSG.match(msg)
        if cls != 'ContainerSetupError' or reason != 'ports' or not m or len(obs['sample_calls']) not in (1, 2):
            return [-1]
        out = [len(obs['sample_calls']), int(m.group(1)), int(m.group(2))] + calls
    man = obs['manifest']
    out.append(len(man['endpoints']))
    for ep in man['endpoints']:
        if set(ep) - {'name', 'proto', 'port', 'real_port'} or ep.get('name') not in EP_NAMES:
            return [-1]
        out += [EP_NAMES.index(ep['name']) + 1, _proto_code(ep), int(ep['port'])]
        out += [1, int(ep['real_port'])] if 'real_port' in ep else [0]
    if set(man['ephemeral_ports']) - {'tcp', 'udp'}:
        return [-1]
    out += _flat_eph(man['ephemeral_ports'].get('tcp')) + _flat_eph(man['ephemeral_ports'].get('udp'))
    return out


def _t_sample(spec):
    if spec['mode'] == 'real':
        lo_hi = spec['_pool']
        full = random.Random(spec['seed']).sample(range(lo_hi[0], lo_hi[1] + 1), spec['_k'])
        return '{| ss_full := false; ss_prefix := %s |}' % _zs(full)
    return '{| ss_full := %s; ss_prefix := %s |}' % (G.b(spec['mode'] == 'full'), _zs(spec['ports']))


def _t_busy(b):
    return '{| bs_ports := %s; bs_ranges := %s |}' % (
        _zs(b['ports']), '[' + '; '.join('(%d, %d)' % (a, c) for a, c in b['ranges']) + ']')


def case_term(case):
    eps = []
    for ep in case['endpoints']:
        eps.append('{| ep_name := %d; ep_proto := %d; ep_port := %d; ep_real := %s |}'
                   % (EP_NAMES.index(ep['name']) + 1, _proto_code(ep), ep['port'],
                      ('(Some %d)' % ep['real_port']) if 'real_port' in ep else 'None'))

    def cnt(proto):
        return ('(Some %s)' % G.nat(case['ephemeral'][proto])) if proto in case['ephemeral'] else 'None'
    samples = {}
    for proto in ('tcp', 'udp'):
        spec = dict(case['sample'][proto])
        if spec['mode'] == 'real':      # the model is given the list the oracle's reading of the pool yields
            spec['_pool'] = pool_of(case['env'])
            spec['_k'] = _ranges()[2]
        samples[proto] = _t_sample(spec)
    return ('{| c_m := {| m_env := %d; m_eps := [%s]; m_eph_tcp := %s; m_eph_udp := %s |}; '
            'c_samp_tcp := %s; c_samp_udp := %s; c_busy_tcp := %s; c_busy_udp := %s |}'
            % (ENVS.get(case['env'], ENV_OTHER), '; '.join(eps), cnt('tcp'), cnt('udp'),
               samples['tcp'], samples['udp'], _t_busy(case['busy']['tcp']), _t_busy(case['busy']['udp'])))


# ------------------------------------------------------------------ the stage
def _quiet():
    lg = logging.getLogger('treadmill')
    state = (lg.disabled,)
    lg.disabled = True
    return lg, state


def _distribution(cases, obs):
    d = {'env': {}, 'sample_mode': {}, 'shape_tcp': {}, 'shape_udp_when_run': {}, 'outcome': {},
         'endpoints': {}, 'proto': {'tcp': 0, 'udp': 0, 'absent': 0, 'other': 0}, 'port_zero': 0, 'port_fixed': 0,
         'ephemeral_tcp': {}, 'ephemeral_udp': {}, 'stale_real_port': 0, 'busy_port_skipped': 0,
         'boundary_error_with_exactly_enough_free_ports': 0, 'tcp_udp_share_a_number': 0,
         'whole_pool_exhausted': 0, 'sockets_created_max': 0}

    def inc(t, k):
        t[str(k)] = t.get(str(k), 0) + 1
    for c, o in zip(cases, obs):
        inc(d['env'], c['env'])
        inc(d['sample_mode'], c['sample']['tcp']['mode'])
        inc(d['shape_tcp'], c['shape']['tcp'])
        if len(o['sample_calls']) == 2:
            inc(d['shape_udp_when_run'], c['shape']['udp'])
        key = o['outcome'] if o['outcome'] == 'ok' else 'error-%s' % ('tcp', 'udp')[min(1, max(0, len(o['sample_calls']) - 1))]
        inc(d['outcome'], key)
        inc(d['endpoints'], len(c['endpoints']))
        for ep in c['endpoints']:
            p = ep.get('proto')
            d['proto']['absent' if p is None else p if p in ('tcp', 'udp') else 'other'] += 1
            d['port_zero' if ep['port'] == 0 else 'port_fixed'] += 1
            d['stale_real_port'] += 'real_port' in ep
        inc(d['ephemeral_tcp'], c['ephemeral'].get('tcp', 'absent'))
        inc(d['ephemeral_udp'], c['ephemeral'].get('udp', 'absent'))
        d['boundary_error_with_exactly_enough_free_ports'] += is_boundary(c, o)
        d['sockets_created_max'] = max(d['sockets_created_max'], o['created'])
        d['whole_pool_exhausted'] += o['created'] >= 8000
        if o['outcome'] == 'ok':
            tcp = set(s[1] for s in o['sockets'] if s[0] == FakeSocketModule.SOCK_STREAM)
            udp = set(s[1] for s in o['sockets'] if s[0] == FakeSocketModule.SOCK_DGRAM)
            d['tcp_udp_share_a_number'] += bool(tcp & udp)
            d['busy_port_skipped'] += o['created'] > len(o['sockets'])
    return d


def stage(r, seed, tier, n=None):
    """Run the port-allocation stage on the Run `r`; returns coverage counters (a dict to merge into the coverage)."""
    t0 = time.time()
    rng = random.Random(seed + 1613)
    n = n or (900 if tier == 'quick' else 20000)
    lg, state = _quiet()
    try:
        return _stage(r, seed, tier, rng, n, t0)
    except Exception as exc:   # never lose the verdict: an unusable tie is a broken obligation
        import traceback
        r.broken_obligation('correspondence', 'C16 ports stage failed: %s: %s' % (type(exc).__name__, str(exc)[:300]),
                            traceback.format_exc())
        return {'ports_stage': {'error': '%s: %s' % (type(exc).__name__, str(exc)[:300])}, 'ports_obligations': 0}
    finally:
        lg.disabled = state[0]


def _stage(r, seed, tier, rng, n, t0):
    # 1. tables, model, theorems
    with core.build_lock():
        terr = core.regen_tables()
        for sec, msg in terr:
            if sec in SECTIONS:
                r.broken_obligation('tables', 'translator section %s' % sec, msg)
        okm, logm = core.make(MODEL_VOS)
        proof = core.compile_props(PROPS)
    if not proof['ok']:
        r.broken_obligation('proof', proof['failed'] or 'Props/%s.v' % PROPS, proof['log'])
    elif not proof['axioms_ok']:
        r.broken_obligation('proof', 'Props/%s.v Print Assumptions: %s' % (PROPS, ', '.join(proof['axioms'])))
    # 2. the real function + the oracle
    cases = gen_cases(rng, n, 2 if tier == 'quick' else 12)
    obs, pairs = [], []
    nviol = [0]

    def consider(c, o):
        for sig, what in oracle(c, o):
            nviol[0] += 1
            r.violation(sig, what, {'engine': ENGINE, 'case': c},
                        {'impl_observed': {k: v for k, v in o.items() if k != 'sample_returned'}})
    harness_errors = []
    for c in cases:
        try:
            o = impl_run(c)
            consider(c, o)
            pairs.append((case_term(c), G.zlist(expected(c, o))))
        except Exception as exc:   # the harness can no longer drive the implementation: a broken tie
            import traceback
            harness_errors.append('%s: %s' % (type(exc).__name__, str(exc)[:200]))
            if len(harness_errors) == 1:
                r.broken_obligation('correspondence', 'C16 ports stage could not drive the implementation (%s)'
                                    % harness_errors[0], traceback.format_exc())
            o = {'harness_error': harness_errors[-1]}
            pairs.append(None)
        obs.append(o)
    # 3. the model on the same cases (whole-pool samples are expensive: they get their own small shards)
    live = [(i, p) for i, p in enumerate(pairs) if p is not None]
    mism, err = [], None
    with core.build_lock():
        core.regen_tables()
        okm2, logm2 = core.make(MODEL_VOS)
        if not (okm and okm2):
            err = 'model does not build: ' + (logm2 if not okm2 else logm)[-1200:]
        else:
            heavy = [(i, p) for i, p in live if cases[i]['sample']['tcp']['mode'] != 'prefix']
            light = [(i, p) for i, p in live if cases[i]['sample']['tcp']['mode'] == 'prefix']
            for group, shard, tag in ((light, 400, 'cases_ports'), (heavy, 25, 'cases_ports_full')):
                if not group:
                    continue
                mm, e = core.run_mismatches(PREAMBLE, RUN_FN, [p for _i, p in group], IN_TYPE, shard=shard,
                                            timeout=600, tag=tag)
                mism += [group[j][0] for j in mm]
                err = e or err
            if mism:
                import json
                smallest = min(mism, key=lambda i: len(json.dumps(cases[i], default=str)))
                mo, _e = core.model_output(PREAMBLE, RUN_FN, pairs[smallest][0])
                r.broken_obligation('correspondence',
                                    'C16 ports: model vs implementation: %d of %d cases differ' % (len(mism), len(live)),
                                    json.dumps({'case': cases[smallest],
                                                'impl_observed': {k: v for k, v in obs[smallest].items()
                                                                  if k != 'sample_returned'},
                                                'impl_flat': expected(cases[smallest], obs[smallest]),
                                                'model_flat': mo}, default=str))
    if err:
        r.broken_obligation('correspondence', 'C16 ports: the model could not be evaluated', err)
    # 4. something broke and the oracle has no failing input yet: search further (implementation + oracle only)
    searched = 0
    mine_broken = (not proof['ok']) or (not proof['axioms_ok']) or err or mism or harness_errors \
        or any(sec in SECTIONS for sec, _m in terr)
    if mine_broken and not nviol[0]:
        rng2 = random.Random(seed + 1614)
        t_end = time.time() + (10 if tier == 'quick' else 300)
        for _k in range(6000 if tier == 'quick' else 200000):
            searched += 1
            c = gen_case(rng2, searched)
            try:
                consider(c, impl_run(c))
            except Exception:   # noqa
                continue
            if nviol[0] > 20 or time.time() > t_end:
                break
    okobs = [(c, o) for c, o in zip(cases, obs) if 'harness_error' not in o]
    cov = {
        'cases': len(cases), 'correspondence_cases': len(live), 'correspondence_mismatches': len(mism),
        'oracle_violations': nviol[0], 'extra_search_cases': searched, 'harness_errors': len(harness_errors),
        'distribution': _distribution([c for c, _o in okobs], [o for _c, o in okobs]),
        'theorems': proof['theorems'], 'proof_ok': bool(proof['ok'] and proof['axioms_ok']),
        'print_assumptions': ('all closed under the global context (%d)' % proof['closed_count']
                              if not proof['axioms'] else 'axioms: ' + ', '.join(proof['axioms'])),
        'checker_cmd': proof['cmd'], 'table_sections': list(SECTIONS),
        'source_sha256': core.source_hashes(ANCHORS), 'wall_s': round(time.time() - t0, 2),
        'rule': 'seeded (random.Random(seed+1613)): environment dev/qa/uat/prod (4% another string); 0-6 endpoints, proto '
                'tcp 40% / udp 32% / absent 25% / another string 3%, port 0 40% or a fixed port, 5% with a stale '
                'real_port; ephemeral counts 0-4 per protocol or key absent (20%); per protocol the sample and the busy '
                'set are built to a shape: plenty of free ports / exactly enough with the last sampled port busy / '
                'exactly enough with the last sampled port free (the boundary) / one too few / empty sample; 89% '
                'permutation prefixes, 11% permutations of the whole pool (prefix + the rest ascending; exhaustion via '
                'busy ranges covering the pool except the chosen free ports), plus a few samples of the real '
                'random.sample under a seed',
    }
    return {'ports_stage': cov, 'ports_obligations': len(proof['theorems'])}


TRUSTED = [
    'Props/C16Ports.v: Coq 8.16.1 kernel; vm_compute for C16P_tables_ok and the Examples; Print Assumptions closed',
    'translator harness/tables_ports.py: PORT_SPAN, PROD_PORT_LOW/HIGH, NONPROD_PORT_LOW/HIGH read from the imported '
    'treadmill.runtime (checked equal to treadmill.iptables; bound once in iptables.py and only by the pinned '
    '"if os.name == \'posix\'" statement in runtime/__init__.py); the shape of _allocate_sockets, '
    '_allocate_network_ports_proto, allocate_network_ports pinned by AST template (constants as holes); fail-closed',
    'hand-written model Node/Ports.v, tied by differential execution of the real allocate_network_ports with the '
    'names socket and random of treadmill.runtime replaced by in-process fakes (cases_ports_*.v + vm_compute)',
    'the kernel is a fake: bind() fails with EADDRINUSE exactly on the ports of a fixed set per socket type (tcp and '
    'udp port spaces independent, as in Linux) and on ports this call has bound; other bind errors (re-raised by the '
    'code) and ports being taken by other processes during the loop are not modelled',
    'random.sample is an input of the model: any list without repetition of ports of the requested pool (checked on '
    'the real random.sample for a few seeds per run)',
]
ASSUMPTIONS = [
    "manifest['endpoints'] entries have an int 'port' and manifest['ephemeral_ports'] holds non-negative int counts "
    '(or lacks the key) when allocate_network_ports is called (the manifest schema / app_manifest defaults)',
    'the host is posix (runtime/__init__.py takes the constants from iptables.py)',
]


def replay_case(case):
    """case = the dict stored in a replay file ({'engine': 'E-ports', 'case': ...}) or the inner case"""
    c = case['case'] if isinstance(case, dict) and case.get('engine') == ENGINE else case
    lg, state = _quiet()
    try:
        v = oracle(c, impl_run(c))
    finally:
        lg.disabled = state[0]
    return v[0] if v else None
