"""C09: the published placement equals the scheduler's model after every cycle.

Theorems: Props/C09.v (publication half: C09_publication, C09_published_equals_model; start-up: C09_startup_names,
C09_startup_content_refuted).  Oracle (E-master): after every MasterCycle and after every Restart the set of
(server, instance, identity, expires) in the store equals what Master.cell holds, nothing for pending or unscheduled
instances.  The between-cycles invariant (handlers keep the store in step with what the next cycle reads as
`before`) is covered by oracle + correspondence only."""
from .. import core, emaster

PID = 'C09'


def run(tier, seed):
    spec = emaster.make_spec(PID, 'c09', n_quick=500, n_thorough=15000,
                             rule_extra='content of every placement node compared with Master.cell after every '
                                        'cycle and restart')
    # between-cycles invariant: Master/Handlers.v, Props/C09Handlers.v, harness/props/c09handlers.py
    from . import c09handlers
    spec['trusted'] = list(spec.get('trusted', [])) + list(c09handlers.TRUSTED)
    spec['assumptions'] = list(spec.get('assumptions', [])) + list(c09handlers.ASSUMPTIONS)
    # the functions that perform the store writes: Store/ZkUtils.v, Props/C09Zk.v, harness/props/zkutilsstage.py
    from . import zkutilsstage
    spec['trusted'] += list(zkutilsstage.TRUSTED)
    spec['assumptions'] += list(zkutilsstage.ASSUMPTIONS)
    spec['table_sections'] = list(spec.get('table_sections', [])) + list(zkutilsstage.SECTIONS)
    inner = spec.get('extra')

    def extra(r, cases, obs):
        cov = inner(r, cases, obs) if inner else {}
        u = c09handlers.stage(r, seed, tier)
        cov['extra_obligations'] = cov.get('extra_obligations', 0) + u.pop('handler_obligations', 0)
        cov.update(u)
        z = zkutilsstage.stage(r, seed, tier)
        cov['extra_obligations'] = cov.get('extra_obligations', 0) + z.pop('zkutils_obligations', 0)
        cov.update(z)
        return cov
    spec['extra'] = extra
    core.standard_run(PID, tier, seed, spec)


def replay_case(case):
    if isinstance(case, dict) and case.get('engine') == 'E-master-c09handlers':
        from . import c09handlers
        return c09handlers.replay_case(case)
    if isinstance(case, dict) and case.get('engine') == 'E-zkutils':
        from . import zkutilsstage
        return zkutilsstage.replay_case(case)
    return emaster.replay(PID, case)
