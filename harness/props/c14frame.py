"""C14 through the resource-service FRAMEWORK: services/_base_service.py + _linux_base_service.py drive the real
NetworkResourceService the way the node does.

The main C14 correspondence plays `svc_restart` as "initialize, then the generator re-issues the live requests, then
synchronize" - the replay itself is the harness's. Here nothing of the framework is re-enacted: the real
`LinuxResourceService._run` runs its real start-up sequence (initialize, `_check_requests`, the faked created events,
synchronize) and its real poll loop over a real inotify watcher on a real resources/ directory; containers use the real
`ResourceServiceClient` (put / delete). The scenario is executed from inside the loop: the watchdog lease the framework
heartbeats once per iteration is the harness, which performs the next step(s), lets the loop run two more iterations so
every queued event is handled, and evaluates the statement. A `restart` step ends the loop (`_is_dead`) and starts a new
service object on the same directory; steps between `stop` and `boot` happen while no service is running.

Only the kernel is faked (netdev / iptables, the recording fakes of c14.py).

The statement evaluated at every quiescent point (no model; oracle-only):
  * every live owner (its request link resolves) that has been answered holds the address it was told: vips/<ip> -> owner
  * no address is told to two live owners
  * a live owner keeps its address over restarts and other owners' requests (an address is only reclaimed when its
    owner is gone or released it)."""
import os
import random
import shutil
import sys

from .. import core

_counter = [0]


def owner(i, gen=0):
    """unique name of the gen-th container of instance i (a released or vanished container never comes back under its
    old unique name: the next run of the instance has a new one)"""
    return 'proid.web-%010d-%s%04d' % (i, chr(ord('a') + i % 26) * 9, gen)


def gen_case(rng, _i):
    no = rng.randint(2, 6)
    ops = []
    for _ in range(rng.randint(4, 16)):
        c = rng.random()
        o = rng.randrange(1, no + 1)
        if c < 0.42:
            ops.append(['request', o])
        elif c < 0.55:
            ops.append(['release', o])
        elif c < 0.63:
            ops.append(['gone', o])           # the container directory disappears without a delete (node cleanup, crash)
        elif c < 0.72:
            ops.append(['update', o])         # client re-puts its request (reply removed, link touched)
        elif c < 0.90:
            ops.append(['restart'])
        else:
            ops.append(['stop'])
            for _k in range(rng.randint(0, 3)):
                ops.append([rng.choice(['request', 'release', 'gone']), rng.randrange(1, no + 1)])
            ops.append(['boot'])
    # small pools make re-use of a released address likely
    return {'n_owners': no, 'cidr': rng.choice(['192.168.0.0/28', '192.168.0.0/29', '192.168.0.0/24']), 'ops': ops}


class _Stop(Exception):
    pass


class World:
    def __init__(self, case):
        if core.PYLIB not in sys.path:
            sys.path.insert(0, core.PYLIB)
        import logging
        logging.disable(logging.CRITICAL)
        from . import c14
        m = c14.impl()
        from treadmill import services, yamlwrapper
        self.yaml = yamlwrapper
        self.services = services
        _counter[0] += 1
        self.root = os.path.join(core.scratch(), 'c14frame-%d-%d' % (os.getpid(), _counter[0]))
        self.svc_dir = os.path.join(self.root, 'network_svc')
        self.rsrc_dir = os.path.join(self.svc_dir, 'resources')
        os.makedirs(self.rsrc_dir)
        self.case = case
        ns = m['network_service']
        self.netdev = c14.FakeNetdev()
        ns.netdev = self.netdev
        ns.iptables = c14.FakeIptables(m['iptables'])
        cidr = case['cidr']
        world = self

        class Network(ns.NetworkResourceService):
            __slots__ = ()
            _TM_CIDR = cidr
            WATCHDOG_HEARTBEAT_SEC = 0        # poll timeout 0: the loop never sleeps, events are picked up as they queue
        Network.__name__ = 'NetworkResourceService'
        self.impl_cls = Network
        self.told = {}          # owner -> ip it was last told (while continuously live and answered)
        self.hits = []
        self.pos = 0
        self.idle = 0
        self.boots = 0
        self.replayed = 0
        self.pending = None
        self.gen = {}
        self.svc = None

        class Lease:
            @staticmethod
            def heartbeat():
                world.on_heartbeat()
        self.lease = Lease

    def close(self):
        shutil.rmtree(self.root, ignore_errors=True)

    # ---- container side (real client)
    def client(self, name):
        svc = self.services.ResourceService(service_dir=self.svc_dir, impl=self.impl_cls)
        return svc.make_client(os.path.join(self.root, 'apps', name, 'rsrc'))

    def container_step(self, op):
        k, o = op
        name = owner(o, self.gen.get(o, 0))
        if k in ('release', 'gone'):
            self.gen[o] = self.gen.get(o, 0) + 1
        if k == 'request':
            self.client(name).put(name, {'environment': 'dev'})
        elif k == 'update':
            if os.path.exists(os.path.join(self.rsrc_dir, name)):
                self.client(name).put(name, {'environment': 'dev'})
        elif k == 'release':
            if os.path.isdir(os.path.join(self.root, 'apps', name)):
                self.client(name).delete(name)
            self.told.pop(name, None)
        elif k == 'gone':
            shutil.rmtree(os.path.join(self.root, 'apps', name), ignore_errors=True)
            self.told.pop(name, None)

    # ---- the statement
    def vips(self):
        d = os.path.join(self.svc_dir, 'vips')
        out = {}
        for ip in os.listdir(d) if os.path.isdir(d) else []:
            try:
                out[ip] = os.path.basename(os.readlink(os.path.join(d, ip)))
            except OSError:
                pass
        return out

    def check(self, when):
        vips = self.vips()
        held = {}
        for name in sorted(os.listdir(self.rsrc_dir)):
            p = os.path.join(self.rsrc_dir, name)
            if name.startswith('.') or not os.path.exists(p):
                continue
            try:
                with open(os.path.join(p, 'reply.yml')) as f:
                    reply = self.yaml.load(stream=f)
            except IOError:
                self.hits.append(('live-request-never-answered', '%s: %s has no reply after the loop went idle' % (when, name)))
                continue
            if not isinstance(reply, dict) or '_error' in reply:
                self.told.pop(name, None)
                continue                      # pool exhausted: refused, holds nothing
            ip = reply['vip']
            if vips.get(ip) != name:
                self.hits.append(('live-owner-told-an-address-it-does-not-hold',
                                  '%s: live owner %s was told %s, but vips/%s -> %r' % (when, name, ip, ip, vips.get(ip))))
            if ip in held:
                self.hits.append(('address-held-by-two-live-owners',
                                  '%s: %s told to both %s and %s' % (when, ip, held[ip], name)))
            held[ip] = name
            if name in self.told and self.told[name] != ip:
                self.hits.append(('live-owner-lost-its-address',
                                  '%s: %s held %s and now holds %s without having released it' % (when, name, self.told[name], ip)))
            self.told[name] = ip

    # ---- the loop's heartbeat = the scenario
    def on_heartbeat(self):
        self.idle += 1
        if self.idle < 3:
            return                            # let queued events drain (5 events per iteration, then the event fd)
        self.check('after op %d %r' % (self.pos - 1, self.case['ops'][self.pos - 1]) if self.pos else 'after boot')
        if self.hits:
            self.svc._is_dead = True          # pylint: disable=protected-access
            return
        ops = self.case['ops']
        if self.pos >= len(ops):
            self.svc._is_dead = True          # pylint: disable=protected-access
            return
        op = ops[self.pos]
        self.pos += 1
        self.idle = 0
        if op[0] in ('restart', 'stop'):
            self.svc._is_dead = True          # pylint: disable=protected-access
            self.pending = op[0]
            return
        if op[0] == 'boot':
            return
        self.container_step(op)

    def run(self):
        self.pending = 'restart'
        while self.pending and not self.hits:
            if self.pending == 'stop':
                ops = self.case['ops']
                while self.pos < len(ops) and ops[self.pos][0] != 'boot':
                    if ops[self.pos][0] not in ('restart', 'stop'):
                        self.container_step(ops[self.pos])
                    self.pos += 1
                self.pos += 1                 # the boot
            self.pending = None
            self.idle = 0
            self.boots += 1
            self.replayed += len([n for n in os.listdir(self.rsrc_dir) if not n.startswith('.')])
            self.svc = self.services.ResourceService(service_dir=self.svc_dir, impl=self.impl_cls)
            impl = self.impl_cls(ext_device='eth0', ext_ip='10.255.0.1', ext_mtu=1500, ext_speed=10000)
            fds = core.open_fds()
            try:
                self.svc._run(impl, self.lease)   # pylint: disable=protected-access
            finally:
                core.close_fds_since(fds)
            if self.pos >= len(self.case['ops']) and not self.pending:
                break
        return self.hits


def run_case(case):
    w = World(case)
    try:
        try:
            hits = w.run()
        except Exception as exc:   # noqa
            import traceback
            tb = traceback.extract_tb(sys.exc_info()[2])[-1]
            hits = w.hits + [('framework-raised', '%s: %s at %s:%s' % (type(exc).__name__, str(exc)[:160],
                                                                     os.path.basename(tb.filename), tb.name))]
        return hits, {'boots': w.boots, 'replayed': w.replayed, 'ops': w.pos}
    finally:
        w.close()


def stage(r, seed, n):
    rng = random.Random(seed + 141414)
    tot = {'histories': n, 'boots': 0, 'requests_replayed_at_boot': 0, 'ops': 0, 'violations': 0}
    for i in range(n):
        case = gen_case(rng, i)
        hits, cov = run_case(case)
        tot['boots'] += cov['boots']
        tot['requests_replayed_at_boot'] += cov['replayed']
        tot['ops'] += cov['ops']
        seen = set()
        for sig, what in hits:
            sig = 'framework:' + sig
            if sig not in seen:
                seen.add(sig)
                tot['violations'] += 1
                r.violation(sig, what, {'engine': 'E-node-c14frame', 'case': case})
    return {'framework_stage': tot}


def replay_case(case):
    hits, _cov = run_case(case['case'])
    return ('framework:' + hits[0][0], hits[0][1]) if hits else None
