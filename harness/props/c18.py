"""C18: trace archiving (trace/_zk.py, trace/app/zk.py, trace/server/zk.py) vs Trace/Archive.v.

The REAL cleanup functions run against a small in-memory kazoo-client fake; a cut (exception) is
injected at every ZooKeeper write; snapshots are decompressed and read back with sqlite3."""
import copy
import os
import sqlite3
import sys
import tempfile
import zlib

from .. import core, gallina as G

PID = 'C18'
ANCHORS = ['lib/python/treadmill/trace/_zk.py', 'lib/python/treadmill/trace/app/zk.py',
           'lib/python/treadmill/trace/server/zk.py']
PREAMBLE = ('From Coq Require Import ZArith List.\nImport ListNotations.\n'
            'From TM Require Import Trace.Archive.\nOpen Scope Z_scope.\n')
RUN_FN = 'run_case'
IN_TYPE = 'world * list op * list Z'

T0 = 1500000000 * 4          # time base, quarter seconds
ETYPES = [('scheduled', 'srv1:ok'), ('pending', 'created'), ('configured', 'uniq1'), ('service_running', 'uniq1.web'),
          ('service_exited', 'uniq1.web.0.0'), ('finished', '0.0'), ('killed', 'oom'), ('aborted', 'image'),
          ('deleted', ''), ('pending', 'evicted')]
STYPES = [('server_state', 'up'), ('server_state', 'down'), ('server_blackout', ''), ('server_blackout_cleared', '')]
APPS = ['proid.web', 'proid.web.eu', 'proid.db', 'treadmld.cellapi']
HOSTS = ['nodea', 'nodeb']
SERVERS = ['srv1.example.com', 'srv2.example.com', 'srv10.example.com', 'srv1.example.com.au']


def ts_str(q):
    return str(q / 4.0)


# ------------------------------------------------------------------ in-memory kazoo fake
class Cut(Exception):
    """The archiver stops here: the write is not performed and nothing follows."""


class FakeZk:
    """create / delete / get_children / get / exists, sequence nodes; listing = insertion order."""

    def __init__(self):
        self.nodes = {}        # path -> [data, mtime_ms]
        self.seq = {}          # parent -> next sequence number
        self.writes = 0
        self.cut = None
        self.log = []

    def snapshot(self):
        return (copy.deepcopy(self.nodes), dict(self.seq))

    def restore(self, snap):
        self.nodes, self.seq = copy.deepcopy(snap[0]), dict(snap[1])
        self.writes, self.cut, self.log = 0, None, []

    @staticmethod
    def _parent(path):
        return path.rsplit('/', 1)[0] or '/'

    def _exc(self):
        import kazoo.exceptions
        return kazoo.exceptions

    def mk(self, path, data=b'', mtime_ms=0):
        """set-up only (not a counted write)"""
        par = self._parent(path)
        if par != '/' and par not in self.nodes:
            self.mk(par)
        self.nodes[path] = [data, mtime_ms]

    def _write(self, what):
        if self.cut is not None and self.writes >= self.cut:
            raise Cut(what)
        self.writes += 1
        self.log.append(what)

    def make_default_acl(self, acl):
        return acl

    def get_children(self, path, watch=None):
        if path not in self.nodes:
            raise self._exc().NoNodeError(path)
        pre = path.rstrip('/') + '/'
        return [p[len(pre):] for p in self.nodes if p.startswith(pre) and '/' not in p[len(pre):]]

    def exists(self, path, watch=None):
        return self.get(path)[1] if path in self.nodes else None

    def get(self, path, watch=None):
        from kazoo.protocol.states import ZnodeStat
        if path not in self.nodes:
            raise self._exc().NoNodeError(path)
        data, mt = self.nodes[path]
        return data, ZnodeStat(0, 0, mt, mt, 0, 0, 0, 0, len(data), len(self.get_children(path)), 0)

    def create(self, path, value=b'', acl=None, ephemeral=False, sequence=False, makepath=False):
        par = self._parent(path)
        if par not in self.nodes:
            if not makepath:
                raise self._exc().NoNodeError(par)
            self.mk(par)
        if sequence:
            n = self.seq.get(par, 0)
            path = '%s%010d' % (path, n)
        if path in self.nodes:
            raise self._exc().NodeExistsError(path)
        assert isinstance(value, bytes)
        self._write(('create', path))
        if sequence:
            self.seq[par] = n + 1
        self.nodes[path] = [value, 0]
        return path

    def delete(self, path, version=-1, recursive=False):
        if path not in self.nodes:
            raise self._exc().NoNodeError(path)
        if self.get_children(path):
            raise self._exc().NotEmptyError(path)
        self._write(('delete', path))
        del self.nodes[path]


class _Clock:
    def __init__(self):
        self.now = 0.0

    def time(self):
        return self.now


class _Sqlite:
    """sqlite3 with durability switched off for the temporary snapshot files (speed only)"""

    def __getattr__(self, name):
        return getattr(sqlite3, name)

    @staticmethod
    def connect(*a, **k):
        conn = sqlite3.connect(*a, **k)
        conn.execute('PRAGMA synchronous=OFF')
        conn.execute('PRAGMA journal_mode=MEMORY')
        return conn


_IMPL = None
_SNAP_CACHE = {}


def impl():
    global _IMPL
    if _IMPL is None:
        sys.path.insert(0, core.PYLIB)
        tempfile.tempdir = core.scratch()       # upload_batch/download_batch use NamedTemporaryFile
        import logging
        logging.disable(logging.CRITICAL)
        from treadmill.trace import _zk
        from treadmill.trace.app import zk as app_zk
        from treadmill.trace.server import zk as server_zk
        from treadmill import zknamespace as z
        clock = _Clock()
        app_zk.time = clock                     # `time.time()` inside trace.app.zk only
        _zk.sqlite3 = _Sqlite()                 # same sqlite3, without fsync on the scratch files
        _IMPL = (_zk, app_zk, server_zk, z, clock)
    return _IMPL


# ------------------------------------------------------------------ generator
def gen_case(rng, i):
    now1 = T0 + 4 * rng.randint(0, 1000)
    expires = rng.choice([0, 1, 60, 300])           # seconds
    bound = now1 - 4 * expires
    ninst = rng.randint(1, 5)
    insts, used = [], set()
    base = rng.randint(1, 200)
    for _ in range(ninst):
        app = rng.choice(APPS)
        n = rng.choice([base, base + 256, base + 1, base + 512, rng.randint(1, 999)])
        name = '%s#%010d' % (app, n)
        if rng.random() < 0.08:                     # unpadded ids: one instance name is a prefix of another
            name = '%s#%d' % (app, rng.choice([12, 123, 1, 124]))
        if name not in used:
            used.add(name)
            insts.append(name)
    sched = [x for x in insts if rng.random() < 0.35]
    if rng.random() < 0.15:
        sched.append('proid.other#0000000777')

    def near(b):
        r = rng.random()
        if r < 0.55:
            return b + rng.choice([-1, 0, 1])        # +- one quarter second around the boundary
        if r < 0.75:
            return b + rng.choice([-4, 4, -5, 3, -400, 400])
        return b + rng.randint(-2000, 2000)
    events = []
    nev = rng.randint(0, 9)
    seen = set()
    for _ in range(nev):
        inst = rng.choice(insts)
        et, ed = rng.choice(ETYPES)
        ev = {'inst': inst, 'ts': near(bound), 'src': rng.choice(HOSTS), 'type': et, 'data': ed,
              'payload': rng.choice(['', '', 'rc=1', '{"a": 1}'])}
        shard = '%04X' % (int(inst.split('#')[1]) % 256)
        if rng.random() < 0.04:
            shard = '%04X' % rng.randint(0, 255)    # a node in a foreign shard (same name may exist twice)
        ev['shard'] = shard
        k = (shard, ev_name(ev))
        if k not in seen:
            seen.add(k)
            events.append(ev)
    fin_exp = rng.choice([expires, 0, 60])
    fbound = now1 - 4 * fin_exp
    fin = []
    finset = rng.sample(insts, rng.randint(0, len(insts)))
    for extra in range(rng.randint(0, 3)):
        finset.append('proid.old#%010d' % (extra + 1))
    rng.shuffle(finset)
    for inst in finset[:6]:
        st = rng.choice(['finished', 'killed', 'aborted'])
        fin.append({'inst': inst, 'mtime': near(fbound),
                    'data': '{"data": "0.0", "host": "nodea", "state": "%s", "when": "%s"}' % (st, ts_str(near(fbound)))})
    srv = []
    seen = set()
    for _ in range(rng.randint(0, 6)):
        name = rng.choice(SERVERS)
        et, ed = rng.choice(STYPES)
        ev = {'inst': name, 'ts': T0 + rng.choice([0, 1, 2, 4, 5, 40, 41]), 'src': 'master1', 'type': et, 'data': ed,
              'payload': '', 'shard': '%04X' % rng.randint(0, 2)}
        k = (ev['shard'], ev_name(ev))
        if k not in seen:
            seen.add(k)
            srv.append(ev)

    def stop():
        return rng.randint(0, 12) if rng.random() < 0.25 else None
    ops = []
    style = rng.random()
    bt = rng.randint(1, 7)
    if style < 0.15:
        bt = 1
    ops.append({'op': 'trace', 'b': bt, 'now': now1, 'expires': 4 * expires, 'stop': stop()})
    if rng.random() < 0.5:
        ops.append({'op': 'trace', 'b': rng.randint(1, 3), 'now': now1 + rng.choice([0, 1, 4, 8000]),
                    'expires': 4 * expires, 'stop': stop()})
    ops.append({'op': 'finished', 'b': rng.randint(1, 4), 'now': now1, 'expires': 4 * fin_exp, 'stop': stop()})
    if rng.random() < 0.3:
        ops.append({'op': 'finished', 'b': rng.randint(1, 2), 'now': now1 + 8000, 'expires': 4 * fin_exp, 'stop': None})
    ops.append({'op': 'prune_trace', 'max': rng.choice([0, 1, 1, 2, 3, 100]), 'stop': stop()})
    if rng.random() < 0.6:
        ops.append({'op': 'prune_finished', 'max': rng.choice([0, 1, 2, 100]), 'stop': stop()})
    if srv:
        ops.append({'op': 'server', 'b': rng.randint(1, 4), 'stop': stop()})
        ops.append({'op': 'prune_server', 'max': rng.choice([0, 1, 2, 100]), 'stop': None})
    rng.shuffle(ops) if rng.random() < 0.2 else None
    return {'sched': sched, 'events': events, 'finished': fin, 'server': srv, 'ops': ops,
            'seq': [rng.choice([0, 0, 7, 99]), rng.choice([0, 3]), rng.choice([0, 12])]}


def ev_name(ev):
    return '%s,%s,%s,%s,%s' % (ev['inst'], ts_str(ev['ts']), ev['src'], ev['type'], ev['data'])


# ------------------------------------------------------------------ codes shared by term emitter and canoniser
class Codes:
    def __init__(self, case):
        names = sorted({e['inst'] for e in case['events']} | set(case['sched']) | {f['inst'] for f in case['finished']}
                       | {e['inst'] for e in case['server']})
        self.inst = {n: i + 1 for i, n in enumerate(names)}
        self.fdata = {}
        for f in case['finished']:
            self.fdata.setdefault(f['data'], len(self.fdata) + 1)
        self.pay = {}
        self.tkey = self._keys(case['events'])
        self.skey = self._keys(case['server'])
        self.tev = {(e['shard'], ev_name(e)): e for e in case['events']}
        self.sev = {(e['shard'], ev_name(e)): e for e in case['server']}

    @staticmethod
    def _keys(events):
        pairs = sorted({(ev_name(e), e['shard']) for e in events})
        return {(sh, nm): i + 1 for i, (nm, sh) in enumerate(pairs)}

    @staticmethod
    def listing(events):
        """get_children(root) then get_children(shard): shard dirs in creation order, events in creation order"""
        order = []
        for e in events:
            if e['shard'] not in order:
                order.append(e['shard'])
        return [e for sh in order for e in events if e['shard'] == sh]


# ------------------------------------------------------------------ implementation driver
def build(case):
    _zk, app_zk, server_zk, z, clock = impl()
    zk = FakeZk()
    for d in (z.SCHEDULED, z.TRACE, z.TRACE_HISTORY, z.FINISHED, z.FINISHED_HISTORY, z.SERVER_TRACE,
              z.SERVER_TRACE_HISTORY):
        zk.mk(d)
    for s in case['sched']:
        zk.mk(z.path.scheduled(s))
    for e in case['events']:
        zk.mk('/'.join([z.TRACE, e['shard'], ev_name(e)]), e['payload'].encode())
    for f in case['finished']:
        zk.mk(z.path.finished(f['inst']), f['data'].encode(), f['mtime'] * 250)
    for e in case['server']:
        zk.mk('/'.join([z.SERVER_TRACE, e['shard'], ev_name(e)]), e['payload'].encode())
    zk.seq[z.TRACE_HISTORY], zk.seq[z.FINISHED_HISTORY], zk.seq[z.SERVER_TRACE_HISTORY] = case['seq']
    return zk


def read_snapshot(zk, path, table):
    """decompress + sqlite: all rows of the snapshot as tuples"""
    data, _ = zk.get(path)
    ck = (table, data)
    if ck in _SNAP_CACHE:
        return _SNAP_CACHE[ck]
    if len(_SNAP_CACHE) > 2000:
        _SNAP_CACHE.clear()
    fn = os.path.join(core.scratch(), 'snap-read.db')
    with open(fn, 'wb') as f:
        f.write(zlib.decompress(data))
    conn = sqlite3.connect(fn)
    rows = list(conn.execute('SELECT path, timestamp, data, directory, name FROM %s' % table))
    conn.close()
    os.unlink(fn)
    _SNAP_CACHE[ck] = rows
    return rows


AREAS = {'trace': ('TRACE', 'TRACE_HISTORY', 'trace'), 'finished': ('FINISHED', 'FINISHED_HISTORY', 'finished'),
         'server': ('SERVER_TRACE', 'SERVER_TRACE_HISTORY', 'server_trace')}
AREA_OF = {'trace': 'trace', 'prune_trace': 'trace', 'finished': 'finished', 'prune_finished': 'finished',
           'server': 'server', 'prune_server': 'server'}


def observe(zk, area):
    """{'live': [[dir, name]...] in listing order, 'snaps': [[seqno, [row,...]]] in name order}"""
    _zk, app_zk, server_zk, z, clock = impl()
    root, hroot, table = AREAS[area]
    root, hroot = getattr(z, root), getattr(z, hroot)
    live = []
    if area == 'finished':
        for n in zk.get_children(root):
            data, st = zk.get(root + '/' + n)
            live.append([root, n, data.decode(), st.mtime])
    else:
        for sh in zk.get_children(root):
            for n in zk.get_children(root + '/' + sh):
                live.append([root + '/' + sh, n])
    snaps = []
    unreadable = []
    for n in sorted(zk.get_children(hroot)):
        try:
            rows = [list(r) for r in read_snapshot(zk, hroot + '/' + n, table)]
        except (zlib.error, sqlite3.DatabaseError) as e:
            # what was uploaded cannot be read back: nothing in it counts as archived
            rows = []
            unreadable.append([n, '%s: %s' % (type(e).__name__, str(e)[:80])])
        snaps.append([int(n.rsplit('-', 1)[1]), rows, n])
    return {'live': live, 'snaps': snaps, 'unreadable': unreadable}


def call_op(zk, op):
    _zk, app_zk, server_zk, z, clock = impl()
    k = op['op']
    if k == 'trace':
        clock.now = op['now'] / 4.0
        app_zk.cleanup_trace(zk, op['b'], op['expires'] / 4.0)
    elif k == 'finished':
        clock.now = op['now'] / 4.0
        app_zk.cleanup_finished(zk, op['b'], op['expires'] / 4.0)
    elif k == 'prune_trace':
        app_zk.cleanup_trace_history(zk, op['max'])
    elif k == 'prune_finished':
        app_zk.cleanup_finished_history(zk, op['max'])
    elif k == 'server':
        server_zk.cleanup_server_trace(zk, op['b'])
    elif k == 'prune_server':
        server_zk.cleanup_server_trace_history(zk, op['max'])
    else:
        raise ValueError(k)


def run_with_cut(zk, start, op, k):
    zk.restore(start)
    zk.cut = k
    try:
        call_op(zk, op)
        return 'done'
    except Cut:
        return 'cut'
    except Exception as e:                  # the archiver itself fails
        return 'error:%s' % type(e).__name__


def impl_run(case):
    _zk, app_zk, server_zk, z, clock = impl()
    zk = build(case)
    out = []
    for op in case['ops']:
        area = AREA_OF[op['op']]
        start = zk.snapshot()
        status = run_with_cut(zk, start, op, None)
        nw = zk.writes
        log = list(zk.log)
        cuts = []
        for k in range(nw + 1):
            st = run_with_cut(zk, start, op, k)
            o = observe(zk, area)
            o['status'] = st
            cuts.append(o)
        stop = op.get('stop')
        run_with_cut(zk, start, op, None if stop is None else stop)
        zk.cut = None
        out.append({'writes': nw, 'status': status, 'log': log, 'cuts': cuts, 'after': observe(zk, area)})
    # downloads on the final state
    dl = {}
    insts = sorted(Codes(case).inst)
    for area, fn_table in (('trace', app_zk.TRACE_SOW_TABLE), ('server', server_zk.SERVER_TRACE_SOW_TABLE)):
        hroot = getattr(z, AREAS[area][1])
        res = []
        for n in sorted(zk.get_children(hroot)):
            res.append([n, [[i, _zk.download_batch(zk, hroot + '/' + n, fn_table, i)] for i in insts]])
        dl[area] = res
    return {'ops': out, 'downloads': dl, 'final': {a: observe(zk, a) for a in AREAS}}


# ------------------------------------------------------------------ canoniser: implementation observables -> list Z
def _q(x):
    """a real timestamp (seconds) as quarter seconds; None if not exact"""
    v = x * 4
    return int(v) if v == int(v) else None


class Canon:
    def __init__(self, case):
        self.case = case
        self.c = Codes(case)

    def key(self, area, d, n):
        if area == 'finished':
            return self.c.inst.get(n, -1)
        keys = self.c.tkey if area == 'trace' else self.c.skey
        return keys.get((d.rsplit('/', 1)[1], n), -1)

    def light(self, area, o):
        out = [len(o['live'])] + [self.key(area, x[0], x[1]) for x in o['live']]
        out.append(len(o['snaps']))
        for seqno, rows, _n in o['snaps']:
            out += [seqno, len(rows)] + sorted(self.key(area, r[3], r[4]) for r in rows)
        return out

    def row(self, area, r):
        path, ts, data, d, n = r
        k = self.key(area, d, n)
        if path != d + '/' + n:
            k = -2
        q = _q(ts)
        if q is None:
            q = -3
        if area == 'finished':
            return [k, q, self.c.fdata.get(data, -1)]
        ev = (self.c.tev if area == 'trace' else self.c.sev).get((d.rsplit('/', 1)[1], n))
        return [k, int(d.rsplit('/', 1)[1], 16), self.c.inst[ev['inst']] if ev else -1, q, 0 if data is None else 1]

    def full(self, area, o):
        if area == 'finished':
            out = [len(o['live'])] + [self.key(area, x[0], x[1]) for x in o['live']]
        else:
            out = [len(o['live'])] + [self.key(area, x[0], x[1]) for x in o['live']]
        out.append(len(o['snaps']))
        for seqno, rows, _n in o['snaps']:
            out += [seqno, len(rows)]
            for r in sorted(self.row(area, r) for r in rows):
                out += r
        return out

    def expected(self, obs):
        out = []
        for op, oo in zip(self.case['ops'], obs['ops']):
            area = AREA_OF[op['op']]
            if oo['status'] != 'done':
                return [-9]      # the archiver raised: never equal to a model output
            out.append(oo['writes'])
            for o in oo['cuts']:
                out += self.light(area, o)
            if not op['op'].startswith('prune'):
                out += self.full(area, oo['after'])
        insts = sorted(self.c.inst)
        for area in ('trace', 'server'):
            keys = self.c.tkey if area == 'trace' else self.c.skey
            byname = {}
            for (sh, nm), k in keys.items():
                byname.setdefault(nm, []).append(k)
            for _n, per in obs['downloads'][area]:
                for i, names in per:
                    ks = []
                    for nm in names:
                        ks.append(byname.get(nm, [-1])[0] if len(byname.get(nm, [])) == 1 else -5)
                    out += [len(ks)] + sorted(ks)
        return out


def _ambiguous(case):
    """the same event name in two shards: download_batch returns names, which the canoniser cannot map to one key"""
    for evs in (case['events'], case['server']):
        names = [ev_name(e) for e in evs]
        if len(set(names)) != len(names):
            return True
    return False


def expected(case, obs):
    if _ambiguous(case) and (obs['downloads']['trace'] or obs['downloads']['server']):
        return None
    return Canon(case).expected(obs)


# ------------------------------------------------------------------ Gallina terms
def t_event(c, keys, e):
    return ('{| e_shard := %s; e_inst := %s; e_ts := %s; e_key := %s; e_data := %s |}'
            % (G.z(int(e['shard'], 16)), G.z(c.inst[e['inst']]), G.z(e['ts']), G.z(keys[(e['shard'], ev_name(e))]),
               G.z(c.pay.setdefault(e['payload'], len(c.pay)))))


def t_stop(s):
    return G.opt(s, G.nat)


def t_op(op):
    k = op['op']
    if k == 'trace':
        return '(OpTrace %s %s %s %s)' % (G.nat(op['b']), G.z(op['now']), G.z(op['expires']), t_stop(op['stop']))
    if k == 'finished':
        return '(OpFinished %s %s %s %s)' % (G.nat(op['b']), G.z(op['now']), G.z(op['expires']), t_stop(op['stop']))
    if k == 'prune_trace':
        return '(OpPruneTrace %s %s)' % (G.z(op['max']), t_stop(op['stop']))
    if k == 'prune_finished':
        return '(OpPruneFinished %s %s)' % (G.z(op['max']), t_stop(op['stop']))
    if k == 'server':
        return '(OpServer %s %s)' % (G.nat(op['b']), t_stop(op['stop']))
    return '(OpPruneServer %s %s)' % (G.z(op['max']), t_stop(op['stop']))


def case_term(case):
    c = Codes(case)
    tl = G.lst([t_event(c, c.tkey, e) for e in Codes.listing(case['events'])])
    sl = G.lst([t_event(c, c.skey, e) for e in Codes.listing(case['server'])])
    fl = G.lst(['{| f_inst := %s; f_mtime := %s; f_data := %s |}'
                % (G.z(c.inst[f['inst']]), G.z(f['mtime']), G.z(c.fdata[f['data']])) for f in case['finished']])
    st = '{| live := %s; hist := []; seq := %s |}'
    w = ('{| w_sched := %s; w_trace := %s; w_fin := %s; w_srv := %s |}'
         % (G.zlist([c.inst[s] for s in case['sched']]), st % (tl, G.z(case['seq'][0])),
            st % (fl, G.z(case['seq'][1])), st % (sl, G.z(case['seq'][2]))))
    return G.pair(w, G.lst([t_op(o) for o in case['ops']]), G.zlist([c.inst[n] for n in sorted(c.inst)]))


# ------------------------------------------------------------------ oracle: the statement of C18 on implementation results
def oracle(case, obs):
    out = []

    def bad(sig, what):
        if not any(s == sig for s, _ in out):
            out.append((sig, what))
    sched = set(case['sched'])
    for idx, (op, oo) in enumerate(zip(case['ops'], obs['ops'])):
        area = AREA_OF[op['op']]
        kind = op['op']
        if oo['status'] != 'done':
            bad('archiver-raises', 'op %d %s raised %s' % (idx, kind, oo['status']))
            continue
        before = oo['cuts'][0]
        live0 = [tuple(x[:2]) for x in before['live']]
        snaps0 = {n: sorted(map(tuple, rows)) for _s, rows, n in before['snaps']}
        for k, o in enumerate(oo['cuts']):
            live = {tuple(x[:2]) for x in o['live']}
            for n, why in o.get('unreadable', []):
                bad('snapshot-unreadable', 'op %d %s, after %d of %d writes: %s cannot be decompressed and opened (%s)'
                    % (idx, kind, k, oo['writes'], n, why))
            rows_all = {(r[3], r[4]) for _s, rows, _n in o['snaps'] for r in rows}
            names = {n for _s, _r, n in o['snaps']}
            new = [(n, rows) for _s, rows, n in o['snaps'] if n not in snaps0]
            if kind.startswith('prune'):
                if live != set(live0) or len(o['live']) != len(live0):
                    bad('prune-touches-live-nodes', 'op %d cut %d' % (idx, k))
                keep = sorted(snaps0)[max(0, len(snaps0) - max(op['max'], 0)):] if op['max'] > 0 else []
                for n in keep:
                    if n not in names:
                        bad('prune-dropped-newer-snapshot',
                            'op %d %s max_count=%d cut %d: %s is among the newest but was deleted' % (idx, kind, op['max'], k, n))
                if new:
                    bad('prune-creates-snapshot', 'op %d cut %d' % (idx, k))
                if k == oo['writes'] and sorted(names) != keep and len(snaps0) > op['max']:
                    bad('prune-keeps-wrong-set', 'op %d %s: kept %s, the newest are %s' % (idx, kind, sorted(names), keep))
                continue
            # --- archiving ops
            for x in live0:
                if x not in live and x not in rows_all:
                    bad('event-lost-at-cut', 'op %d %s: %s/%s live before, neither live nor in a snapshot after %d of %d writes'
                        % (idx, kind, x[0], x[1], k, oo['writes']))
            for n, rows in snaps0.items():
                cur = [sorted(map(tuple, r)) for _s, r, nn in o['snaps'] if nn == n]
                if cur != [rows]:
                    bad('old-snapshot-modified', 'op %d cut %d: %s' % (idx, k, n))
            for n, rows in new:
                if len(rows) != op['b']:
                    bad('partial-batch-archived', 'op %d %s: snapshot %s has %d rows, batch size %d' % (idx, kind, n, len(rows), op['b']))
                for r in rows:
                    path, ts, data, d, nm = r
                    if (d, nm) not in set(live0) or path != d + '/' + nm:
                        bad('archived-row-not-a-live-node', 'op %d: %r' % (idx, r))
                        continue
                    q = _q(ts)
                    if kind != 'server' and not (q is not None and q < op['now'] - op['expires']):
                        bad('archived-before-expiry', 'op %d %s: %s (timestamp %s) archived at now=%s expires=%s'
                            % (idx, kind, nm, ts, op['now'] / 4.0, op['expires'] / 4.0))
                    if kind == 'trace' and nm.split(',')[0] in sched:
                        bad('archived-scheduled-instance', 'op %d: %s archived while its instance is scheduled' % (idx, nm))
                    if kind == 'trace' and float(nm.split(',')[1]) != ts:
                        bad('archived-row-timestamp-differs', 'op %d: %r' % (idx, r))
            # nodes that must stay live at every cut
            for x in live0:
                d, nm = x
                if kind == 'trace':
                    q = _q(float(nm.split(',')[1]))
                    must = nm.split(',')[0] in sched or not q < op['now'] - op['expires']
                elif kind == 'finished':
                    mt = [y[3] for y in before['live'] if tuple(y[:2]) == x][0]
                    must = not mt < (op['now'] - op['expires']) * 250
                else:
                    must = False
                if must and x not in live:
                    bad('unexpired-or-scheduled-event-removed', 'op %d %s cut %d: %s' % (idx, kind, k, nm))
            # a live node disappears only after a snapshot containing it exists
            for x in live0:
                if x not in live and x not in rows_all:
                    bad('event-lost-at-cut', 'op %d' % idx)
        if kind in ('trace', 'finished', 'server'):
            last = oo['cuts'][-1]
            live = {tuple(x[:2]) for x in last['live']}
            gone = [x for x in live0 if x not in live]
            if len(gone) % op['b'] != 0:
                bad('partial-batch-archived', 'op %d %s: %d nodes removed, batch size %d' % (idx, kind, len(gone), op['b']))
            if kind == 'trace':
                def ts_of(x):
                    return float(x[1].split(',')[1])
                cand = [x for x in live0 if x[1].split(',')[0] not in sched
                        and _q(ts_of(x)) < op['now'] - op['expires']]
                left = [x for x in cand if x in live]
                if len(left) >= op['b']:
                    bad('full-batch-left-behind', 'op %d trace: %d expired events left, batch size %d' % (idx, len(left), op['b']))
                if gone and left and max(ts_of(x) for x in gone) > min(ts_of(x) for x in left):
                    bad('partial-batch-not-the-newest', 'op %d trace: a newer event was archived while an older stays' % idx)
    # download: an archived event of instance i is returned by download_batch(.., i)
    for area in ('trace', 'server'):
        snaps = {n: rows for _s, rows, n in obs['final'][area]['snaps']}
        for n, per in obs['downloads'][area]:
            got = {i: names for i, names in per}
            for r in snaps.get(n, []):
                inst = r[4].split(',')[0]
                if inst in got and r[4] not in got[inst]:
                    bad('download-misses-archived-event', '%s: %s not returned for %s' % (n, r[4], inst))
            for i, names in got.items():
                for nm in names:
                    if nm.split(',')[0] != i:
                        bad('download-returns-foreign-event', '%s: %s returned for %s' % (n, nm, i))
    return out or None


def nontrivial(case, obs):
    """some archiving op uploaded a snapshot AND left a candidate or a protected node behind"""
    up = any(oo['writes'] > 0 for op, oo in zip(case['ops'], obs['ops']) if not op['op'].startswith('prune'))
    left = any(oo['cuts'] and oo['cuts'][-1]['live'] for op, oo in zip(case['ops'], obs['ops'])
               if op['op'] in ('trace', 'finished'))
    return up and left


def _extra(_r, cases, obs):
    d = {'ops': {}, 'cuts': 0, 'snapshots_read': 0, 'boundary_events': 0, 'scheduled_with_expired_events': 0,
         'batch_sizes': {}, 'payload_rows_with_data': 0, 'trace_rows': 0}
    for c, o in zip(cases, obs):
        for op, oo in zip(c['ops'], o['ops']):
            d['ops'][op['op']] = d['ops'].get(op['op'], 0) + 1
            d['cuts'] += len(oo['cuts'])
            d['snapshots_read'] += sum(len(x['snaps']) for x in oo['cuts'])
            if 'b' in op:
                d['batch_sizes'][str(op['b'])] = d['batch_sizes'].get(str(op['b']), 0) + 1
        t = [op for op in c['ops'] if op['op'] == 'trace']
        if t:
            b = t[0]['now'] - t[0]['expires']
            d['boundary_events'] += sum(1 for e in c['events'] if abs(e['ts'] - b) <= 1)
            d['scheduled_with_expired_events'] += sum(1 for e in c['events'] if e['inst'] in c['sched'] and e['ts'] < b)
        for _s, rows, _n in o['final']['trace']['snaps']:
            d['trace_rows'] += len(rows)
            d['payload_rows_with_data'] += sum(1 for r in rows if r[2] is not None)
    return {'distribution': d,
            'observation': 'archived trace rows carry data=NULL (%d of %d rows have data): event payloads are not archived; '
                           'every reader in the tree (TraceLoop) uses node names only'
                           % (d['payload_rows_with_data'], d['trace_rows'])}


TRUSTED = [
    'Coq 8.16.1 kernel (coqc); vm_compute only for the Examples of Props/C18.v',
    'Print Assumptions: closed under the global context for every theorem of Props/C18.v',
    'hand-written model Trace/Archive.v of cleanup_trace/cleanup_finished/cleanup_server_trace/_zk.upload_batch/'
    '_zk.cleanup/_zk.download_batch as ordered ZooKeeper write lists, tied by differential execution at every cut',
    'sqlite + zlib are modelled as an order-irrelevant list of rows (rows are sorted before comparison); '
    'GLOB \'<instance>,*\' is modelled as equality of the first name field (instance names contain no GLOB metacharacter)',
    'ZooKeeper is modelled: unique child names, sequence numbers increase and are 10 digits so that string order = numeric order, '
    'a write either happens completely or not at all; the in-memory kazoo fake of harness/props/c18.py implements exactly that',
    'names are Z codes (instance, order-preserving node key); timestamps are multiples of 0.25 s (exact in float64)',
]
ASSUMPTIONS = [
    'batch_size >= 1 (batch_size = 0: cleanup_trace raises ValueError before any write, cleanup_server_trace does not terminate)',
    'time.time() is constant during one archiver call (virtual clock)',
    'nobody else writes the archived directories during the run (the archiver holds the election lock of sproc.trace)',
    '"event" means the event node name (instance,timestamp,source,type,data); node payloads are not archived by the code',
    'history pruning is deliberately lossy: losslessness is stated for cleanup_trace/cleanup_finished/cleanup_server_trace',
]


def run(tier, seed):
    core.standard_run(PID, tier, seed, {
        'model_vos': ['Trace/Archive'], 'table_sections': ['source_shape'],
        'preamble': PREAMBLE, 'run_fn': RUN_FN, 'in_type': IN_TYPE,
        'gen_case': gen_case, 'impl_run': impl_run,
        'expected': expected, 'case_term': lambda c, o: case_term(c),
        'oracle': oracle, 'nontrivial': nontrivial,
        'n_quick': 250, 'n_thorough': 6000, 'search_quick': 1500, 'search_thorough': 30000,
        'corpus': 'c18.json', 'shard': 60,
        'rule': 'seeded generator: 1-5 instances (some sharing a shard, a third scheduled), 0-9 trace events with timestamps '
                'at the expiry boundary +-0.25 s or further away, 0-6 finished records, 0-6 server events; a program of '
                'cleanup_trace / cleanup_finished / cleanup_*_history / cleanup_server_trace calls with batch sizes 1..7; '
                'the real function is re-run with an exception injected at every ZooKeeper write and every snapshot is '
                'read back with sqlite3; non-trivial = some snapshot was uploaded and some node was left live',
        'trusted': TRUSTED, 'assumptions': ASSUMPTIONS, 'anchors': ANCHORS, 'extra': _extra,
    })


def replay_case(case):
    obs = impl_run(case)
    v = oracle(case, obs)
    return v[0] if v else None
