"""C07 on E-cell histories (Props/C07.v, harness/ecell_oracles.py)."""
from .. import core
from . import _ecell_prop as E

PID = 'C07'
PROFILE_C07 = {'pressure': 0.9, 'failure': 0.4, 'prio0': 0.2, 'alloc': 0.5, 'renew': 0.2, 'few_shapes': 0.6, 'traits': 0.5,
              'affinity': 0.2}
RULE_C07 = 'C07 profile: arrivals larger than the free space, priorities changing, servers failing; the queue handed to _find_placements is captured'


def run(tier, seed):
    spec = E.make_spec(PID, PROFILE_C07, RULE_C07, n_quick=140)
    spec = E.with_master_stage(spec, PID, tier, seed)
    core.standard_run(PID, tier, seed, spec)


def replay_case(case):
    return E.replay(PID, case)
