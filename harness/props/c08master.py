"""Master-level stage of C08 (Master/SrvState.v, Master/SrvStateP.v).

E-master histories (presence lost and regained, also while no master is looking; master restarts; server records
reloaded; ticks around the retention times) are played on the real Master over the in-memory backend. Two things are
decided on them:

* correspondence: for every server and every operation the in-memory (state, since) of the Server object, the record
  at /placement/<server> and the presence node must equal what the model `srv_case` computes from the same operations
  (theorem `down_since_is_observed_loss` is about that model);
* oracle: the retention clause of C08 against the harness's own record of when each server went down.
"""
import random

from .. import core, gallina as G

PREAMBLE = ('From Coq Require Import ZArith List.\nImport ListNotations.\nOpen Scope Z_scope.\n'
            'From TM Require Import Sched.Types Master.SrvState.\n')
RUN_FN = 'srv_case'
IN_TYPE = 'srv * list sop'
MODEL_VOS = ['Master/SrvState']
ST = {'up': 'Up', 'down': 'Down', 'frozen': 'Frozen'}
ST_CODE = {'up': 0, 'down': 1, 'frozen': 2}


class Tracker:
    """The harness's own view of the history: when each server went down (independent of the scheduler's `since` and
    of the state records in the store), which instances sat on it after the previous cycle, and - for the
    correspondence - the operations each server saw together with what the implementation looked like afterwards."""

    def __init__(self, emaster):
        self.em = emaster
        self.down_since = {}     # server name -> time it went down (first down event while it was up)
        self.dirty = set()       # servers whose record was rewritten / state event since the previous cycle
        self.prev_on = {}        # server name -> {instance name} after the previous cycle
        self.prev_master = None  # the Master object that ran the previous cycle (a different one = restarted since)
        self.prev_time = None    # when the previous cycle was observed
        self.hits = []
        self.sops = {}           # server name -> [Gallina sop terms]
        self.seen = {}           # server name -> flattened observations, 7 integers per operation
        self.usable = True       # False once something happened that the one-server model does not describe
        self.decl = {}           # server name -> the declaration (record in /servers) its Server object was made from

    # ---- correspondence ------------------------------------------------------------------------------------
    def _observe(self, w, name):
        m = w.m
        srv = m.servers.get(name) if m is not None else None
        if srv is not None:
            st, since = srv.get_state()
            mem = [1, ST_CODE[st.value], int(since)]
        else:
            mem = [0, 0, 0]
        ent = w.b.d.get('/placement/' + name)
        data = ent[0] if isinstance(ent, tuple) else ent
        if isinstance(data, dict) and 'state' in data:
            rec = [1, ST_CODE[data['state']], int(data['since'])]
        else:
            rec = [0, 0, 0]
        pres = 1 if ('/server.presence/' + name) in w.b.d else 0
        return mem + rec + [pres]

    def _emit(self, w, name, term):
        self.sops.setdefault(name, []).append(term)
        self.seen.setdefault(name, []).extend(self._observe(w, name))

    def names(self, w):
        return sorted({n[len('/servers/'):] for n in w.b.d if n.startswith('/servers/')} | set(self.sops))

    def before_op(self, w, op):
        """returns what after_op needs to know about the state before the operation"""
        k = op[0]
        info = {}
        if k == 'ServerRecord':
            name = self.em.sname(op[1]['id'])
            info['obj'] = w.m.servers.get(name) if w.m is not None else None
        if not self.decl:
            for srv in w.case['servers']:
                self.decl[self.em.sname(srv['id'])] = srv
        self.on_op(w, op)
        return info

    @staticmethod
    def _decl_term(srv):
        part = srv.get('partition')
        return ('{| d_cap := %s; d_label := %s; d_traits := %s; d_parent := %s |}'
                % (G.zlist([int(x) for x in srv['cap']]), G.z(0 if not part else 1 + sum(ord(ch) for ch in part)),
                   G.z(1 if srv.get('traits') else 0), G.z(int(srv['rack']))))

    def after_op(self, w, op, info):
        k = op[0]
        now = int(w.now)
        if k in ('PresenceDown', 'PresenceUp', 'PresenceBounce'):
            for name in self.names(w):
                p = ('/server.presence/' + name) in w.b.d
                self._emit(w, name, 'SPresence %s false %s' % (G.b(p), G.z(now)))
        elif k == 'PresenceUpRaw':
            self._emit(w, self.em.sname(op[1]), 'SPresRaw true')
        elif k == 'ServerRecord':
            name = self.em.sname(op[1]['id'])
            old = info.get('obj')
            new = w.m.servers.get(name)
            if old is None or name not in self.decl:
                self._emit(w, name, 'SLoad %s' % G.z(now))
            else:
                # the model decides whether reload_server keeps the object (Server.is_same and the same parent)
                self._emit(w, name, 'SReloadDecl %s %s %s' % (self._decl_term(self.decl[name]), self._decl_term(op[1]),
                                                               G.z(now)))
            self.decl[name] = op[1]
        elif k == 'ServerState':
            self._emit(w, self.em.sname(op[1]), 'SEvent %s %s' % (ST[op[2]], G.z(now)))
        elif k in ('ServerDeleteApi', 'PendingStartCheck', 'Deliver'):
            self.usable = False

    def after_restart(self, w):
        now = int(w.now)
        for name in self.names(w):
            p = ('/server.presence/' + name) in w.b.d
            # load_model loads every server with a fresh object, then the initial watch callback processes presence;
            # the observation is taken after both, so the two model steps are observed as one
            self.sops.setdefault(name, []).append('SLoad %s' % G.z(now))
            self.sops[name].append('SPresence %s false %s' % (G.b(p), G.z(now)))
            self.seen.setdefault(name, []).extend([None] * 7)       # the intermediate state is not observable
            self.seen[name].extend(self._observe(w, name))

    # ---- oracle --------------------------------------------------------------------------------------------
    def on_op(self, w, op):
        k = op[0]
        if k in ('PresenceDown', 'PresenceUp', 'PresenceUpRaw', 'PresenceBounce', 'ServerState'):
            name = self.em.sname(op[1])
            if k == 'PresenceDown':
                self.down_since.setdefault(name, w.now)
            elif k in ('PresenceUp', 'PresenceUpRaw'):
                self.down_since.pop(name, None)
            elif k == 'ServerState':
                # an explicit state event (frozen / up / down) is outside the retention clause checked here
                self.down_since.pop(name, None)
                self.dirty.add(name)
        elif k == 'ServerRecord':
            self.dirty.add(self.em.sname(op[1]['id']))
        elif k == 'ServerDeleteApi':
            name = self.em.sname(op[1])
            self.down_since.pop(name, None)
            self.dirty.add(name)

    def after_cycle(self, w, where):
        if where == 'after-restart':
            self.after_restart(w)
        cell = w.m.cell
        sched = self.em.mods()[0]
        now = w.now
        members = cell.members()
        restarted = self.prev_master is not None and self.prev_master is not w.m
        self.prev_master = w.m
        for name, t0 in sorted(self.down_since.items()):
            if name in self.dirty or name not in members:
                continue
            if restarted and (self.prev_time is None or t0 > self.prev_time):
                # the server was up across a master restart whose start-up cycle was not observed: what sat on it
                # before that restart says nothing about what the new master found there
                continue
            for aname in sorted(self.prev_on.get(name, ())):
                app = cell.apps.get(aname)
                if app is None or app.blacklisted:
                    continue
                if getattr(app, 'final_rank', None) is not None and sched is not None \
                        and app.final_rank == sched._UNPLACED_RANK:
                    continue
                grp = app.identity_group_ref
                if grp is not None and app.identity is not None and app.identity >= grp.count:
                    continue
                drt = app.data_retention_timeout or 0
                still = app.server == name
                if now < t0 + drt and not still:
                    sig = 'master:removed-from-down-server-within-retention'
                    if restarted and app.lease:
                        # Loader.restore_placement re-evaluates the lease of an instance on a server without presence
                        sig += ':lease-reevaluated-at-restart'
                    self.hits.append((sig,
                                      '%s: %s left %s at %s although it went down at %s and retention is %ss'
                                      % (where, aname, name, now, t0, drt)))
                if now >= t0 + drt and still:
                    self.hits.append(('master:kept-on-down-server-after-retention',
                                      '%s: %s still on %s at %s, down since %s, retention %ss'
                                      % (where, aname, name, now, t0, drt)))
        self.prev_on = {n: set(s.apps) for n, s in members.items()}
        self.prev_time = now
        self.dirty = set()


def run_master_history(case):
    from .. import emaster
    tr = Tracker(emaster)
    orig_apply = emaster.World.apply

    def apply(w, op):
        info = tr.before_op(w, op)
        res = orig_apply(w, op)
        tr.after_op(w, op, info)
        return res
    emaster.World.apply = apply
    try:
        res = emaster.run_history(case, crash_points=False, want=(), cell_hook=tr.after_cycle)
    finally:
        emaster.World.apply = orig_apply
    if isinstance(res, dict) and res.get('stats', {}).get('implicit_restarts'):
        tr.usable = False        # a handler raised and a new master took over: not described by the recorded operations
    return tr, res


def gen_case(rng):
    from .. import emaster
    case = emaster.gen_case(rng, profile='c08')
    for a in case['apps']:
        if rng.random() < 0.7:
            a[1]['drt'] = rng.choice([30, 300])
    for op in case['ops']:
        if op[0] == 'Schedule' and rng.random() < 0.7:
            op[2]['drt'] = rng.choice([30, 300])
    if rng.random() < 0.3:
        # a server that an operator froze (nothing marked for unscheduling) and that then dies: it is down like any other
        i = rng.choice([srv['id'] for srv in case['servers']])
        case['ops'] += [['ServerState', i, 'frozen', []], ['Tick', 2], ['MasterCycle'], ['PresenceDown', i], ['Tick', 2],
                        ['MasterCycle'], ['Tick', 400], ['MasterCycle']]
    return case


def pairs_of(tr, pres0=True):
    """(input term, expected zlist term) per server; unobservable intermediate states are filled from the model side by
    splitting the history there (the model is asked for the observable suffix only)"""
    out = []
    for name, sops in sorted(tr.sops.items()):
        seen = tr.seen[name]
        # cut into segments at unobservable steps: evaluate the whole run, compare only observable positions
        mask = [seen[7 * i] is not None for i in range(len(sops))]
        exp = []
        for i, ok in enumerate(mask):
            exp.extend(seen[7 * i:7 * i + 7] if ok else [-1] * 7)
        out.append((name, sops, exp, mask))
    return out


def stage(r, seed, n):
    """plays n histories; returns the coverage dict; reports violations / broken obligations on r"""
    rng = random.Random(seed + 13)
    cycles = 0
    tot = 0
    downs = 0
    pairs = []
    meta = []
    skipped = 0
    all_sigs = set()
    for _ in range(n):
        case = gen_case(rng)
        try:
            tr, res = run_master_history(case)
        except Exception as exc:   # noqa
            r.broken_obligation('correspondence', 'C08 master stage could not drive the master: %s: %s'
                                % (type(exc).__name__, str(exc)[:200]))
            break
        cycles += res.get('stats', {}).get('cycles', 0) if isinstance(res, dict) else 0
        seen_sig = set()
        for sig, what in tr.hits:
            if sig in seen_sig:
                continue
            seen_sig.add(sig)
            all_sigs.add(sig)
            tot += 1
            r.violation(sig, what, {'engine': 'E-master-c08', 'case': case})
        downs += sum(1 for op in case['ops'] if op[0] == 'PresenceDown')
        if not tr.usable:
            skipped += 1
            continue
        for name, sops, exp, mask in pairs_of(tr):
            term = G.pair('init_srv true', G.lst(sops))
            pairs.append((term, exp, mask))
            meta.append((case, name))
    # the model on the same operations: positions the harness could not observe are masked on both sides
    mism = []
    err = None
    if pairs:
        with core.build_lock():
            okm, logm = core.make(MODEL_VOS)
            if not okm:
                err = 'model does not build: ' + logm[-800:]
            else:
                cases = []
                for term, exp, mask in pairs:
                    mterm = G.lst([G.b(x) for x in mask])
                    cases.append(('(%s, %s)' % (term, mterm), G.zlist(exp)))
                pre = PREAMBLE + ('Definition masked (x : (srv * list sop) * list bool) : list Z :=\n'
                                  '  let obs := srv_case (fst x) in\n'
                                  '  (fix go (o : list Z) (m : list bool) : list Z :=\n'
                                  '     match m with\n'
                                  '     | [] => []\n'
                                  '     | b :: m\' => (if b then firstn 7 o else repeat (-1) 7) ++ go (skipn 7 o) m\'\n'
                                  '     end) obs (snd x).\n')
                mism, err = core.run_mismatches(pre, 'masked', cases, '(srv * list sop) * list bool', shard=300,
                                                timeout=300, tag='cases_c08m')
    if err:
        r.broken_obligation('correspondence', 'C08 master stage: the model could not be evaluated', err)
    known_sigs = {e.get('signature') for e in core.known_findings('C08')}
    if mism and not (all_sigs - known_sigs):
        # the tie is broken and no history of this run shows the statement failing: search further histories with the
        # oracle alone (the failing-input search of the decision protocol)
        rng2 = random.Random(seed + 1313)
        for _ in range(600):
            case = gen_case(rng2)
            try:
                tr, _res = run_master_history(case)
            except Exception:   # noqa
                continue
            if tr.hits:
                seen_sig = set()
                for sig, what in tr.hits:
                    if sig not in seen_sig:
                        seen_sig.add(sig)
                        tot += 1
                        r.violation(sig, what, {'engine': 'E-master-c08', 'case': case})
                if seen_sig - known_sigs:
                    break
    if mism:
        import json
        j = min(mism, key=lambda k: len(pairs[k][0]))
        r.broken_obligation('correspondence',
                            'C08 master stage: Loader server-state model vs implementation: %d of %d server histories differ'
                            % (len(mism), len(pairs)),
                            json.dumps({'server': meta[j][1], 'case': meta[j][0], 'model_input': pairs[j][0],
                                        'impl_flat': pairs[j][1]}, default=str)[:6000])
    return {'master_stage': {'histories': n, 'master_cycles': cycles, 'presence_down_events': downs,
                             'violations': tot, 'server_histories_compared': len(pairs),
                             'server_histories_differ': len(mism), 'histories_outside_the_model': skipped}}


def replay(case):
    tr, _res = run_master_history(case)
    return tr.hits[0] if tr.hits else None
