"""C19: api.allocation._check_capacity vs Api/Capacity.v."""
import json
import os
import random
import sys

from .. import core, gallina as G

PID = 'C19'
ANCHORS = ['lib/python/treadmill/api/allocation.py', 'lib/python/treadmill/utils.py']
PREAMBLE = ('From Coq Require Import ZArith List.\nImport ListNotations.\n'
            'From TM Require Import Api.Capacity Gen.Tables.\nOpen Scope Z_scope.\n')
RUN_FN = '(run_case c19_tables)'
UNITS = ['B', 'K', 'M', 'G', 'T', 'P', 'E', 'Z', 'Y']
TRAITS = ['ssd', 'gpu', 'fast', 'big']


# ------------------------------------------------------------------ spellings
def spell_size(rng, mb, malformed=False):
    """A spelling (num, suffix) for roughly `mb` megabytes; returns (string, struct)."""
    if malformed and rng.random() < 0.5:
        n = rng.randint(0, 100)
        return '%d%%' % n, (n, ('pct',))
    style = rng.choice(['M', 'G', 'K', 'MB', 'GB', 'plain', 'T'])
    if style == 'plain':
        n = mb * 1024 * 1024
        return str(n), (n, ('none',))
    dec = style.endswith('B')
    k = UNITS.index(style[0])
    if k == 2:
        n = mb
    elif k == 3:
        n = max(mb // 1024, 0) if rng.random() < 0.8 else mb
    elif k == 1:
        n = mb * 1024
    else:
        n = mb // (1024 * 1024)
    s = '%d%s' % (n, style)
    if rng.random() < 0.2:
        s = s.lower()
    if rng.random() < 0.1:
        s = ' ' + s + ' '
    return s, (n, ('unit', k, dec))


def spell_cpu(rng, n, malformed=False):
    if malformed and rng.random() < 0.5:
        return '%dG' % n, (n, ('unit', 3, False))
    if rng.random() < 0.7:
        return '%d%%' % n, (n, ('pct',))
    return str(n), (n, ('none',))


def denote(struct):
    n, suf = struct
    if suf[0] == 'unit':
        return n * (1000 if suf[2] else 1024) ** suf[1]
    return n


def gen_res(rng, scale_mb, scale_cpu, malformed=False):
    """three spelled fields; returns (dict of strings, dict of structs)."""
    strs, sts = {}, {}
    m = malformed and rng.random() < 0.5
    s, st = spell_cpu(rng, rng.randint(0, scale_cpu), m)
    strs['cpu'], sts['cpu'] = s, st
    for k in ('disk', 'memory'):
        m = malformed and rng.random() < 0.3
        s, st = spell_size(rng, rng.randint(0, scale_mb), m)
        strs[k], sts[k] = s, st
    return strs, sts


def gen_case(rng, malformed=False):
    ntraits = rng.randint(0, 3)
    ptraits = rng.sample(TRAITS, ntraits)
    nall = rng.randint(0, 6)
    big = rng.choice([4096, 20480, 102400])
    part_s, part_t = gen_res(rng, big * 4, 4000, malformed and rng.random() < 0.2)
    if rng.random() < 0.7:   # make the partition large enough that accept/reject is balanced
        for k in ('disk', 'memory'):
            part_s[k], part_t[k] = spell_size(rng, big * rng.randint(2, 5))
        part_s['cpu'], part_t['cpu'] = spell_cpu(rng, rng.randint(1500, 6000))
    limits = []
    for t in ptraits:
        ls, lt = gen_res(rng, big * 2, 2000)
        limits.append({'trait': t, 's': ls, 't': lt})
    if limits and rng.random() < 0.05:   # duplicate limit for one trait (outside wf; model follows dict semantics)
        ls, lt = gen_res(rng, big * 2, 2000)
        limits.append({'trait': limits[0]['trait'], 's': ls, 't': lt})
    allocs = []
    ids = ['tnt/a%d/cell1' % i for i in range(nall)]
    for i in range(nall):
        as_, at = gen_res(rng, big, 1000, malformed and rng.random() < 0.1)
        tr = rng.sample(TRAITS, rng.randint(0, 2))
        if tr and rng.random() < 0.05:
            tr = tr + [tr[0]]
        allocs.append({'id': ids[i], 's': as_, 't': at, 'traits': tr})
    if allocs and rng.random() < 0.5:
        old = rng.choice(ids)
    else:
        old = 'tnt/new/cell1'
    rs, rt = gen_res(rng, big, 1000, malformed and rng.random() < 0.3)
    rtraits = rng.sample(TRAITS, rng.randint(0, 3))
    return {'partition': {'s': part_s, 't': part_t, 'limits': limits}, 'allocs': allocs, 'old': old,
            'request': {'s': rs, 't': rt, 'traits': rtraits}, 'malformed': malformed}


# ------------------------------------------------------------------ implementation
_IMPL = None


def impl():
    global _IMPL
    if _IMPL is None:
        sys.path.insert(0, core.PYLIB)
        from treadmill.api import allocation
        from treadmill import exc
        _IMPL = (allocation, exc)
    return _IMPL


class _FakeCellAlloc:
    def __init__(self, allocs):
        self.allocs = allocs

    def list(self, _attrs):
        return [dict(_id=a['id'], traits=list(a['traits']), **a['s']) for a in self.allocs]


class _FakePartition:
    def __init__(self, part):
        self.part = part

    def get(self, _key):
        return dict(limits=[dict(trait=l['trait'], **l['s']) for l in self.part['limits']], **self.part['s'])


def impl_run(case):
    allocation, exc = impl()
    allocation._admin_cell_alloc = lambda: _FakeCellAlloc(case['allocs'])
    allocation._admin_partition = lambda: _FakePartition(case['partition'])
    alloc_name, cell = case['old'].rsplit('/', 1)
    rsrc = dict(partition='p1', traits=list(case['request']['traits']), **case['request']['s'])
    try:
        allocation._check_capacity(cell, alloc_name, rsrc)
        return 0, ''
    except exc.InvalidInputError as e:
        return 1, str(e)
    except Exception as e:   # service failure
        return 2, '%s: %s' % (type(e).__name__, e)


# ------------------------------------------------------------------ oracle (the statement, on implementation results)
def wf_struct(key, st):
    kind = st[1][0]
    if key == 'cpu':
        return kind in ('none', 'pct')
    return kind in ('none', 'unit')


def wf_res(t):
    return all(wf_struct(k, t[k]) for k in ('cpu', 'disk', 'memory'))


def case_wf(case):
    p = case['partition']
    lt = [l['trait'] for l in p['limits']]
    return (wf_res(p['t']) and all(wf_res(l['t']) for l in p['limits']) and len(set(lt)) == len(lt)
            and all(wf_res(a['t']) and len(set(a['traits'])) == len(a['traits']) for a in case['allocs'])
            and wf_res(case['request']['t']))


def fits(case):
    others = [a for a in case['allocs'] if a['id'] != case['old']]
    req = case['request']
    for k in ('cpu', 'disk', 'memory'):
        free = denote(case['partition']['t'][k]) - sum(denote(a['t'][k]) for a in others)
        if denote(req['t'][k]) > free:
            return False
    for l in case['partition']['limits']:
        if l['trait'] not in req['traits']:
            continue
        for k in ('cpu', 'disk', 'memory'):
            free = denote(l['t'][k]) - sum(denote(a['t'][k]) for a in others if l['trait'] in a['traits'])
            if denote(req['t'][k]) > free:
                return False
    return True


def oracle(case, outcome, msg):
    if not case_wf(case):
        return None
    f = fits(case)
    if outcome == 2:
        return ('service-failure-on-valid-request',
                'valid request (fits=%s) fails with %s instead of accept / input error' % (f, msg))
    if outcome == 0 and not f:
        return ('accepted-but-does-not-fit', 'a reservation that exceeds capacity or a trait limit is accepted')
    if outcome == 1 and f:
        return ('rejected-but-fits', 'a reservation that fits is rejected (%s)' % msg)
    return None


# ------------------------------------------------------------------ model terms
def t_raw(st):
    n, suf = st
    if suf[0] == 'none':
        s = 'SNone'
    elif suf[0] == 'pct':
        s = 'SPct'
    else:
        s = '(SUnit %s %s)' % (G.nat(suf[1]), G.b(suf[2]))
    return '{| r_num := %s; r_suf := %s |}' % (G.z(n), s)


def t_res(t):
    return '{| f_cpu := %s; f_disk := %s; f_mem := %s |}' % (t_raw(t['cpu']), t_raw(t['disk']), t_raw(t['memory']))


def case_term(case):
    ids = {}

    def zid(s):
        return ids.setdefault(s, len(ids) + 1)
    tid = {t: i + 1 for i, t in enumerate(TRAITS)}
    p = case['partition']
    limits = G.lst(['{| l_trait := %s; l_res := %s |}' % (G.z(tid[l['trait']]), t_res(l['t'])) for l in p['limits']])
    part = '{| p_res := %s; p_limits := %s |}' % (t_res(p['t']), limits)
    allocs = G.lst(['{| a_id := %s; a_res := %s; a_traits := %s |}'
                    % (G.z(zid(a['id'])), t_res(a['t']), G.zlist([tid[t] for t in a['traits']]))
                    for a in case['allocs']])
    rq = '{| q_res := %s; q_traits := %s |}' % (t_res(case['request']['t']),
                                               G.zlist([tid[t] for t in case['request']['traits']]))
    return G.pair(part, allocs, G.z(zid(case['old'])), rq)


def nontrivial(case):
    others = [a for a in case['allocs'] if a['id'] != case['old']]
    lim = {l['trait'] for l in case['partition']['limits']}
    return bool(others) and any(t in lim and any(t in a['traits'] for a in others)
                                for t in case['request']['traits'])


def _respell(s, t):
    """the same three quantities in the plainest spelling: cpu without '%', sizes in bytes without a unit"""
    ns, nt = {}, {}
    for k in ('cpu', 'disk', 'memory'):
        n = denote(t[k])
        ns[k], nt[k] = str(n), (n, ('none',))
    return ns, nt


def variants(case):
    """Metamorphic variants of a well-formed case (Props/C19.v: C19_order_irrelevant, C19_spelling_irrelevant,
    C19_replaced_ignored): the reservations listed in another order; every quantity re-spelled; the reservation being
    replaced holding something else.  All random choices come from the case itself, so a replay sees the same variants."""
    import copy
    import zlib
    rng = random.Random(zlib.crc32(json.dumps(case, sort_keys=True).encode()))
    out = {}
    v = copy.deepcopy(case)
    rng.shuffle(v['allocs'])
    out['order'] = v
    v = copy.deepcopy(case)
    for o in [v['partition'], v['request']] + v['partition']['limits'] + v['allocs']:
        o['s'], o['t'] = _respell(o['s'], o['t'])
    out['spelling'] = v
    mine = [i for i, a in enumerate(case['allocs']) if a['id'] == case['old']]
    if mine:
        v = copy.deepcopy(case)
        a = v['allocs'][mine[0]]
        a['s'], a['t'] = gen_res(rng, 10 ** 6, 10 ** 5)
        a['traits'] = rng.sample(TRAITS, rng.randint(0, 3))
        out['replaced'] = v
    return out


def _impl(case):
    o, msg = impl_run(case)
    res = {'outcome': o, 'message': msg}
    if case_wf(case):
        res['variants'] = {k: impl_run(v)[0] for k, v in variants(case).items()}
    return res


META_SIG = {'order': 'decision-depends-on-listing-order', 'spelling': 'decision-depends-on-unit-spelling',
            'replaced': 'replaced-reservation-counted-against-its-replacement'}


def oracle_full(case, obs):
    r = oracle(case, obs['outcome'], obs['message'])
    if r is not None:
        return r
    for k, vo in sorted((obs.get('variants') or {}).items()):
        if vo != obs['outcome']:
            return (META_SIG[k], 'the same request is decided %s, but %s once %s' % (
                ['accept', 'reject', 'service failure'][obs['outcome']], ['accept', 'reject', 'service failure'][vo],
                {'order': 'the other reservations are listed in another order',
                 'spelling': 'every quantity is re-spelled without units',
                 'replaced': 'the reservation being replaced holds something else'}[k]))
    return None


def _extra(_r, cases, obs):
    dist = {'accept': 0, 'reject': 0, 'crash': 0, 'wf': 0, 'malformed': 0}
    for c, o in zip(cases, obs):
        dist[['accept', 'reject', 'crash'][o['outcome']]] += 1
        dist['wf' if case_wf(c) else 'malformed'] += 1
    return {'distribution': dist}


def run(tier, seed):
    core.standard_run(PID, tier, seed, {
        'model_vos': ['Api/Capacity', 'Gen/Tables'], 'table_sections': ['c19', 'source_shape'],
        'preamble': PREAMBLE, 'run_fn': RUN_FN, 'in_type': 'partition * list alloc * Z * request',
        'gen_case': lambda rng, i: gen_case(rng, malformed=(i % 10 == 9)),
        'impl_run': _impl,
        'expected': lambda c, o: [o['outcome']],
        'case_term': lambda c, o: case_term(c),
        'oracle': lambda c, o: oracle_full(c, o),
        'nontrivial': lambda c, o: nontrivial(c),
        'n_quick': 600, 'n_thorough': 20000, 'search_quick': 5000, 'search_thorough': 100000,
        'corpus': 'c19.json',
        'rule': 'seeded generator (one random.Random(seed)); partition + <=3 limited traits + <=6 reservations '
                '+ request, every quantity spelled in a random unit; every 10th case from the malformed stream; '
                'non-trivial = some other reservation shares a limited trait with the request',
        'trusted': TRUSTED, 'assumptions': ASSUMPTIONS, 'anchors': ANCHORS, 'extra': _extra,
    })


TRUSTED = [
    'Coq 8.16.1 kernel (coqc); vm_compute for C19_table_is_canonical and the Example; no native_compute',
    'Print Assumptions: closed under the global context for every theorem of Props/C19.v',
    'translator harness/tables.py (c19_flows: AST pattern match of _calc_free/_calc_free_traits/_check_limit, fail-closed)',
    'hand-written model Api/Capacity.v of _check_capacity control flow, tied by differential execution (cases.v + vm_compute)',
    'structured spellings (number, suffix) stand for the strings; string-level parsing is tied under C01 (E-codec)',
]
ASSUMPTIONS = [
    'inputs well-formed as the REST schema admits: cpu fields spelled N or N%, size fields N or N<unit>[B]; '
    'unique traits per reservation; one limit per trait',
    'the LDAP list() of cell allocations returns exactly the reservations of the cell+partition',
]


def replay_case(case):
    return oracle_full(case, _impl(case))
