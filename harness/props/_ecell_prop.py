"""Shared runner for the properties decided on the scheduler model (C01..C08)."""
from .. import core, ecell, ecell_gen, ecell_oracles

ANCHORS = ['lib/python/treadmill/scheduler/__init__.py']

TRUSTED_COMMON = [
    'Coq 8.16.1 kernel (coqc), vm_compute only for Examples/witnesses and the correspondence; no native_compute',
    'hand-written executable model coq/theories/Sched/{Vec,Types,Queue,Tree,Cycle,Events}.v of '
    'treadmill.scheduler (Cell/Bucket/Server/Allocation/Application/IdentityGroup), tied to /repo by differential '
    'execution: after EVERY operation of every generated history the digest of the canonical dump of the real '
    'objects (instances, servers, buckets with stored aggregates/counters/cursors, identity groups, allocation '
    'trees; for a cycle also the queue handed to _find_placements and the returned placement tuples) must equal '
    'the digest the model computes (cases_*.v + Eval vm_compute, Base/Flat.v mismatches)',
    'modelled rather than verified: Python dict order (association lists), set.pop() of identities (the '
    'implementation\'s choice is recorded and fed to the model), float64 utilisation as exact rationals with the '
    'x+eps case split (Queue.avail_q), virtual clock (time.time patched), _global_order replaced by a counter',
    'RecordUpdate library (record setters), no axioms',
    'source-shape translator harness/tables_shape.py: the statement skeletons of the scheduler functions the theorems '
    'are about are re-extracted from the Python AST on every run and must equal the recorded ones '
    '(coq/theories/Sched/ShapeCanon.v, readable form shape_canon.txt); premise Cxx_source_shape by vm_compute',
]
ASSUMPTIONS_COMMON = [
    'integer-valued capacity/demand vectors of dimension 3 (numpy float64 holds them exactly below 2^53)',
    'non-zero capacity/reservation components >= 64 and fewer than 32 servers (float absorption of eps)',
    'time.time() constant within one scheduling cycle; unique global_order per instance',
    'only SpreadStrategy (no production code selects PackStrategy)',
]


def make_spec(pid, profile, rule_extra, n_quick=100, n_thorough=6000, extra_oracle=None, table_sections=()):
    def gen_case(rng, i):
        case = ecell_gen.gen_history(rng, profile, max_ops=rng.choice([18, 28, 40, 55]))
        return case

    def impl_run(case):
        r = ecell.run_history(case)
        hits = []
        stats = {'cycles': 0, 'evictions': 0, 'restores': 0, 'pending_after_cycle': 0, 'placements': 0}
        # the oracles look at the operations that did complete, also when a later one raised
        hits = ecell_oracles.run_oracle(pid, r['trace'])
        if r['error'] is None:
            if extra_oracle:
                hits += extra_oracle(case, r)
            for rec in r['trace']:
                if rec.get('op') != 'Schedule':
                    continue
                stats['cycles'] += 1
                stats['evictions'] += sum(1 for p in rec['puts'] if p[2] == '_find_placements')
                stats['restores'] += sum(1 for p in rec['puts'] if p[2].startswith('restore'))
                stats['placements'] += sum(1 for p in rec['puts'] if p[2] == 'put')
                stats['pending_after_cycle'] += sum(1 for a in rec['after']['apps'].values() if a['server'] is None)
        return {'digests': r['digests'], 'ops': r['ops'], 'error': r['error'], 'hits': hits, 'stats': stats}

    def expected(case, obs):
        if obs['error'] is not None:
            return None      # harness precondition violated (e.g. renew flag on an instance that lost its server)
        return obs['digests']

    def oracle(case, obs):
        return [(s, w) for s, w in obs['hits']] or None

    def nontrivial(case, obs):
        st = obs['stats']
        return obs['error'] is None and (st['evictions'] + st['restores'] > 0 or st['pending_after_cycle'] > 0)

    def extra(_r, cases, obs):
        tot = {'cycles': 0, 'evictions': 0, 'restores': 0, 'pending_after_cycle': 0, 'placements': 0}
        kinds = {}
        errors = {}
        for c, o in zip(cases, obs):
            for k in tot:
                tot[k] += o['stats'][k]
            for op in c['ops']:
                kinds[op[0]] = kinds.get(op[0], 0) + 1
            if o['error']:
                errors[o['error']['type']] = errors.get(o['error']['type'], 0) + 1
        cov = {'distribution': {'op_kinds': kinds, 'totals': tot, 'skipped_by_error_type': errors}}
        # which of the generated histories satisfy the side conditions of the all-histories theorems (Sched/SideCond.v)
        try:
            from .. import sidecond
            terms = [ecell.case_term(c, o['ops']) for c, o in zip(cases, obs) if o.get('error') is None][:60]
            with core.build_lock():
                okm, _log = core.make(['Sched/SideCond'])
                cov['side_conditions'] = sidecond.evaluate(ecell.PREAMBLE, terms) if okm else {'error': 'SideCond does not build'}
        except Exception as exc:   # noqa  (reporting only)
            cov['side_conditions'] = {'error': '%s: %s' % (type(exc).__name__, str(exc)[:120])}
        return cov

    return {
        'model_vos': ecell.MODEL_VOS, 'table_sections': list(table_sections) + ['source_shape'],
        'preamble': ecell.PREAMBLE, 'run_fn': 'run_case', 'in_type': ecell.IN_TYPE,
        'gen_case': gen_case, 'impl_run': impl_run, 'expected': expected,
        'case_term': lambda c, o: ecell.case_term(c, o['ops']),
        'oracle': oracle, 'nontrivial': nontrivial,
        'n_quick': n_quick, 'n_thorough': n_thorough, 'search_quick': 1500, 'search_thorough': 30000,
        'corpus': '%s.json' % pid.lower(), 'shard': 8,
        'rule': 'seeded histories of cell events (topology, servers up/down/frozen/removed, instances added/removed/'
                're-prioritised/moved/blacklisted, allocations and identity groups changed, clock ticks) interleaved '
                'with scheduling cycles, 18-55 operations; ' + rule_extra +
                '; non-trivial = the history contains an eviction, a restore or a pending instance after a cycle',
        'trusted': TRUSTED_COMMON, 'assumptions': ASSUMPTIONS_COMMON, 'anchors': ANCHORS, 'extra': extra,
    }


def with_master_stage(spec, pid, tier, seed, trace_oracle=None, use_oracle=True):
    """adds the master-level stage (harness/props/_master_stage.py) to a spec made by make_spec"""
    inner = spec['extra']

    def extra(r, cases, obs):
        cov = inner(r, cases, obs)
        from . import _master_stage
        cov.update(_master_stage.stage(pid, r, seed, 60 if tier == 'quick' else 2500, extra=trace_oracle, use_oracle=use_oracle))
        return cov
    spec['extra'] = extra
    spec['rule'] += ('; plus a master-level stage: E-master histories (profile sched) on the real Master, every cycle it '
                     'runs recorded as E-cell records one and judged by the same oracle')
    return spec


def replay(pid, case, extra_oracle=None, trace_oracle=None):
    if isinstance(case, dict) and case.get('engine') == 'E-master-probe':
        from . import _master_stage
        return _master_stage.replay(pid, case, extra=trace_oracle, use_oracle=(pid != 'C08'))
    r = ecell.run_history(case)
    hits = ecell_oracles.run_oracle(pid, r['trace'])
    if r['error'] is not None:
        return hits[0] if hits else ('implementation-error', '%s: %s' % (r['error']['type'], r['error']['msg']))
    if extra_oracle:
        hits += extra_oracle(case, r)
    return hits[0] if hits else None
