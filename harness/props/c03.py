"""C03 on E-cell histories (Props/C03.v, harness/ecell_oracles.py)."""
from .. import core
from . import _ecell_prop as E

PID = 'C03'
PROFILE_C03 = {'partitions': 0.7, 'traits': 0.6, 'lease': 0.5, 'failure': 0.5, 'renew': 0.3, 'pressure': 0.7, 'frozen': 0.5}
RULE_C03 = 'C03 profile: instances moved between allocations of different partitions, allocations gaining traits, servers frozen/down, leases with reboot times around now+lease, renewals under an advancing clock'


def run(tier, seed):
    spec = E.make_spec(PID, PROFILE_C03, RULE_C03)
    core.standard_run(PID, tier, seed, spec)


def replay_case(case):
    return E.replay(PID, case)
