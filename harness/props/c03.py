"""C03 on E-cell histories (Props/C03.v, harness/ecell_oracles.py)."""
from .. import core
from . import _ecell_prop as E

PID = 'C03'
PROFILE_C03 = {'partitions': 0.7, 'traits': 0.6, 'lease': 0.5, 'failure': 0.5, 'renew': 0.3, 'pressure': 0.7, 'frozen': 0.5, 'frozen_evict': 0.12}
RULE_C03 = 'C03 profile: instances moved between allocations of different partitions, allocations gaining traits, servers frozen/down, leases with reboot times around now+lease, renewals under an advancing clock'


def run(tier, seed):
    spec = E.make_spec(PID, PROFILE_C03, RULE_C03)
    # Loader glue for one manifest / one server record: Master/LoadApp.v, Props/C03Load.v, harness/props/loadapp.py
    # where valid_until comes from: Partition / RebootBucket / reboot_dates - Sched/Reboot.v, Props/C03Reboot.v,
    # harness/props/reboot.py
    from . import loadapp, reboot
    spec['trusted'] = list(spec['trusted']) + list(loadapp.TRUSTED) + list(reboot.TRUSTED)
    spec['assumptions'] = list(spec['assumptions']) + list(loadapp.ASSUMPTIONS) + list(reboot.ASSUMPTIONS)
    spec['table_sections'] = list(spec['table_sections']) + list(loadapp.SECTIONS) + list(reboot.SECTIONS)
    inner = spec.get('extra')

    def extra(r, cases, obs):
        cov = inner(r, cases, obs) if inner else {}
        u = loadapp.stage(r, seed, tier)
        cov['extra_obligations'] = cov.get('extra_obligations', 0) + u.pop('loadapp_obligations')
        cov.update(u)
        u = reboot.stage(r, seed, tier)
        cov['extra_obligations'] = cov.get('extra_obligations', 0) + u.pop('reboot_obligations')
        cov.update(u)
        return cov
    spec['extra'] = extra
    spec = E.with_master_stage(spec, PID, tier, seed)
    core.standard_run(PID, tier, seed, spec)


def replay_case(case):
    if isinstance(case, dict) and case.get('engine') == 'E-loadapp':
        from . import loadapp
        return loadapp.replay_case(case)
    if isinstance(case, dict) and case.get('engine') == 'E-reboot':
        from . import reboot
        return reboot.replay_case(case)
    return E.replay(PID, case)
