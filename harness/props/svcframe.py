"""C14, the resource-service framework as a model of its own (Node/SvcFrame.v, Props/C14Frame.v).

A STAGE of the C14 check (to be called from harness/props/c14.py), not a standalone check:

    cov = svcframe.stage(r, seed, tier)

It ties Node/SvcFrame.v to services/_base_service.py + services/_linux_base_service.py: translator section `svcframe`
(harness/tables_svcframe.py), the theorems of Props/C14Frame.v (recompiled here, Print Assumptions parsed), differential
execution of the REAL framework against the model (cases_svcframe_*.v + vm_compute) and statement (a) as an oracle on the
recorded calls.

How the real code is driven: `c14frame.World` (real LinuxResourceService._run with its real start-up sequence and poll
loop over a real inotify watcher on a real resources/ directory, real ResourceServiceClient, real
NetworkResourceService over the recording kernel fakes of c14.py).  The implementation class is wrapped by a subclass
that logs every call the framework makes to it - initialize, on_create_request(name, data), on_delete_request(name),
synchronize - before delegating.  The history is played from inside the loop (the watchdog lease the framework
heartbeats once per iteration is the harness): after a step the loop runs four more iterations so every queued event is
handled, then the calls logged since the step are that step's observation.  The only input taken from the
implementation is the order in which glob.glob listed the directory at each start (the name `glob` of the module
_base_service is wrapped by a recorder for the duration of a run)."""
import ipaddress
import logging
import os
import random
import shutil
import sys
import time

from .. import core, gallina as G
from . import c14frame

PID = 'C14'
PROPS = 'C14Frame'
SECTIONS = ('svcframe',)
MODEL_VOS = ['Node/Owners', 'Node/SvcFrame', 'Node/SvcFrameRun', 'Gen/Tables', 'Base/Flat']
PREAMBLE = ('From Coq Require Import ZArith List.\nImport ListNotations.\n'
            'From TM Require Import Node.Owners Node.SvcFrame Node.SvcFrameRun.\nOpen Scope Z_scope.\n')
RUN_FN = 'run_case'
IN_TYPE = 'fcase'
ANCHORS = ['lib/python/treadmill/services/_base_service.py', 'lib/python/treadmill/services/_linux_base_service.py']
ENGINE = 'E-node-svcframe'
ENVS = ['dev', 'qa', 'uat', 'prod']
SVC = 'NetworkResourceService'
DRAIN = 4          # loop iterations after a step before its observation is closed


# ------------------------------------------------------------------ generator
def gen_case(rng, _i):
    no = rng.randint(2, 5)
    ops = [['boot']] if rng.random() < 0.9 else []
    up = bool(ops)
    for _ in range(rng.randint(4, 16)):
        c = rng.random()
        o = rng.randrange(1, no + 1)
        if c < 0.30:
            ops.append(['put', o, -1 if rng.random() < 0.08 else rng.randint(1, 4)])
        elif c < 0.40:
            ops.append(['delete', o])
        elif c < 0.48:
            ops.append(['gone', o])
        elif c < 0.60:
            ops.append(['get', o])
        elif c < 0.65:
            ops.append(['rmreq', o])
        elif c < 0.72:
            ops.append(['touch', rng.choice(['dir', 'dot', o, o])])
        elif c < 0.88:
            if up:
                ops.append(['stop'])
            ops.append(['boot'])
            up = True
        else:
            if up:
                ops.append(['stop'])
                up = False
            else:
                ops.append(['boot'])
                up = True
    if not up and rng.random() < 0.7:
        ops.append(['boot'])
    return {'n_owners': no, 'cidr': rng.choice(['192.168.0.0/28', '192.168.0.0/29', '192.168.0.0/24']), 'ops': ops}


# ------------------------------------------------------------------ the real framework
class _GlobRecorder(object):
    def __init__(self, real, world):
        self._real, self._world = real, world

    def glob(self, pattern, *a, **kw):
        res = self._real.glob(pattern, *a, **kw)
        self._world.on_glob(list(res))
        return res

    def __getattr__(self, name):
        return getattr(self._real, name)


class FrameWorld(c14frame.World):
    """c14frame.World with a recording implementation and a step-by-step observation of the framework"""

    def __init__(self, case):
        super(FrameWorld, self).__init__(case)
        world = self
        base_cls = self.impl_cls

        class Recording(base_cls):
            __slots__ = ()

            def initialize(self, service_dir):
                world.log.append(['init'])
                world.inside += 1
                try:
                    return super(Recording, self).initialize(service_dir)
                finally:
                    world.inside -= 1

            def synchronize(self):
                world.log.append(['sync'])
                world.inside += 1            # the implementation's calls to its own handlers are not the framework's
                try:
                    return super(Recording, self).synchronize()
                finally:
                    world.inside -= 1

            def on_create_request(self, rsrc_id, rsrc_data):
                if world.inside:
                    return super(Recording, self).on_create_request(rsrc_id, rsrc_data)
                world.log.append(['create', rsrc_id, dict(rsrc_data) if isinstance(rsrc_data, dict) else repr(rsrc_data)])
                world.inside += 1
                try:
                    return super(Recording, self).on_create_request(rsrc_id, rsrc_data)
                finally:
                    world.inside -= 1

            def on_delete_request(self, rsrc_id):
                if world.inside:
                    return super(Recording, self).on_delete_request(rsrc_id)
                world.log.append(['delete', rsrc_id])
                world.inside += 1
                try:
                    return super(Recording, self).on_delete_request(rsrc_id)
                finally:
                    world.inside -= 1
        Recording.__name__ = SVC
        self.impl_cls = Recording
        self.log = []            # calls since the last flush
        self.inside = 0
        self.steps = []          # per executed op: {'calls': [...], 'get': ..., 'order': [...], 'expect': [...]}
        self.cur = None
        self.boot_order = None
        self.names = {c14frame.owner(i): i for i in range(1, case['n_owners'] + 1)}

    # ---- helpers
    def name(self, o):
        return c14frame.owner(o)

    def req_dir(self, name):
        return os.path.join(self.root, 'apps', name, 'rsrc', 'req-%s-%s' % (SVC, name))

    def on_glob(self, res):
        if self.boot_order is None:
            self.boot_order = [os.path.basename(p) for p in res]

    def flush(self):
        if self.cur is not None:
            self.cur['calls'] = self.log
            if self.cur['op'][0] == 'boot':
                self.cur['vips_after'] = self.vips()
            self.steps.append(self.cur)
        self.cur = None
        self.log = []

    def begin(self, op):
        self.flush()
        self.cur = {'op': op, 'calls': [], 'get': None, 'order': None, 'expect': None}

    def snapshot_replayable(self):
        """the harness's own reading of the directory right before a start: entries that resolve and carry a request
        the schema accepts"""
        out = []
        for n in os.listdir(self.rsrc_dir):
            p = os.path.join(self.rsrc_dir, n)
            if n.startswith('.') or not os.path.exists(p):
                continue
            try:
                with open(os.path.join(p, 'request.yml')) as f:
                    d = self.yaml.load(stream=f)
            except (IOError, OSError):
                continue
            if isinstance(d, dict) and isinstance(d.get('environment'), str):
                out.append(n)
        return sorted(out)

    # ---- one step of a client / of the environment
    def container_step(self, op):
        k = op[0]
        if k == 'touch':
            if op[1] == 'dir':
                os.chmod(self.rsrc_dir, os.stat(self.rsrc_dir).st_mode & 0o7777)
            elif op[1] == 'dot':
                p = os.path.join(self.rsrc_dir, '.junk')
                with open(p, 'w'):
                    pass
                os.unlink(p)
            else:
                p = os.path.join(self.rsrc_dir, self.name(op[1]))
                if os.path.lexists(p):
                    os.lchown(p, os.getuid(), os.getgid())
            return
        name = self.name(op[1])
        if k == 'put':
            data = {} if op[2] < 0 else {'environment': ENVS[op[2] - 1]}
            self.client(name).put(name, data)
        elif k == 'delete':
            clt = self.client(name)
            clt.delete(name)
            d = os.path.join(self.root, 'apps', name, 'rsrc')
            for b in os.listdir(d):          # the renamed request directories (bck<time>-...): see TRUSTED
                if b.startswith('bck'):
                    shutil.rmtree(os.path.join(d, b), ignore_errors=True)
        elif k == 'gone':
            shutil.rmtree(os.path.join(self.root, 'apps', name), ignore_errors=True)
        elif k == 'rmreq':
            try:
                os.unlink(os.path.join(self.req_dir(name), 'request.yml'))
            except OSError:
                pass
        elif k == 'get':
            try:
                rep = self.client(name).get(name)
                self.cur['get'] = None if rep is None else rep
            except self.services.ResourceServiceRequestError:
                self.cur['get'] = 'error'

    # ---- the loop's heartbeat = the history
    def on_heartbeat(self):
        self.idle += 1
        if self.idle < DRAIN:
            return
        ops = self.case['ops']
        if self.pos >= len(ops):
            self.flush()
            self.svc._is_dead = True          # pylint: disable=protected-access
            return
        op = ops[self.pos]
        if op[0] in ('stop', 'boot'):          # a boot while up is generated as stop; boot
            self.flush()
            self.svc._is_dead = True          # pylint: disable=protected-access
            self.pending = True
            return
        self.pos += 1
        self.idle = 0
        self.begin(op)
        self.container_step(op)

    def run(self):
        ops = self.case['ops']
        if core.PYLIB not in sys.path:
            sys.path.insert(0, core.PYLIB)
        from treadmill.services import _base_service as base
        real_glob = base.glob
        base.glob = _GlobRecorder(real_glob, self)
        try:
            while self.pos < len(ops):
                op = ops[self.pos]
                self.pos += 1
                if op[0] != 'boot':            # the service is not running
                    self.begin(op)
                    if op[0] != 'stop':
                        self.container_step(op)
                    self.flush()
                    continue
                self.begin(op)
                self.cur['expect'] = self.snapshot_replayable()
                self.cur['vips_before'] = self.vips()
                self.boot_order = None
                self.pending = False
                self.idle = 0
                self.boots += 1
                self.svc = self.services.ResourceService(service_dir=self.svc_dir, impl=self.impl_cls)
                impl = self.impl_cls(ext_device='eth0', ext_ip='10.255.0.1', ext_mtu=1500, ext_speed=10000)
                boot_step = self.cur
                fds = core.open_fds()
                try:
                    self.svc._run(impl, self.lease)   # pylint: disable=protected-access
                finally:
                    core.close_fds_since(fds)
                    boot_step['order'] = self.boot_order or []
                self.flush()
        finally:
            base.glob = real_glob
        return self.steps

    # ---- the directories at the end
    def dump(self):
        out = {}
        for name, i in self.names.items():
            rd = self.req_dir(name)
            e = {'link': os.path.lexists(os.path.join(self.rsrc_dir, name)), 'dir': os.path.isdir(rd),
                 'req': None, 'uid': os.path.exists(os.path.join(rd, 'svc_req_id')), 'reply': None}
            for key, fn in (('req', 'request.yml'), ('reply', 'reply.yml')):
                try:
                    with open(os.path.join(rd, fn)) as f:
                        e[key] = ['some', self.yaml.load(stream=f)]
                except (IOError, OSError):
                    pass
            out[str(i)] = e
        return out


def impl_run(case):
    w = FrameWorld(case)
    try:
        obs = {'error': None}
        try:
            w.run()
        except Exception as exc:   # noqa
            import traceback
            tb = traceback.extract_tb(sys.exc_info()[2])[-1]
            obs['error'] = '%s: %s at %s:%s' % (type(exc).__name__, str(exc)[:160], os.path.basename(tb.filename), tb.name)
        obs['steps'] = w.steps
        obs['dump'] = w.dump()
        obs['boots'] = w.boots
        return obs
    finally:
        w.close()


# ------------------------------------------------------------------ oracle: statement (a) on the recorded calls
def oracle(case, obs):
    out = []
    if obs['error']:
        out.append(('svcframe:framework-raised', obs['error']))
    for k, st in enumerate(obs['steps']):
        if st['op'][0] != 'boot':
            continue
        calls = st['calls']
        kinds = [c[0] for c in calls]
        where = 'boot at op %d' % k
        if not kinds or kinds[0] != 'init':
            out.append(('svcframe:start-up-does-not-begin-with-initialize', '%s: calls %r' % (where, kinds[:6])))
            continue
        if 'sync' not in kinds:
            out.append(('svcframe:no-synchronize-at-start-up', '%s: calls %r' % (where, kinds[:12])))
            continue
        mid = calls[1:kinds.index('sync')]
        replayed = [c[1] for c in mid if c[0] == 'create']
        if any(c[0] != 'create' for c in mid):
            out.append(('svcframe:foreign-call-between-initialize-and-synchronize', '%s: %r' % (where, mid[:8])))
        for n in st['expect']:
            if replayed.count(n) == 0:
                out.append(('svcframe:live-request-not-replayed-before-synchronize',
                             '%s: %s resolves and has a valid request.yml but was not handed to the implementation '
                             'before synchronize (replayed: %r)' % (where, n, replayed)))
            elif replayed.count(n) > 1:
                out.append(('svcframe:request-replayed-twice', '%s: %s handed over %d times' % (where, n, replayed.count(n))))
        for n in replayed:
            if n not in st['expect']:
                out.append(('svcframe:replayed-a-request-that-is-not-live', '%s: %s (live: %r)' % (where, n, st['expect'])))
        # C14F_startup_frees_only_gone_or_unreplayable on the real directories: an address the start-up takes from its
        # holder belonged to a request that is not handed over (c14frame.py checks that an answered live owner keeps
        # the address it was told in histories without unreplayable requests; this is the statement with them)
        after = st.get('vips_after') or {}
        for ip, n in sorted((st.get('vips_before') or {}).items()):
            if after.get(ip) != n and n in st['expect']:
                out.append(('svcframe:start-up-freed-the-address-of-a-replayable-request',
                             '%s: vips/%s -> %s before, %r after, although %s resolves and has a valid request.yml'
                             % (where, ip, n, after.get(ip), n)))
        want = [n for n in st['order'] if n in st['expect']]
        if sorted(replayed) == sorted(want) and replayed != want:
            out.append(('svcframe:replay-order-differs-from-the-directory-listing', '%s: %r, listing %r' % (where, replayed, want)))
    return out


# ------------------------------------------------------------------ model terms / flattening
def _ip(s):
    return int(ipaddress.IPv4Address(s))


def _reply_flat(rep):
    """rep: None | 'error' | the reply object"""
    if rep is None:
        return [0]
    if rep == 'error' or (isinstance(rep, dict) and '_error' in rep):
        return [2]
    if isinstance(rep, dict) and isinstance(rep.get('vip'), str):
        return [1, _ip(rep['vip'])]
    return [-7]


def _env_code(d):
    if isinstance(d, dict) and d.get('environment') in ENVS:
        return ENVS.index(d['environment']) + 1
    return -1


def expected(case, obs, world_names):
    out = []
    for st in obs['steps']:
        for c in st['calls']:
            if c[0] == 'init':
                out += [6]
            elif c[0] == 'sync':
                out += [5]
            elif c[0] == 'create':
                out += [3, world_names.get(c[1], -99), _env_code(c[2])]
            elif c[0] == 'delete':
                out += [4, world_names.get(c[1], -99)]
        if st['op'][0] == 'get':
            out += _reply_flat(st['get'])
        out.append(-1)
    for i in range(1, case['n_owners'] + 1):
        e = obs['dump'][str(i)]
        out += [int(e['link']), int(e['dir'])]
        out += [0] if e['req'] is None else [1, _env_code(e['req'][1])]
        out += [int(e['uid'])]
        out += [0] if e['reply'] is None else _reply_flat(e['reply'][1])
    return out


def _z(n):
    return '(%d)' % n if n < 0 else str(n)


def case_term(case, obs, world_names):
    """the history as executed, each boot with the directory order the implementation's glob.glob returned"""
    ops = []
    for st in obs['steps']:
        op = st['op']
        k = op[0]
        if k == 'boot':
            ops.append('FBoot [%s]' % '; '.join(_z(world_names.get(n, -99)) for n in st['order']))
        elif k == 'stop':
            ops.append('FStop')
        elif k == 'put':
            ops.append('FPut %s %s' % (_z(op[1]), _z(op[2])))
        elif k == 'delete':
            ops.append('FDelete %s' % _z(op[1]))
        elif k == 'gone':
            ops.append('FGone %s' % _z(op[1]))
        elif k == 'get':
            ops.append('FGet %s' % _z(op[1]))
        elif k == 'rmreq':
            ops.append('FRmReq %s' % _z(op[1]))
        elif k == 'touch':
            ops.append('FTouch PDir' if op[1] == 'dir' else 'FTouch (PName (-1))' if op[1] == 'dot'
                       else 'FTouch (PName %s)' % _z(op[1]))
    net = ipaddress.IPv4Network(case['cidr'])
    return ('{| fc_cidr := {| c_base := %d; c_size := %d |}; fc_ops := [%s]; fc_names := [%s] |}'
            % (int(net.network_address), net.num_addresses, '; '.join(ops),
               '; '.join(str(i) for i in range(1, case['n_owners'] + 1))))


def _names(case):
    return {c14frame.owner(i): i for i in range(1, case['n_owners'] + 1)}


# ------------------------------------------------------------------ the stage
def _quiet():
    logging.disable(logging.CRITICAL)


def _distribution(cases, obs):
    d = {'ops': {}, 'boots': 0, 'boots_with_requests_to_replay': 0, 'requests_replayed': 0,
         'boots_with_links_removed_by_the_framework': 0, 'boots_with_listed_entries_not_replayable': 0,
         'deletes_delivered': 0,
         'creates_from_events': 0, 'get_none': 0, 'get_reply': 0, 'get_error': 0, 'invalid_payload_puts': 0,
         'steps_while_stopped': 0, 'histories_incomplete': 0, 'addresses_kept_over_a_start': 0,
         'addresses_freed_at_a_start': 0}
    for c, o in zip(cases, obs):
        if len(o['steps']) != len(c['ops']):
            d['histories_incomplete'] += 1
        up = False
        for st in o['steps']:
            k = st['op'][0]
            d['ops'][k] = d['ops'].get(k, 0) + 1
            kinds = [x[0] for x in st['calls']]
            if k == 'boot':
                up = True
                d['boots'] += 1
                n = len(st['expect'] or [])
                d['boots_with_requests_to_replay'] += n > 0
                d['requests_replayed'] += kinds[:kinds.index('sync')].count('create') if 'sync' in kinds else 0
                after = kinds[kinds.index('sync') + 1:] if 'sync' in kinds else []
                d['boots_with_links_removed_by_the_framework'] += 'delete' in after
                va = st.get('vips_after') or {}
                for ip, nm in (st.get('vips_before') or {}).items():
                    d['addresses_kept_over_a_start' if va.get(ip) == nm else 'addresses_freed_at_a_start'] += 1
                d['boots_with_listed_entries_not_replayable'] += len(st['order'] or []) > n
            else:
                if k == 'stop':
                    up = False
                elif not up:
                    d['steps_while_stopped'] += 1
                d['deletes_delivered'] += kinds.count('delete')
                d['creates_from_events'] += kinds.count('create')
            if k == 'get':
                g = st['get']
                d['get_none' if g is None else 'get_error' if g == 'error' else 'get_reply'] += 1
            if k == 'put' and st['op'][2] < 0:
                d['invalid_payload_puts'] += 1
    return d


def stage(r, seed, tier, n=None):
    t0 = time.time()
    rng = random.Random(seed + 141415)
    n = n or (120 if tier == 'quick' else 2500)
    _quiet()
    try:
        return _stage(r, seed, tier, rng, n, t0)
    except Exception as exc:   # never lose the verdict: an unusable tie is a broken obligation
        import traceback
        r.broken_obligation('correspondence', 'C14 svcframe stage failed: %s: %s' % (type(exc).__name__, str(exc)[:300]),
                            traceback.format_exc())
        return {'svcframe_stage': {'error': '%s: %s' % (type(exc).__name__, str(exc)[:300])}, 'svcframe_obligations': 0}


def _stage(r, seed, tier, rng, n, t0):
    with core.build_lock():
        terr = core.regen_tables()
        for sec, msg in terr:
            if sec in SECTIONS:
                r.broken_obligation('tables', 'translator section %s' % sec, msg)
        okm, logm = core.make(MODEL_VOS)
        proof = core.compile_props(PROPS)
    if not proof['ok']:
        r.broken_obligation('proof', proof['failed'] or 'Props/%s.v' % PROPS, proof['log'])
    elif not proof['axioms_ok']:
        r.broken_obligation('proof', 'Props/%s.v Print Assumptions: %s' % (PROPS, ', '.join(proof['axioms'])))
    cases = [gen_case(rng, i) for i in range(n)]
    obs, pairs = [], []
    nviol = [0]
    harness_errors = []

    def consider(c, o):
        seen = set()
        for sig, what in oracle(c, o):
            if sig in seen:
                continue
            seen.add(sig)
            nviol[0] += 1
            r.violation(sig, what, {'engine': ENGINE, 'case': c}, {'impl_observed': {'steps': o['steps'][:40]}})
    for c in cases:
        try:
            o = impl_run(c)
            consider(c, o)
            nm = _names(c)
            pairs.append((case_term(c, o, nm), G.zlist(expected(c, o, nm))))
        except Exception as exc:   # the harness can no longer drive the implementation: a broken tie
            import traceback
            harness_errors.append('%s: %s' % (type(exc).__name__, str(exc)[:200]))
            if len(harness_errors) == 1:
                r.broken_obligation('correspondence', 'C14 svcframe stage could not drive the framework (%s)'
                                    % harness_errors[0], traceback.format_exc())
            o = {'harness_error': harness_errors[-1], 'steps': []}
            pairs.append(None)
        obs.append(o)
    live = [(i, p) for i, p in enumerate(pairs) if p is not None]
    mism, err = [], None
    with core.build_lock():
        core.regen_tables()
        okm2, logm2 = core.make(MODEL_VOS)
        if not (okm and okm2):
            err = 'model does not build: ' + (logm2 if not okm2 else logm)[-1200:]
        elif live:
            mm, err = core.run_mismatches(PREAMBLE, RUN_FN, [p for _i, p in live], IN_TYPE, shard=150, timeout=600,
                                          tag='cases_svcframe')
            mism = [live[j][0] for j in mm]
            if mism:
                import json
                smallest = min(mism, key=lambda i: len(json.dumps(cases[i], default=str)))
                mo, _e = core.model_output(PREAMBLE, RUN_FN, pairs[smallest][0])
                r.broken_obligation('correspondence',
                                    'C14 svcframe: model vs real framework: %d of %d histories differ' % (len(mism), len(live)),
                                    json.dumps({'case': cases[smallest], 'impl_steps': obs[smallest]['steps'],
                                                'impl_flat': expected(cases[smallest], obs[smallest], _names(cases[smallest])),
                                                'model_flat': mo, 'term': pairs[smallest][0]}, default=str))
    if err:
        r.broken_obligation('correspondence', 'C14 svcframe: the model could not be evaluated', err)
    searched = 0
    mine_broken = (not proof['ok']) or (not proof['axioms_ok']) or err or mism or harness_errors \
        or any(sec in SECTIONS for sec, _m in terr)
    if mine_broken and not nviol[0]:       # search further for a failing input (implementation + oracle only)
        rng2 = random.Random(seed + 141416)
        t_end = time.time() + (15 if tier == 'quick' else 300)
        while time.time() < t_end and nviol[0] == 0 and searched < 5000:
            searched += 1
            c = gen_case(rng2, searched)
            try:
                consider(c, impl_run(c))
            except Exception:   # noqa
                continue
    okobs = [(c, o) for c, o in zip(cases, obs) if 'harness_error' not in o]
    cov = {
        'histories': len(cases), 'correspondence_cases': len(live), 'correspondence_mismatches': len(mism),
        'oracle_violations': nviol[0], 'extra_search_cases': searched, 'harness_errors': len(harness_errors),
        'distribution': _distribution([c for c, _o in okobs], [o for _c, o in okobs]),
        'theorems': proof['theorems'], 'proof_ok': bool(proof['ok'] and proof['axioms_ok']),
        'print_assumptions': ('all closed under the global context (%d)' % proof['closed_count']
                              if not proof['axioms'] else 'axioms: ' + ', '.join(proof['axioms'])),
        'checker_cmd': proof['cmd'], 'table_sections': list(SECTIONS),
        'source_sha256': core.source_hashes(ANCHORS), 'wall_s': round(time.time() - t0, 2),
        'rule': 'seeded (random.Random(seed+141415)): 2-5 containers on a /24, /28 or /29 pool; 4-16 steps: put 30% (8% of '
                'them with a payload the schema rejects), delete 10%, container directory vanishes 8%, get 12%, '
                'request.yml removed 5%, stray event (directory itself / dot file / lchown of a link) 7%, restart 16%, '
                'stop or start 12%; 90% of the histories begin with a start; steps between stop and start happen while '
                'no service runs; the directory order of each start is the one glob.glob returned',
    }
    return {'svcframe_stage': cov, 'svcframe_obligations': len(proof['theorems'])}


TRUSTED = [
    'Props/C14Frame.v: Coq 8.16.1 kernel; vm_compute for C14F_tables_ok, the witness and the Examples; Print '
    'Assumptions closed',
    'translator harness/tables_svcframe.py: REQ_FILE, REP_FILE, RSRC_DIR, ResourceServiceClient._REQ_UID_FILE read from '
    'the imported module (each bound once); shape of the client, _check_requests, _on_created, _on_deleted, '
    '_update_request and of the start-up statements of LinuxResourceService._run pinned by AST template; fail-closed',
    'hand-written model Node/SvcFrame.v, tied by differential execution of the real framework (c14frame.World) with a '
    'recording implementation subclass; the order of glob.glob at each start is an input of the model',
    'quiescent observation: a step is observed after four further loop iterations; steps of other processes in the '
    'middle of the start-up sequence or of a loop iteration are not modelled',
    'the harness removes the renamed request directories (bck<time>-<service>-<id>) after each client delete: a second '
    'delete of the same resource id within the same second would rename onto a non-empty directory (ENOTEMPTY)',
]
ASSUMPTIONS = [
    'request.yml is written by ResourceServiceClient.put (valid YAML); registration (symlink + rename) does not fail',
]


def replay_case(case):
    """case = the dict stored in a replay file ({'engine': 'E-node-svcframe', 'case': ...}) or the inner case"""
    c = case['case'] if isinstance(case, dict) and case.get('engine') == ENGINE else case
    _quiet()
    v = oracle(c, impl_run(c))
    return v[0] if v else None
