"""C15, "applications, cell allocations and partitions as LDAP entries": the per-class wrappers.

A STAGE of the C15 check (to be called from harness/props/c15.py), not a standalone check:

    cov.update(c15ldap.stage(r, seed, tier))

It ties Codec/LdapCls.v (the option-indexed list codec _to_obj_list / _group_entry_by_opt /
_grouped_to_list_of_dict and from_entry / to_entry of the nine LdapObject classes of admin/_ldap.py) to the source:
translator section c15_ldapcls (harness/tables_ldapcls.py), the theorems of Props/C15Ldap.v (recompiled here, Print
Assumptions parsed), differential execution of the REAL to_entry / _remove_empty / from_entry of every class
against the model (cases_ldapcls_*.v + vm_compute) on structured objects and on malformed entries, and the
statement as an oracle on the real results: from_entry(_remove_empty(to_entry(x))) equals the normal form of x
(re-stated in Python below, independently of the Coq text) and is stable under a second store + load."""
import copy
import json
import logging
import os
import random
import re
import subprocess
import sys
import time

from .. import core, gallina as G
from .. import tables_ldapcls as TL
from . import c15 as B

PID = 'C15'
PROPS = 'C15Ldap'
SECTIONS = ('c15_ldapcls',)
MODEL_VOS = ['Codec/LdapCls', 'Codec/LdapClsRun', 'Gen/Tables', 'Base/Flat']
PREAMBLE = ('From Coq Require Import ZArith List Bool.\nImport ListNotations.\n'
            'From TM Require Import Codec.BaseN Codec.Dec Codec.Json Codec.Ldap Codec.LdapCls Codec.LdapClsRun '
            'Gen.Tables Base.Flat.\nOpen Scope Z_scope.\n')
ANCHORS = ['lib/python/treadmill/admin/_ldap.py']
OUTSIDE = [-1]

E_VALUE, E_INDEX, E_ZERODIV, E_TYPE, E_OTHER, E_KEY = 1, 2, 3, 4, 5, 6
PLAIN = ['Server', 'DNS', 'AppGroup', 'Tenant', 'Allocation']
LISTED = ['Cell', 'CellAllocation', 'Partition']
CLS_ID = {'Server': 0, 'DNS': 1, 'AppGroup': 2, 'Tenant': 3, 'Allocation': 4, 'Cell': 5, 'CellAllocation': 6,
          'Partition': 7, 'Application': 8}


def errcode(e):
    if isinstance(e, ValueError):
        return E_VALUE
    if isinstance(e, IndexError):
        return E_INDEX
    if isinstance(e, KeyError):
        return E_KEY
    if isinstance(e, ZeroDivisionError):
        return E_ZERODIV
    if isinstance(e, (TypeError, AttributeError)):
        return E_TYPE
    return E_OTHER


def call(f, *a, **kw):
    try:
        return ['ok', f(*a, **kw)]
    except Exception as e:   # mapped to a small enum
        return ['err', errcode(e), '%s: %s' % (type(e).__name__, e)]


def _quiet():
    lg = logging.getLogger('treadmill.admin._ldap')
    state = [lg.disabled]
    lg.disabled = True
    return lg, state


def M():
    return B.mod('treadmill.admin._ldap')


# ------------------------------------------------------------------ names (from the translator, not typed here)
_FACTS = {}


# the names as of the commit this stage was written against: used ONLY when the translator itself fails (its failure is
# already a broken obligation), so that the oracle can still search for a failing input on the changed code
_FALLBACK = {"app_aff_field": "affinity_limits", "app_aff_key": "level", "app_aff_level": "level", "app_aff_limit": "limit",
             "app_aff_lprefix": "tm-affinity-", "app_aff_prefix": "tm-affinity", "app_env_field": "environ",
             "app_env_key": "name", "app_env_lprefix": "tm-envvar-", "app_env_prefix": "tm-envvar",
             "app_ep_field": "endpoints", "app_ep_key": "name", "app_ep_lprefix": "tm-endpoint-",
             "app_ep_prefix": "tm-endpoint", "app_eph": "ephemeral_ports", "app_eph_default": 0, "app_eph_tcp": "tcp",
             "app_eph_tcpf": "ephemeral_ports_tcp", "app_eph_udp": "udp", "app_eph_udpf": "ephemeral_ports_udp",
             "app_rst_interval": "interval", "app_rst_limit": "limit", "app_svc_field": "services", "app_svc_key": "name",
             "app_svc_lprefix": "tm-service-", "app_svc_prefix": "tm-service", "app_svc_restart": "restart",
             "app_vr_cells": "cells", "app_vr_field": "vring", "app_vr_key": "pattern", "app_vr_lprefix": "tm-vring-rule-",
             "app_vr_prefix": "tm-vring-rule", "app_vr_rules": "rules", "ca_d1_field": "cpu", "ca_d1_value": "0%",
             "ca_d2_field": "memory", "ca_d2_value": "0G", "ca_d3_field": "disk", "ca_d3_value": "0G",
             "ca_field": "assignments", "ca_key": "pattern", "ca_lprefix": "tm-alloc-assignment-",
             "ca_maxutil": "max_utilization", "ca_partition": "partition", "ca_prefix": "tm-alloc-assignment",
             "cell_field": "masters", "cell_idx": "idx", "cell_lprefix": "tm-master-", "cell_prefix": "tm-master",
             "default_partition": "_default", "default_restart": {"interval": 60, "limit": 5},
             "opt_format": "{attribute};{option_prefix}-{option_idx:x}", "opt_sep": ";", "pt_d1_field": "cpu",
             "pt_d1_value": "0%", "pt_d2_field": "memory", "pt_d2_value": "0G", "pt_d3_field": "disk", "pt_d3_value": "0G",
             "pt_field": "limits", "pt_key": "trait", "pt_lprefix": "tm-alloc-limit-", "pt_prefix": "tm-alloc-limit",
             "srv_partition": "partition", "ts_create": "createTimestamp", "ts_modify": "modifyTimestamp"}


def facts():
    if not _FACTS:
        try:
            f = TL.facts()
            _FACTS.update(f['roles'])
            _FACTS['default_partition'] = f['default_partition']
            _FACTS['default_restart'] = dict(f['default_restart'])
        except Exception:   # the translator no longer recognises the source (reported by the stage): search with the old names
            _FACTS.update(_FALLBACK)
            _FACTS['translator_failed'] = True
    return _FACTS


def list_field(cls):
    return facts()[{'Cell': 'cell_field', 'CellAllocation': 'ca_field', 'Partition': 'pt_field'}[cls]]


def item_schema(cls):
    m = M()
    return {'Cell': m.Cell._master_host_schema, 'CellAllocation': m.CellAllocation._assign_schema,
            'Partition': m.Partition._limit_schema}[cls]


def list_prefix(cls):
    return facts()[{'Cell': 'cell_prefix', 'CellAllocation': 'ca_prefix', 'Partition': 'pt_prefix'}[cls]]


def list_key(cls):
    return facts()[{'Cell': 'cell_idx', 'CellAllocation': 'ca_key', 'Partition': 'pt_key'}[cls]]


def app_lists():
    """(object key, sort key, prefix, item schema) of the Application lists handled by _to_obj_list"""
    f, a = facts(), M().Application
    return {'endpoints': (f['app_ep_field'], f['app_ep_key'], f['app_ep_prefix'], a._endpoint_schema),
            'environ': (f['app_env_field'], f['app_env_key'], f['app_env_prefix'], a._environ_schema)}


def tcode(t):
    return B._tcode(t)


# ------------------------------------------------------------------ generators
STRS = ['', 'x', 'web', 'sshd', 'a.b', 'z', 'A', 'a', 'ab', 'a;b', 'tm-x', '10', '9', '10%', '2G', 'proid.app*',
        'native:foo', 'a b', 'TRUE', 'false', '0', 'http', 'ssh', 'tcp', 'udp', 'infra', 'rack', 'pod', 'server', '-',
        'Z', '_default', 'p1', 'c1', 'c2', '0.5', '1']
NAMES = ['web', 'sshd', 'a.b', 'z', 'A', 'a', 'ab', 'http', 'ssh', 'x', '', '10', '9', 'proid.a*', 'proid.b*', 'rack',
         'pod', 'server', 'ssd', 'gpu', 'B', 'b', 'a-b', 'a_b', 'aa', 'PATH', 'HOME']


def rstr(rng):
    if rng.random() < 0.7:
        return rng.choice(STRS)
    return B.rand_str(rng, B.NAMECH + 'AZ %*:', 0, 8)


def gen_val(rng, code, none_p=0.1, coerce_p=0.1):
    """a value of the row's type (None and the coerced int-in-a-str-field included)"""
    r = rng.random()
    if r < none_p:
        return {'n': None}
    if code == 's':
        if rng.random() < coerce_p:
            return {'i': rng.choice([0, 1, -1, 80, rng.randint(-5, 10 ** 6)])}
        return {'s': rstr(rng)}
    if code == 'i':
        return {'i': rng.choice([0, 1, -1, 5, 60, 8080, 2 ** 40, rng.randint(-100, 10 ** 5)])}
    if code == 'b':
        return {'b': rng.random() < 0.5}
    if code == 'ls':
        return {'ls': [rstr(rng) for _ in range(rng.randint(0, 3))]}
    if code == 'li':
        n = rng.randint(0, 3)
        return {'ls': []} if n == 0 else {'li': [rng.randint(-3, 300) for _ in range(n)]}
    return {'d': gen_json_dict(rng, 2)}


def gen_json(rng, depth):
    """an ASCII-only JSON value (the data dict of Server / Cell / Partition)"""
    r = rng.random()
    if depth == 0 or r < 0.55:
        return rng.choice([None, True, False, 0, 1, -7, 2 ** 40, '', 'x', 'a b', 'q"uote', 'back\\slash', 'tab\t', '10%'])
    if r < 0.75:
        return [gen_json(rng, depth - 1) for _ in range(rng.randint(0, 3))]
    return gen_json_dict(rng, depth - 1)


def gen_json_dict(rng, depth):
    return {k: gen_json(rng, depth) for k in rng.sample(['b', 'a', 'k', 'zz', 'A', 'a.b', ''], rng.randint(0, 3))}


def gen_odd_val(rng):
    """a value of an arbitrary type (mostly not the row's)"""
    return rng.choice([{'s': 'abc'}, {'s': '12'}, {'i': 7}, {'b': True}, {'ls': ['a']}, {'li': [1]}, {'n': None},
                       {'d': {'k': 1}}, {'ls': []}])


def gen_fields(rng, sch, p_present=0.65, odd=False, none_p=0.1):
    o, seen = [], set()
    for _a, f, t in sch:
        if f is None or f in seen or rng.random() > p_present:
            continue
        seen.add(f)
        o.append([f, gen_odd_val(rng) if (odd and rng.random() < 0.3) else gen_val(rng, tcode(t), none_p)])
    if rng.random() < 0.1:
        o.append(['not_in_schema', {'s': 'x'}])
    rng.shuffle(o)
    return o


def list_len(rng):
    r = rng.random()
    if r < 0.2:
        return 0
    if r < 0.96:
        return rng.randint(1, 4)
    return rng.randint(11, 18)            # option indices a, b, .. 10, 11 (hexadecimal)


def gen_items(rng, sch, key, odd=False, distinct=None, p_absent=0.15, none_p=0.08):
    """None (key absent) or a list of item dicts; the sort key is a string (names may repeat unless distinct)"""
    if rng.random() < p_absent:
        return None
    n = list_len(rng)
    distinct = (rng.random() < 0.8) if distinct is None else distinct
    names = rng.sample(NAMES, min(n, len(NAMES))) if distinct else [rng.choice(NAMES[:8]) for _ in range(n)]
    while len(names) < n:
        names.append('n%d' % len(names))
    items = []
    for nm in names:
        it = [kv for kv in gen_fields(rng, sch, 0.7, odd, none_p) if kv[0] != key and kv[0] != 'not_in_schema']
        if odd and rng.random() < 0.15:
            pass                                            # no key: KeyError in sorted()
        elif odd and rng.random() < 0.15:
            it.append([key, gen_odd_val(rng)])
        else:
            it.append([key, {'s': nm}])
        rng.shuffle(it)
        items.append(it)
    return items


def gen_plain(rng, cls, odd):
    sch = getattr(M(), cls).schema()
    return {'kind': 'plain', 'cls': cls, 'obj': gen_fields(rng, sch, rng.choice([0.3, 0.65, 0.95]), odd)}


def gen_list(rng, cls, odd):
    m = M()
    base = gen_fields(rng, getattr(m, cls)._schema, rng.choice([0.3, 0.65, 0.95]), odd)
    mu = facts()['ca_maxutil']
    if cls == 'CellAllocation' and not odd:
        base = [kv for kv in base if kv[0] != mu or rng.random() < 0.15]
    isch, key = item_schema(cls), list_key(cls)
    if cls != 'Cell':
        return {'kind': 'list', 'cls': cls, 'obj': {'base': base, 'items': gen_items(rng, isch, key, odd)}}
    # Cell: the key is the int idx of each master
    if rng.random() < 0.15:
        items = None
    else:
        n = list_len(rng)
        pool = [0, 1, 2, 3, 9, 10, 11, 15, 16, 17, 255, 256, 4095, -1, -10, 2 ** 40] + list(range(20, 40))
        idxs = rng.sample(pool, n) if (rng.random() < 0.85 or n > 8) else [rng.choice(pool[:4]) for _ in range(n)]
        items = []
        for z in idxs:
            it = [kv for kv in gen_fields(rng, isch, 0.7, odd, 0.05) if kv[0] != key and kv[0] != 'not_in_schema']
            if odd and rng.random() < 0.15:
                pass
            elif odd and rng.random() < 0.2:
                it.append([key, rng.choice([{'s': '1'}, {'n': None}, {'b': True}, {'ls': []}])])
            else:
                it.append([key, {'i': z}])
            rng.shuffle(it)
            items.append(it)
    return {'kind': 'list', 'cls': cls, 'obj': {'base': base, 'items': items}}


def gen_app(rng, odd):
    f, a = facts(), M().Application
    o = {'base': gen_fields(rng, a._schema, rng.choice([0.2, 0.5, 0.9]), odd)}
    if rng.random() < 0.85 and not odd:
        o['base'] = [kv for kv in o['base'] if kv[0] not in (f['app_eph_tcpf'], f['app_eph_udpf'])]
    # ephemeral_ports
    if rng.random() < 0.5:
        o['eph'] = None
    else:
        o['eph'] = [[k, gen_odd_val(rng) if (odd and rng.random() < 0.3) else gen_val(rng, 'i', 0.1)]
                    for k in rng.sample([f['app_eph_tcp'], f['app_eph_udp'], 'sctp'], rng.randint(0, 3)) if k != 'sctp' or odd]
    # services
    svcs = gen_items(rng, a._svc_schema, f['app_svc_key'], odd, distinct=None if odd or rng.random() < 0.1 else True)
    if svcs is None:
        o['services'] = None
    else:
        out = []
        for it in svcs:
            r = rng.random()
            if r < 0.4:
                rst = None
            else:
                keys = rng.sample([f['app_rst_limit'], f['app_rst_interval']], rng.randint(0, 2))
                rst = [[k, {'i': rng.choice([0, 1, 3, 5, 30, 60, 600])}] for k in keys]
                if odd and rng.random() < 0.3:
                    rst.append([rng.choice([f['app_svc_key'], f['app_rst_limit'], 'zz']), gen_odd_val(rng)])
            out.append({'fields': it, 'restart': rst})
        o['services'] = out
    o['endpoints'] = gen_items(rng, a._endpoint_schema, f['app_ep_key'], odd)
    o['environ'] = gen_items(rng, a._environ_schema, f['app_env_key'], odd)
    if rng.random() < 0.45:
        o['affinity'] = None
    else:
        ks = rng.sample(['server', 'rack', 'pod', 'cell', '', 'a;b'], rng.randint(0, 4))
        o['affinity'] = [[k, gen_odd_val(rng) if (odd and rng.random() < 0.3) else {'i': rng.choice([0, 1, 2, 5, -1])}]
                         for k in ks]
    r = rng.random()
    if r < 0.45:
        o['vring'] = None
    else:
        cells = None if rng.random() < 0.2 else \
            (gen_odd_val(rng) if (odd and rng.random() < 0.3) else gen_val(rng, 'ls', 0.1))
        o['vring'] = {'cells': cells,
                      'rules': gen_items(rng, a._vring_rule_schema, f['app_vr_key'], odd, p_absent=0.25)}
    return {'kind': 'app', 'cls': 'Application', 'obj': o}


# ---- edge probes: the places where the round trip is known to lose something (outside the theorems' domain)
def gen_edge(rng):
    f = facts()
    k = rng.randrange(7)
    nm, lim, itv = f['app_svc_key'], f['app_rst_limit'], f['app_rst_interval']
    blank = {'base': [], 'eph': None, 'services': None, 'endpoints': None, 'environ': None, 'affinity': None,
             'vring': None}
    if k == 0:      # two services of one name with different restart settings
        n = rng.choice(['web', 'a'])
        o = dict(blank, services=[{'fields': [[nm, {'s': n}], ['command', {'s': 'x'}]], 'restart': [[lim, {'i': 1}]]},
                                  {'fields': [[nm, {'s': n}], ['command', {'s': 'y'}]], 'restart': [[lim, {'i': 2}]]}])
        return {'kind': 'app', 'cls': 'Application', 'obj': o, 'edge': 'dup-service-name'}
    if k == 1:      # a restart limit of None
        o = dict(blank, services=[{'fields': [[nm, {'s': 'web'}]], 'restart': [[rng.choice([lim, itv]), {'n': None}]]}])
        return {'kind': 'app', 'cls': 'Application', 'obj': o, 'edge': 'restart-none'}
    if k == 2:      # an affinity limit of None
        o = dict(blank, affinity=[['rack', {'n': None}], ['pod', {'i': 1}]])
        return {'kind': 'app', 'cls': 'Application', 'obj': o, 'edge': 'affinity-none'}
    if k == 3:      # a restart dict carrying a name
        o = dict(blank, services=[{'fields': [[nm, {'s': 'web'}]], 'restart': [[nm, {'s': 'other'}], [lim, {'i': 2}]]}])
        return {'kind': 'app', 'cls': 'Application', 'obj': o, 'edge': 'restart-name'}
    if k == 4:      # an empty vring
        o = dict(blank, vring={'cells': rng.choice([None, {'ls': []}]), 'rules': rng.choice([None, []])})
        return {'kind': 'app', 'cls': 'Application', 'obj': o, 'edge': 'vring-empty'}
    if k == 5:      # two masters with one idx
        key = f['cell_idx']
        items = [[[key, {'i': 1}], ['hostname', {'s': 'h1'}], ['zk-client-port', {'i': 2181}]],
                 [[key, {'i': 1}], ['hostname', {'s': 'h2'}]]]
        return {'kind': 'list', 'cls': 'Cell', 'obj': {'base': [], 'items': items}, 'edge': 'dup-master-idx'}
    # max_utilization as text
    return {'kind': 'list', 'cls': 'CellAllocation',
            'obj': {'base': [[f['ca_maxutil'], {'s': rng.choice(['1', '0.5', '1.50', '10'])}]], 'items': None},
            'edge': 'max-utilization-text'}


# ------------------------------------------------------------------ Python objects <-> cases
def py(tv):
    (k, v), = tv.items()
    return copy.deepcopy(v)


def pyd(kvs):
    return {k: py(tv) for k, tv in kvs}


def py_obj(case):
    """the dict handed to to_entry"""
    f = facts()
    c = case['obj']
    if case['kind'] == 'plain':
        return pyd(c)
    if case['kind'] == 'list':
        o = pyd(c['base'])
        if c['items'] is not None:
            o[list_field(case['cls'])] = [pyd(it) for it in c['items']]
        return o
    o = pyd(c['base'])
    if c['eph'] is not None:
        o[f['app_eph']] = pyd(c['eph'])
    if c['services'] is not None:
        o[f['app_svc_field']] = [dict(pyd(s['fields']), **({f['app_svc_restart']: pyd(s['restart'])}
                                                           if s['restart'] is not None else {}))
                                 for s in c['services']]
    if c['endpoints'] is not None:
        o[f['app_ep_field']] = [pyd(it) for it in c['endpoints']]
    if c['environ'] is not None:
        o[f['app_env_field']] = [pyd(it) for it in c['environ']]
    if c['affinity'] is not None:
        o[f['app_aff_field']] = pyd(c['affinity'])
    if c['vring'] is not None:
        v = {}
        if c['vring']['cells'] is not None:
            v[f['app_vr_cells']] = py(c['vring']['cells'])
        if c['vring']['rules'] is not None:
            v[f['app_vr_rules']] = [pyd(it) for it in c['vring']['rules']]
        o[f['app_vr_field']] = v
    return o


def py_entry(e):
    return {k: list(vs) for k, vs in e}


def inst(cls):
    return getattr(M(), cls)(None)


def tag_entry(e):
    return [[k, [x if isinstance(x, (str, bool)) else {'other': repr(x)} for x in vs]] for k, vs in e.items()]


def impl_run(case):
    """every result is ['ok', jsonable] or ['err', code, text]"""
    m = M()
    i = inst(case['cls'])
    if case['kind'] in ('plain', 'list', 'app'):
        te = call(i.to_entry, py_obj(case))
        if te[0] != 'ok':
            return {'to_entry': te}
        out = {'to_entry': ['ok', tag_entry(te[1])]}
        stored = m._remove_empty(te[1])
        sl = call(i.from_entry, copy.deepcopy(stored))
        out['store_load'] = ['ok', jsonable(sl[1])] if sl[0] == 'ok' else sl
        out['stored'] = tag_entry(stored)
        d = call(i.from_entry, copy.deepcopy(te[1]))
        out['direct'] = ['ok', jsonable(d[1])] if d[0] == 'ok' else d
        if sl[0] == 'ok':       # a second and a third store + load (stability)
            def again(o):
                return i.from_entry(m._remove_empty(i.to_entry(copy.deepcopy(o))))
            t2 = call(again, sl[1])
            out['twice'] = ['ok', jsonable(t2[1])] if t2[0] == 'ok' else t2
            if t2[0] == 'ok':
                t3 = call(again, t2[1])
                out['thrice'] = ['ok', jsonable(t3[1])] if t3[0] == 'ok' else t3
        return out
    e = py_entry(case['entry'])
    d = call(i.from_entry, copy.deepcopy(e))
    return {'dec': ['ok', jsonable(d[1])] if d[0] == 'ok' else d}


def jsonable(v):
    """floats are kept as {'__float__': repr} (never compared as floats)"""
    if isinstance(v, float):
        return {'__float__': repr(v)}
    if isinstance(v, dict):
        return {k: jsonable(x) for k, x in v.items()}
    if isinstance(v, (list, tuple)):
        return [jsonable(x) for x in v]
    return v


# ------------------------------------------------------------------ flattening (as Codec/LdapClsRun.v)
class Unflat(Exception):
    pass


def fstr(s):
    if not isinstance(s, str) or any(ord(c) > 127 for c in s):
        raise Unflat('str %r' % (s,))
    return [len(s)] + [ord(c) for c in s]


def f_value(v):
    if v is None:
        return [0]
    if isinstance(v, bool):
        return [1, 1 if v else 0]
    if isinstance(v, int):
        return [2, v]
    if isinstance(v, str):
        return [3] + fstr(v)
    if isinstance(v, list):
        return [4, len(v)] + [y for x in v for y in f_value(x)]
    if isinstance(v, dict) and '__float__' not in v:
        return [5, len(v)] + [y for k, x in v.items() for y in fstr(k) + f_value(x)]
    raise Unflat('value %r' % (v,))


def f_fval(v, ftype=None, text=None):
    """a decoded Python value as Codec/LdapClsRun.ffval; a float must be float(text) of the stored text"""
    if v is None:
        return [0]
    if isinstance(v, bool):
        return [3, 1 if v else 0]
    if isinstance(v, int):
        return [2, v]
    if isinstance(v, str):
        return [1] + fstr(v)
    if isinstance(v, list):
        out = [4, len(v)]
        for x in v:
            if isinstance(x, str):
                out += [1] + fstr(x)
            elif isinstance(x, int) and not isinstance(x, bool):
                out += [2, x]
            else:
                raise Unflat('list element %r' % (x,))
        return out
    if isinstance(v, dict) and '__float__' in v:
        if text is None or not re.fullmatch(r'[0-9]+(\.[0-9]+)?', text) or repr(float(text)) != v['__float__']:
            raise Unflat('float %r of text %r' % (v, text))
        return [1] + fstr(text)
    if isinstance(v, dict):
        return [5] + f_value(v)
    raise Unflat('fval %r' % (v,))


def f_obj(d, texts=None):
    ks = sorted(d)
    out = [len(ks)]
    for k in ks:
        out += fstr(k) + f_fval(d[k], text=(texts or {}).get(k))
    return out


def f_entry(te):
    ks = sorted(te, key=lambda kv: kv[0])
    out = [len(ks)]
    for k, vs in ks:
        out += fstr(k) + [len(vs)]
        for x in vs:
            if isinstance(x, bool):
                out += [3, 1 if x else 0]
            elif isinstance(x, str):
                out += [1] + fstr(x)
            else:
                raise Unflat('entry value %r' % (x,))
    return out


def f_opt(f, x):
    return [0] if x is None else [1] + f(x)


def f_list(f, l):
    if not isinstance(l, list):
        raise Unflat('not a list: %r' % (l,))
    return [len(l)] + [y for x in l for y in f(x)]


def f_dict(d):
    if not isinstance(d, dict) or '__float__' in d:
        raise Unflat('not a dict: %r' % (d,))
    return f_obj(d)


def f_result(cls, res, entry):
    """a from_entry result (jsonable dict) as flobj / fapp / fobj; entry = the entry it was read from (tagged)"""
    f = facts()
    d = dict(res)
    for _a, fl, t in getattr(M(), cls).schema():     # json.loads of a stored non-dict text: outside the model
        if t is dict and fl in d and not (isinstance(d[fl], dict) and '__float__' not in d[fl]):
            raise Unflat('dict field %s holds %r' % (fl, d[fl]))
    if cls in PLAIN:
        return f_obj(d)
    if cls in LISTED:
        items = d.pop(list_field(cls), None)
        texts = {}
        if cls == 'CellAllocation':
            attr = [a for a, fl, _t in M().CellAllocation._schema if fl == f['ca_maxutil']]
            vals = dict((k, vs) for k, vs in entry).get(attr[0]) if attr else None
            if vals and isinstance(vals[0], str):
                texts[f['ca_maxutil']] = vals[0]
        return f_obj(d, texts) + f_opt(lambda l: f_list(f_dict, l), items)
    eph = d.pop(f['app_eph'], None)
    svcs = d.pop(f['app_svc_field'], None)
    eps = d.pop(f['app_ep_field'], None)
    envs = d.pop(f['app_env_field'], None)
    aff = d.pop(f['app_aff_field'], None)
    vr = d.pop(f['app_vr_field'], None)

    def f_svc(s):
        s = dict(s)
        rst = s.pop(f['app_svc_restart'], None)
        return f_dict(s) + f_opt(f_dict, rst)

    def f_vring(v):
        v = dict(v)
        cells = v.pop(f['app_vr_cells'], None)
        rules = v.pop(f['app_vr_rules'], None)
        if v:
            raise Unflat('vring keys %r' % (sorted(v),))
        return f_opt(f_fval, cells) + f_opt(lambda l: f_list(f_dict, l), rules)
    return (f_obj(d) + f_opt(f_dict, eph) + f_opt(lambda l: f_list(f_svc, l), svcs)
            + f_opt(lambda l: f_list(f_dict, l), eps) + f_opt(lambda l: f_list(f_dict, l), envs)
            + f_opt(f_dict, aff) + f_opt(f_vring, vr))


def f_res(r, f):
    return [0] + f(r[1]) if r[0] == 'ok' else [r[1]]


def expected(case, o):
    """the implementation's observables flattened like LdapClsRun.run_case; None = not expressible"""
    try:
        cls = case['cls']
        if 'dec' in o:
            return f_res(o['dec'], lambda x: f_result(cls, x, case['entry']))
        if o['to_entry'][0] != 'ok':
            c = o['to_entry'][1]
            return [c, c, c]
        te = o['to_entry'][1]
        return ([0] + f_entry(te) + f_res(o['store_load'], lambda x: f_result(cls, x, o['stored']))
                + f_res(o['direct'], lambda x: f_result(cls, x, te)))
    except Unflat:
        return None


# ------------------------------------------------------------------ Gallina terms
def t_obj(kvs):
    return B.t_obj(kvs)


def t_items(items):
    return G.opt(items, lambda l: G.lst([t_obj(it) for it in l]))


def case_term(case):
    k = case['kind']
    if k == 'plain':
        return '(LPlain %s %s)' % (G.z(CLS_ID[case['cls']]), t_obj(case['obj']))
    if k == 'plain_dec':
        return '(LPlainDec %s %s)' % (G.z(CLS_ID[case['cls']]), B.t_entry(case['entry']))
    if k == 'list':
        c = case['obj']
        return '(LList %s {| lo_base := %s; lo_items := %s |})' % (G.z(CLS_ID[case['cls']]), t_obj(c['base']),
                                                                   t_items(c['items']))
    if k == 'list_dec':
        return '(LListDec %s %s)' % (G.z(CLS_ID[case['cls']]), B.t_entry(case['entry']))
    if k == 'app_dec':
        return '(LAppDec %s)' % B.t_entry(case['entry'])
    c = case['obj']
    svcs = G.opt(c['services'], lambda l: G.lst(['{| sv_fields := %s; sv_restart := %s |}'
                                                 % (t_obj(s['fields']), G.opt(s['restart'], t_obj)) for s in l]))
    vr = G.opt(c['vring'], lambda v: '{| vr_cells := %s; vr_rules := %s |}'
               % (G.opt(v['cells'], B.t_fval), t_items(v['rules'])))
    return ('(LApp {| ap_base := %s; ap_eph := %s; ap_services := %s; ap_endpoints := %s; ap_environ := %s; '
            'ap_affinity := %s; ap_vring := %s |})'
            % (t_obj(c['base']), G.opt(c['eph'], t_obj), svcs, t_items(c['endpoints']), t_items(c['environ']),
               G.opt(c['affinity'], t_obj), vr))


# ------------------------------------------------------------------ the malformed stream: perturbed entries
def gen_dec(rng, base_case):
    """an entry for from_entry: the real to_entry of a structured object, then perturbed"""
    cls = base_case['cls']
    lg, st = _quiet()
    try:
        te = call(inst(cls).to_entry, py_obj(base_case))
    finally:
        lg.disabled = st[0]
    e = {}
    if te[0] == 'ok' and all(isinstance(x, (str, bool)) for vs in te[1].values() for x in vs):
        e = te[1]
        if rng.random() < 0.7:
            e = M()._remove_empty(e)
    e = [[k, list(vs)] for k, vs in e.items()]
    optkeys = [i for i, (k, _v) in enumerate(e) if ';' in k]
    muts = []
    for _ in range(rng.choice([0, 1, 1, 2, 3])):
        kind = rng.choice(['reindex', 'dup', 'unknown', 'drop', 'three', 'odd-key', 'foreign', 'value', 'ts', 'plain',
                           'drop-plain', 'bool'])
        if kind in ('reindex', 'dup', 'unknown', 'drop', 'three', 'foreign') and not optkeys:
            continue
        keys = {k for k, _v in e}
        if kind == 'reindex':       # a gap / a non-canonical index: the whole group moves
            opt = e[rng.choice(optkeys)][0].split(';', 1)[1]
            if '-' not in opt:
                continue
            new = opt.rsplit('-', 1)[0] + '-' + rng.choice(['7', 'a', 'ff', '00', '01', 'x', '', '10', '-1', '1f'])
            if any(k.endswith(';' + new) for k in keys):
                continue
            e = [[k[:-len(opt)] + new if k.endswith(';' + opt) else k, vs] for k, vs in e]
        elif kind == 'dup':         # one group twice (a duplicated item under a second index)
            opt = e[rng.choice(optkeys)][0].split(';', 1)[1]
            new = opt.rsplit('-', 1)[0] + '-' + rng.choice(['9', 'b', '20', 'zz'])
            if any(k.endswith(';' + new) for k in keys):
                continue
            e = e + [[k[:-len(opt)] + new, list(vs)] for k, vs in e if k.endswith(';' + opt)]
        elif kind == 'unknown':     # an option that no list of the class uses
            i = rng.choice(optkeys)
            a, opt = e[i][0].split(';', 1)
            new = rng.choice(['tm-foo-0', 'TM-' + opt[3:], opt.replace('-', 'x', 1), 'x' + opt, opt.rsplit('-', 1)[0], ''])
            if a + ';' + new not in keys:
                e[i][0] = a + ';' + new
        elif kind == 'drop':        # a group loses one attribute
            del e[rng.choice(optkeys)]
        elif kind == 'three':       # a key with two ';'
            k = e[rng.choice(optkeys)][0]
            nk = rng.choice([k + ';x', k + ';', 'zz;' + k.split(';', 1)[1] + ';y'])
            if nk not in keys:
                e.append([nk, ['v']])
        elif kind == 'odd-key':
            nk = rng.choice([';', 'x;', ';tm-service-0', 'a;b', 'endpoint-name;', 'x;tm-endpoint-'])
            if nk not in keys:
                e.append([nk, [rng.choice(['v', '1'])]])
        elif kind == 'foreign':     # an attribute the item schema does not know, under a known option
            opt = e[rng.choice(optkeys)][0].split(';', 1)[1]
            nk = rng.choice(['foo', 'cpu', 'service-name', 'endpoint-name', 'pattern']) + ';' + opt
            if nk not in keys:
                e.append([nk, [rng.choice(['v', '1'])]])
        elif kind == 'value' and e:  # values: several, none, not a number
            i = rng.randrange(len(e))
            e[i][1] = rng.choice([[], ['1', '2'], ['x'], ['12'], [' 7 '], ['-3'], ['1_0'], ['True'], ['false'], ['']])
        elif kind == 'bool' and e:   # a Python bool as a value (what _dict_2_entry stores for bool fields)
            i = rng.randrange(len(e))
            opt = e[i][0].split(';', 1)[1] if ';' in e[i][0] else None
            pre = opt.rsplit('-', 1)[0] + '-' if opt and '-' in opt else None
            ngroups = len({k.split(';', 1)[1] for k, _v in e if ';' in k and pre and k.split(';', 1)[1].startswith(pre)})
            if opt is None or ngroups <= 2:      # with three or more items sorted() need not compare the odd pair
                e[i][1] = [rng.random() < 0.5]
        elif kind == 'ts':
            nk = rng.choice([facts()['ts_create'], facts()['ts_modify'], 'createtimestamp'])
            if nk not in keys:
                e.append([nk, rng.choice([[], ['20200101000000Z']])])
        elif kind == 'plain':
            sch = getattr(M(), cls).schema()
            a = rng.choice(sch)[0]
            if a not in keys:
                e.append([a, [rng.choice(['v', '1', '0', 'true'])]])
        elif kind == 'drop-plain' and e:
            plain = [i for i, (k, _v) in enumerate(e) if ';' not in k]
            if plain:
                del e[rng.choice(plain)]
        else:
            continue
        muts.append(kind)
        optkeys = [i for i, (k, _v) in enumerate(e) if ';' in k]
    if rng.random() < 0.3:
        rng.shuffle(e)
    kind = {'plain': 'plain_dec', 'list': 'list_dec', 'app': 'app_dec'}[base_case['kind']]
    return {'kind': kind, 'cls': cls, 'entry': e, 'mutations': muts}


def gen_obj_case(rng):
    r = rng.random()
    odd = rng.random() < 0.12
    if r < 0.22:
        return gen_plain(rng, rng.choice(PLAIN), odd)
    if r < 0.55:
        return gen_list(rng, rng.choice(LISTED), odd)
    if r < 0.97:
        return gen_app(rng, odd)
    return gen_edge(rng)


def gen_cases(rng, n):
    cases = [gen_edge(random.Random(i)) for i in range(14)]
    while len(cases) < n:
        c = gen_obj_case(rng)
        if rng.random() < 0.3:
            c = gen_dec(rng, c)
        cases.append(c)
    return cases[:max(n, 14)]


# ------------------------------------------------------------------ the statement, in Python (the oracle)
def nf_field(code, present, v):
    """(present', value') of one schema row after store + load"""
    if not present or v is None:
        return (True, []) if code in ('ls', 'li') else (False, None)
    if code == 's':
        return True, (str(v) if isinstance(v, int) and not isinstance(v, bool) else v)
    return True, v


def typed_field(code, v):
    if v is None:
        return True
    if code == 's':
        return isinstance(v, str) or (isinstance(v, int) and not isinstance(v, bool))
    if code == 'i':
        return isinstance(v, int) and not isinstance(v, bool)
    if code == 'b':
        return isinstance(v, bool)
    if code == 'ls':
        return isinstance(v, list) and all(isinstance(x, str) for x in v)
    if code == 'li':
        return isinstance(v, list) and all(isinstance(x, int) and not isinstance(x, bool) for x in v)
    return isinstance(v, dict) and B._chars_ok(v) and _json_clean(v)


def _json_clean(v):
    if isinstance(v, dict):
        return all(isinstance(k, str) and _json_clean(x) for k, x in v.items())
    if isinstance(v, list):
        return all(_json_clean(x) for x in v)
    return v is None or isinstance(v, (bool, int, str))


def rows(sch):
    seen, out = set(), []
    for _a, f, t in sch:
        if f is not None and f not in seen:
            seen.add(f)
            out.append((f, tcode(t)))
    return out


def typed_obj(sch, d):
    return isinstance(d, dict) and all(typed_field(c, d[f]) for f, c in rows(sch) if f in d)


def nf_base(sch, d):
    out = {}
    for f, c in rows(sch):
        p, v = nf_field(c, f in d, d.get(f))
        if p:
            out[f] = copy.deepcopy(v)
    return out


def nf_items(sch, items):
    return sorted([nf_base(sch, x) for x in (items or [])], key=lambda x: sorted(x.items()))


def typed_items(sch, key, items):
    return all(typed_obj(sch, x) and isinstance(x.get(key), str) for x in (items or []))


def py_typed(case):
    """the domain of the round-trip theorems (Codec/LdapCls.v *_typed), re-stated on the Python object"""
    f, m = facts(), M()
    cls, o = case['cls'], py_obj(case)
    if case['kind'] == 'plain':
        return typed_obj(getattr(m, cls).schema(), o)
    if case['kind'] == 'list':
        sch, isch, key = getattr(m, cls).schema(), item_schema(cls), list_key(cls)
        items = o.get(list_field(cls)) or []
        if not typed_obj(sch, o):
            return False
        if cls == 'Cell':
            idx = [x.get(key) for x in items]
            return all(typed_obj(isch, x) for x in items) and \
                all(isinstance(z, int) and not isinstance(z, bool) for z in idx) and len(set(idx)) == len(idx)
        if cls == 'CellAllocation' and o.get(f['ca_maxutil']) is not None:
            return False
        return typed_items(isch, key, items)
    a = m.Application
    c = case['obj']
    base = dict(o)
    if c['eph'] is not None:
        eph = o[f['app_eph']]
        if not all(eph.get(k) is None or (isinstance(eph[k], int) and not isinstance(eph[k], bool))
                   for k in (f['app_eph_tcp'], f['app_eph_udp'])):
            return False
        base[f['app_eph_tcpf']] = base[f['app_eph_udpf']] = 0
    if not typed_obj(a._schema, base):
        return False
    svcs = o.get(f['app_svc_field']) or []
    if not typed_items(a._svc_schema, f['app_svc_key'], svcs):
        return False
    names = [s[f['app_svc_key']] for s in svcs]
    if len(set(names)) != len(names):
        return False
    for s in svcs:
        rst = s.get(f['app_svc_restart'])
        if rst is not None and not all(k in (f['app_rst_limit'], f['app_rst_interval']) and isinstance(v, int)
                                       and not isinstance(v, bool) for k, v in rst.items()):
            return False
    if not typed_items(a._endpoint_schema, f['app_ep_key'], o.get(f['app_ep_field'])):
        return False
    if not typed_items(a._environ_schema, f['app_env_key'], o.get(f['app_env_field'])):
        return False
    if not all(isinstance(v, int) and not isinstance(v, bool) for v in (o.get(f['app_aff_field']) or {}).values()):
        return False
    vr = o.get(f['app_vr_field'])
    if vr is not None:
        cells = vr.get(f['app_vr_cells'])
        if not (cells is None or (isinstance(cells, list) and all(isinstance(x, str) for x in cells))):
            return False
        if not typed_items(a._vring_rule_schema, f['app_vr_key'], vr.get(f['app_vr_rules'])):
            return False
    return True


def py_nf(case):
    """what from_entry(_remove_empty(to_entry(x))) must return for a typed x"""
    f, m = facts(), M()
    cls, o = case['cls'], py_obj(case)
    if case['kind'] == 'plain':
        out = nf_base(getattr(m, cls).schema(), o)
        if cls == 'Server':
            out.setdefault(f['srv_partition'], f['default_partition'])
        return out
    if case['kind'] == 'list':
        out = nf_base(getattr(m, cls).schema(), o)
        out[list_field(cls)] = nf_items(item_schema(cls), o.get(list_field(cls)))
        pre = {'CellAllocation': 'ca', 'Partition': 'pt'}.get(cls)
        if pre:
            for i in (1, 2, 3):
                out.setdefault(f['%s_d%d_field' % (pre, i)], f['%s_d%d_value' % (pre, i)])
        if cls == 'CellAllocation':
            out.setdefault(f['ca_partition'], f['default_partition'])
        return out
    a = m.Application
    base = dict(o)
    if f['app_eph'] in o:
        base[f['app_eph_tcpf']] = o[f['app_eph']].get(f['app_eph_tcp'], f['app_eph_default'])
        base[f['app_eph_udpf']] = o[f['app_eph']].get(f['app_eph_udp'], f['app_eph_default'])
    out = nf_base(a._schema, base)
    eph = {}
    if f['app_eph_tcpf'] in out:
        eph[f['app_eph_tcp']] = out.pop(f['app_eph_tcpf'])
    if f['app_eph_udpf'] in out:
        eph[f['app_eph_udp']] = out.pop(f['app_eph_udpf'])
    out[f['app_eph']] = eph
    svcs = []
    for s in o.get(f['app_svc_field']) or []:
        d = nf_base(a._svc_schema, s)
        rst = dict(f['default_restart'])
        rst.update(s.get(f['app_svc_restart']) or {})
        d[f['app_svc_restart']] = {f['app_rst_limit']: rst[f['app_rst_limit']], f['app_rst_interval']: rst[f['app_rst_interval']]}
        svcs.append(d)
    out[f['app_svc_field']] = sorted(svcs, key=lambda x: sorted((k, v) for k, v in x.items() if k != f['app_svc_restart']))
    out[f['app_ep_field']] = nf_items(a._endpoint_schema, o.get(f['app_ep_field']))
    out[f['app_env_field']] = nf_items(a._environ_schema, o.get(f['app_env_field']))
    out[f['app_aff_field']] = dict(o.get(f['app_aff_field']) or {})
    vr = o.get(f['app_vr_field'])
    if vr:
        cells = list(vr.get(f['app_vr_cells']) or [])
        rules = nf_items(a._vring_rule_schema, vr.get(f['app_vr_rules']))
        if cells or rules:
            out[f['app_vr_field']] = {f['app_vr_cells']: cells, f['app_vr_rules']: rules}
    return out


def strict_eq(a, b):
    if isinstance(a, dict) and isinstance(b, dict):
        return set(a) == set(b) and all(strict_eq(a[k], b[k]) for k in a)
    if isinstance(a, list) and isinstance(b, list):
        return len(a) == len(b) and all(strict_eq(x, y) for x, y in zip(a, b))
    return type(a) is type(b) and a == b


def oracle(case, o):
    """-> list of (signature, what)"""
    if case['kind'] not in ('plain', 'list', 'app'):
        return []
    lossy = lossy_signature(case, o)
    if not py_typed(case):
        return []
    cls = case['cls']
    if o['to_entry'][0] != 'ok':
        return [('ldapcls-to-entry-fails', '%s.to_entry(%r) raises %s' % (cls, py_obj(case), o['to_entry'][2]))]
    if o['store_load'][0] != 'ok':
        return [('ldapcls-roundtrip', '%s %r is stored as %r which cannot be read back: %s'
                 % (cls, py_obj(case), o['stored'], o['store_load'][2]))]
    want, got = jsonable(py_nf(case)), o['store_load'][1]
    out = []
    if not strict_eq(got, want):
        bad = sorted(k for k in set(got) | set(want) if k not in got or k not in want or not strict_eq(got[k], want[k]))
        out.append(('ldapcls-roundtrip', '%s %r reads back as %r, the normal form is %r (keys %r differ; entry %r)'
                    % (cls, py_obj(case), got, want, bad, o['stored'])))
    # stability: a second store + load returns the same object; Application needs one more (ephemeral_ports {} ->
    # {tcp: 0, udp: 0}, a known observation), and is stable from then on
    if o.get('twice', ['err'])[0] != 'ok':
        out.append(('ldapcls-reload-fails', '%s: the loaded object %r cannot be stored and read again: %s'
                    % (cls, got, o.get('twice', [None, None, 'missing'])[2])))
    elif cls != 'Application' and not strict_eq(o['twice'][1], got):
        out.append(('ldapcls-not-idempotent', '%s: %r reloads as %r' % (cls, got, o['twice'][1])))
    elif cls == 'Application':
        if o.get('thrice', ['err'])[0] != 'ok' or not strict_eq(o['thrice'][1], o['twice'][1]):
            out.append(('ldapcls-not-stable-after-two', 'Application: %r reloads as %r' % (o['twice'][1], o.get('thrice'))))
        else:
            f = facts()
            a, b = dict(got), dict(o['twice'][1])
            ea, eb = a.pop(f['app_eph'], None), b.pop(f['app_eph'], None)
            full = dict({f['app_eph_tcp']: f['app_eph_default'], f['app_eph_udp']: f['app_eph_default']}, **(ea or {}))
            if not strict_eq(a, b) or not strict_eq(eb, full):
                out.append(('ldapcls-not-idempotent', 'Application: %r reloads as %r (more than ephemeral_ports '
                            'defaults changed)' % (got, o['twice'][1])))
    return out


def lossy_signature(case, o):
    """the known lossy places (outside the theorems' domain): a signature when this case shows one, else None"""
    e = case.get('edge')
    if not e or o.get('to_entry', ['err'])[0] != 'ok':
        return None
    f = facts()
    sl = o['store_load']
    if e == 'dup-service-name' and sl[0] == 'ok':
        rs = [s.get(f['app_svc_restart']) for s in sl[1][f['app_svc_field']]]
        return 'ldapcls-lossy-duplicate-service-name-restarts-merged' if len(rs) == 2 and rs[0] == rs[1] else None
    if e == 'restart-none':
        return 'ldapcls-lossy-restart-none-unreadable' if sl[0] == 'err' and sl[1] == E_KEY else None
    if e == 'affinity-none':
        return 'ldapcls-lossy-affinity-none-unreadable' if sl[0] == 'err' and sl[1] == E_KEY else None
    if e == 'restart-name' and sl[0] == 'ok':
        return 'ldapcls-lossy-restart-name-overwrites-service-name' \
            if [s[f['app_svc_key']] for s in sl[1][f['app_svc_field']]] == ['other'] else None
    if e == 'vring-empty' and sl[0] == 'ok':
        return 'ldapcls-lossy-empty-vring-dropped' if f['app_vr_field'] not in sl[1] else None
    if e == 'dup-master-idx' and sl[0] == 'ok':
        return 'ldapcls-lossy-duplicate-master-idx-merged' if len(sl[1][f['cell_field']]) == 1 else None
    if e == 'max-utilization-text' and sl[0] == 'ok':
        return 'ldapcls-lossy-max-utilization-text-reads-as-float' \
            if isinstance(sl[1].get(f['ca_maxutil']), dict) else None
    return None


# ------------------------------------------------------------------ the model on the same cases
def run_model(pairs, shard=250, timeout=600):
    """pairs: [(term, expected zlist term)] -> (mismatch indices, outside indices, error).  A case on which the
    model answers 'outside the model' ([-1]) is reported in the second list and is not a mismatch."""
    d = core.scratch()
    shards = [pairs[i:i + shard] for i in range(0, len(pairs), shard)]
    pending = []
    for si, sp in enumerate(shards):
        body = ['Definition cases_%d : list (lcase * list Z) := [' % si,
                ';\n'.join('  (%s, %s)' % p for p in sp), '].',
                'Definition mism_%d := Eval vm_compute in (mismatches (fun c => let r := run_case lcls_tables (fst c) in '
                'if zlist_eqb r [(-1)%%Z] then snd c else r) (map (fun p => (p, snd p)) cases_%d)).' % (si, si),
                'Definition outs_%d := Eval vm_compute in (mismatches (fun c => if zlist_eqb (run_case lcls_tables (fst c)) '
                '[(-1)%%Z] then [] else snd c) (map (fun p => (p, snd p)) cases_%d)).' % (si, si),
                'Print mism_%d.' % si, 'Print outs_%d.' % si]
        path = os.path.join(d, 'cases_ldapcls_%d.v' % si)
        with open(path, 'w') as fh:
            fh.write(PREAMBLE + '\n' + '\n'.join(body) + '\n')
        pending.append((si, path))
    mism, outs, errors, running = [], [], [], []

    def start(item):
        si, path = item
        cmd = ['bash', '-c', 'ulimit -s unlimited 2>/dev/null; exec timeout %d coqc -q -w none -Q %s TM %s'
               % (timeout, core.THEORIES, path)]
        return si, subprocess.Popen(cmd, cwd=d, stdout=subprocess.PIPE, stderr=subprocess.STDOUT, text=True)
    while pending or running:
        while pending and len(running) < core.NPROC:
            running.append(start(pending.pop(0)))
        si, p = running.pop(0)
        out, _ = p.communicate()
        if p.returncode != 0:
            errors.append('shard %d: coqc rc=%s: %s' % (si, p.returncode, out[-1500:]))
            continue
        flat = out.replace('\n', ' ')
        m1 = re.search(r'mism_%d\s*=\s*(\[[^\]]*\])' % si, flat)
        m2 = re.search(r'outs_%d\s*=\s*(\[[^\]]*\])' % si, flat)
        if not (m1 and m2):
            errors.append('shard %d: cannot parse output: %s' % (si, out[-500:]))
            continue
        mism += [si * shard + int(x) for x in re.findall(r'\d+', m1.group(1))]
        outs += [si * shard + int(x) for x in re.findall(r'\d+', m2.group(1))]
    return sorted(mism), sorted(outs), ('; '.join(errors) if errors else None)


# ------------------------------------------------------------------ coverage
def _shape_of_items(items):
    if items is None:
        return 'absent'
    n = len(items)
    return '0' if n == 0 else '1-4' if n <= 4 else '11+'


def distribution(cases, obs, outside):
    dist = {}
    for i, (c, o) in enumerate(zip(cases, obs)):
        d = dist.setdefault(c['cls'], {'objects': 0, 'entries': 0, 'typed_objects': 0, 'to_entry_errors': 0,
                                       'load_errors': 0, 'outside_model': 0, 'edge_probes': 0, 'lists': {},
                                       'entry_mutations': {}})
        if i in outside:
            d['outside_model'] += 1
        if 'entry' in c:
            d['entries'] += 1
            d['load_errors'] += 1 if o.get('dec', ['ok'])[0] != 'ok' else 0
            for mname in c.get('mutations', []) or ['none']:
                d['entry_mutations'][mname] = d['entry_mutations'].get(mname, 0) + 1
            continue
        d['objects'] += 1
        d['edge_probes'] += 1 if c.get('edge') else 0
        d['typed_objects'] += 1 if o.get('typed') else 0
        d['to_entry_errors'] += 1 if o.get('to_entry', ['ok'])[0] != 'ok' else 0
        d['load_errors'] += 1 if o.get('store_load', ['ok'])[0] != 'ok' else 0
        if c['kind'] == 'list':
            k = 'items:' + _shape_of_items(c['obj']['items'])
            d['lists'][k] = d['lists'].get(k, 0) + 1
        if c['kind'] == 'app':
            for name in ('services', 'endpoints', 'environ'):
                k = '%s:%s' % (name, _shape_of_items(c['obj'][name]))
                d['lists'][k] = d['lists'].get(k, 0) + 1
            for name in ('eph', 'affinity', 'vring'):
                k = '%s:%s' % (name, 'absent' if c['obj'][name] is None else 'present')
                d['lists'][k] = d['lists'].get(k, 0) + 1
            if c['obj']['vring'] is not None:
                k = 'vring.rules:' + _shape_of_items(c['obj']['vring']['rules'])
                d['lists'][k] = d['lists'].get(k, 0) + 1
            if c['obj']['services']:
                k = 'restart:' + ','.join(sorted({'absent' if s['restart'] is None else 'present'
                                                  for s in c['obj']['services']}))
                d['lists'][k] = d['lists'].get(k, 0) + 1
    return dist


# ------------------------------------------------------------------ the stage
REPORT_LOSSY_AS_VIOLATION = False     # the lossy places outside the theorems' domain: coverage only (see the report)


def stage(r, seed, tier):
    """Run the LDAP-classes stage on the Run `r`; returns coverage counters (a dict to merge into the coverage)."""
    t0 = time.time()
    rng = random.Random(seed + 1511)
    n = 700 if tier == 'quick' else 12000
    lg, state = _quiet()
    try:
        return _stage(r, seed, tier, rng, n, t0)
    except Exception as exc:   # never lose the verdict: an unusable tie is a broken obligation
        import traceback
        r.broken_obligation('correspondence', 'C15 LDAP classes stage failed: %s: %s' % (type(exc).__name__, str(exc)[:300]),
                            traceback.format_exc())
        return {'ldapcls_stage': {'error': '%s: %s' % (type(exc).__name__, str(exc)[:300])}, 'ldapcls_obligations': 0}
    finally:
        lg.disabled = state[0]


def _stage(r, seed, tier, rng, n, t0):
    with core.build_lock():
        terr = core.regen_tables()
        for sec, msg in terr:
            if sec in SECTIONS:
                r.broken_obligation('tables', 'translator section %s' % sec, msg)
        okm, logm = core.make(MODEL_VOS)
        proof = core.compile_props(PROPS)
    if not proof['ok']:
        r.broken_obligation('proof', proof['failed'] or 'Props/%s.v' % PROPS, proof['log'])
    elif not proof['axioms_ok']:
        r.broken_obligation('proof', 'Props/%s.v Print Assumptions: %s' % (PROPS, ', '.join(proof['axioms'])))
    _FACTS.clear()
    cases = gen_cases(rng, n)
    obs, pairs = [], []
    nviol = [0]
    lossy = {}

    def consider(c, o):
        sig = lossy_signature(c, o)
        if sig:
            lossy.setdefault(sig, {'count': 0, 'example': py_obj(c)})['count'] += 1
            if REPORT_LOSSY_AS_VIOLATION:
                r.violation(sig, '%s %r: %s' % (c['cls'], py_obj(c), sig), {'engine': 'E-ldapcls', 'case': c},
                            {'impl_observed': o})
        for s, what in oracle(c, o):
            nviol[0] += 1
            r.violation(s, what, {'engine': 'E-ldapcls', 'case': c}, {'impl_observed': o})
    harness_errors = []
    for c in cases:
        try:
            o = impl_run(c)
            if 'entry' not in c:
                o['typed'] = py_typed(c)
            consider(c, o)
            e = expected(c, o)
            pairs.append(None if e is None else (case_term(c), G.zlist(e)))
        except Exception as exc:   # the harness can no longer drive the implementation: a broken tie
            import traceback
            harness_errors.append('%s: %s' % (type(exc).__name__, str(exc)[:200]))
            if len(harness_errors) == 1:
                r.broken_obligation('correspondence', 'C15 LDAP classes stage could not drive the implementation (%s)'
                                    % harness_errors[0], traceback.format_exc())
            o = {'harness_error': harness_errors[-1]}
            pairs.append(None)
        obs.append(o)
    live = [(i, p) for i, p in enumerate(pairs) if p is not None]
    mism, outs, err = [], [], None
    with core.build_lock():
        core.regen_tables()
        okm2, logm2 = core.make(MODEL_VOS)
    if not (okm and okm2):
        err = 'model does not build: ' + (logm2 if not okm2 else logm)[-1200:]
    else:
        mism, outs, err = run_model([p for _i, p in live])
        mism = [live[j][0] for j in mism]
        outs = [live[j][0] for j in outs]
        if mism:
            smallest = min(mism, key=lambda i: len(json.dumps(cases[i], default=str)))
            mo, _e = core.model_output(PREAMBLE, '(run_case lcls_tables)', pairs[smallest][0])
            r.broken_obligation('correspondence',
                                'C15 LDAP classes: model vs implementation: %d of %d cases differ' % (len(mism), len(live)),
                                json.dumps({'case': cases[smallest], 'impl_observed': obs[smallest],
                                            'impl_flat': expected(cases[smallest], obs[smallest]),
                                            'model_flat': mo}, default=str))
    if err:
        r.broken_obligation('correspondence', 'C15 LDAP classes: the model could not be evaluated', err)
    # typed objects must be inside the model
    typed_outside = [i for i in outs if obs[i].get('typed')]
    if typed_outside:
        r.broken_obligation('correspondence', 'C15 LDAP classes: %d typed objects are outside the model' % len(typed_outside),
                            json.dumps({'case': cases[typed_outside[0]]}, default=str))
    searched = 0
    mine_broken = (not proof['ok']) or (not proof['axioms_ok']) or err or mism or harness_errors or typed_outside \
        or any(sec in SECTIONS for sec, _m in terr)
    if mine_broken and not nviol[0]:
        rng2 = random.Random(seed + 1512)
        t_end = time.time() + (10 if tier == 'quick' else 300)
        for c in gen_cases(rng2, 4000 if tier == 'quick' else 100000):
            searched += 1
            try:
                consider(c, impl_run(c))
            except Exception:   # noqa
                continue
            if nviol[0] > 20 or time.time() > t_end:
                break
    ok = [(i, c, o) for i, (c, o) in enumerate(zip(cases, obs)) if 'harness_error' not in o]
    outset = set(outs)
    cov = {
        'cases': len(cases), 'correspondence_cases': len(live), 'correspondence_mismatches': len(mism),
        'outside_model': len(outs), 'not_expressible': len(cases) - len(live),
        'oracle_violations': nviol[0], 'extra_search_cases': searched, 'harness_errors': len(harness_errors),
        'lossy_places_observed': {k: v['count'] for k, v in lossy.items()},
        'lossy_examples': {k: repr(v['example'])[:300] for k, v in lossy.items()},
        'distribution': distribution([c for _i, c, _o in ok], [o for _i, _c, o in ok],
                                     {j for j, (i, _c, _o) in enumerate(ok) if i in outset}),
        'theorems': proof['theorems'], 'proof_ok': bool(proof['ok'] and proof['axioms_ok']),
        'print_assumptions': ('all closed under the global context (%d)' % proof['closed_count']
                              if not proof['axioms'] else 'axioms: ' + ', '.join(proof['axioms'])),
        'checker_cmd': proof['cmd'], 'table_sections': list(SECTIONS),
        'source_sha256': core.source_hashes(ANCHORS), 'wall_s': round(time.time() - t0, 2),
        'rule': 'seeded (random.Random(seed+1511)): 14 fixed edge probes, then 22% plain classes (Server, DNS, AppGroup, '
                'Tenant, Allocation), 33% Cell / CellAllocation / Partition, 42% Application, 3% edge probes; every '
                'schema field present with p in {0.2..0.95}, None 10%, int in a str field 10%; lists absent 15%, empty '
                '20%, 1-4 items 76%, 11-18 items 4% (hexadecimal indices); 12% of the objects carry values of the '
                'wrong type / missing sort keys; 30% of the cases are entries: the real to_entry of such an object '
                '(70% through _remove_empty) with 0-3 perturbations (moved / duplicated / unknown option, dropped '
                'attribute, key with two ";", foreign attribute, odd values, bools, timestamps)',
    }
    return {'ldapcls_stage': cov, 'ldapcls_obligations': len(proof['theorems'])}


TRUSTED = [
    'Props/C15Ldap.v: Coq 8.16.1 kernel; vm_compute for C15L_tables_ok and the Examples; Print Assumptions closed',
    'translator harness/tables_ldapcls.py: schema tables, DEFAULT_PARTITION, Application._default_svc_restart read from '
    'the imported module; the shape of _dict_2_entry, _empty_list_entry, _to_obj_list, _group_entry_by_opt, '
    '_grouped_to_list_of_dict, LdapObject.from_entry / to_entry and of every from_entry / to_entry / schema override '
    'pinned by AST template (constants as holes, exported by role); fail-closed',
    'hand-written model Codec/LdapCls.v (on Codec/Ldap.v, Codec/Dec.v str()/int(), Codec/Json.v), tied by differential '
    'execution of the real to_entry / _remove_empty / from_entry on structured objects and perturbed entries '
    '(cases_ldapcls_*.v + vm_compute)',
    'from_entry is called without a dn (the _id of CellAllocation and the partition / cell keys of Partition come from '
    'the dn, not from the entry); the LDAP server is not modelled beyond storing _remove_empty(entry)',
    'sorted() on three or more items whose comparison raises TypeError is modelled as always raising (the generator '
    'mixes value kinds only in lists of at most two items); float(text) only for plain decimal numerals',
]
ASSUMPTIONS = [
    'LDAP class round trip: object fields typed as their schema row (None allowed, int allowed in str fields); list '
    'items carry a str sort key; Cell masters carry distinct int idx; service names distinct, restart only '
    'limit/interval ints; affinity limits ints; CellAllocation max_utilization absent (float text not modelled)',
]


def replay_case(case):
    """case = the dict stored in a replay file ({'engine': 'E-ldapcls', 'case': ...}) or the inner case"""
    c = case['case'] if isinstance(case, dict) and case.get('engine') == 'E-ldapcls' else case
    lg, state = _quiet()
    try:
        o = impl_run(c)
        v = oracle(c, o)
        if not v and REPORT_LOSSY_AS_VIOLATION and lossy_signature(c, o):
            return (lossy_signature(c, o), '%s %r' % (c['cls'], py_obj(c)))
    finally:
        lg.disabled = state[0]
    return v[0] if v else None
