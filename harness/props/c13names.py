"""C13, what a restarted manager recomputes: the container name of a cache file.

The model's container name is (instance, cache-file id) and a restarted AppCfgMgr (`_synchronize`) re-derives it with
`appcfg.eventfile_unique_name` from the file it finds in cache/: that is the ONLY tie between a running container and
its instance after a restart. The main correspondence restarts the manager inside one Python process, where anything
derived from the interpreter's state (hash salt, id(), module-level counters) still gives the same answer. This stage
asks separate interpreter processes - different PYTHONHASHSEED, as on every real restart - for the name of the same
cache files; any disagreement means the restarted manager sees the running container as extra (terminates it) and
configures a second one for the same placement. Oracle-only."""
import json
import os
import random
import subprocess
import sys

from .. import core

_CHILD = r'''
import json, sys
from treadmill import appcfg
print(json.dumps([appcfg.eventfile_unique_name(p) for p in json.load(sys.stdin)]))
'''


def _ask(paths, hashseed):
    env = dict(os.environ, PYTHONPATH=core.PYLIB, PYTHONHASHSEED=str(hashseed))
    p = subprocess.run([sys.executable, '-c', _CHILD], input=json.dumps(paths), env=env, capture_output=True,
                       text=True, timeout=120)
    if p.returncode != 0:
        raise RuntimeError('name process failed: %s' % p.stderr[-300:])
    return json.loads(p.stdout)


def stage(r, seed, n):
    rng = random.Random(seed + 1313)
    d = os.path.join(core.scratch(), 'c13names-%d' % os.getpid())
    os.makedirs(d, exist_ok=True)
    names = []
    for _ in range(n):
        app = '%s.%s' % (rng.choice(['proid', 'treadmld', 'u1']), rng.choice(['web', 'db-x', 'a.b.c', 'z']))
        names.append('%s#%010d' % (app, rng.randrange(1, 10 ** 9)))
    names = sorted(set(names))
    paths = []
    for nm in names:
        p = os.path.join(d, nm)
        with open(p, 'w') as f:
            f.write('x')
        paths.append(p)
    answers = [_ask(paths, hs) for hs in (0, 1, 4242)]
    nviol = 0
    for i, p in enumerate(paths):
        got = sorted({a[i] for a in answers})
        if len(got) > 1:
            nviol += 1
            if nviol == 1:
                r.violation('container-name-differs-between-manager-processes',
                            'cache/%s: three manager processes (PYTHONHASHSEED 0, 1, 4242) name its container %r: after a '
                            'restart the running container is not recognised as this instance' % (names[i], got),
                            {'engine': 'E-node-c13names', 'names': [names[i]]})
    for p in paths:
        os.unlink(p)
    return {'names_across_processes': {'cache_files': len(paths), 'processes': 3, 'disagreements': nviol}}


def replay_case(case):
    class R:
        hit = None

        def violation(self, sig, what, _case):
            self.hit = (sig, what)
    d = os.path.join(core.scratch(), 'c13names-replay')
    os.makedirs(d, exist_ok=True)
    paths = []
    for nm in case['names']:
        p = os.path.join(d, nm)
        open(p, 'w').close()
        paths.append(p)
    answers = [_ask(paths, hs) for hs in (0, 1, 4242)]
    for i, nm in enumerate(case['names']):
        got = sorted({a[i] for a in answers})
        if len(got) > 1:
            return ('container-name-differs-between-manager-processes', 'cache/%s named %r' % (nm, got))
    return None
