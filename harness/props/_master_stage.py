"""Scheduler-level statements (C02..C07) judged on the cycles of the REAL Master (harness/mprobe.py).

Oracle-only stage shared by the E-cell properties: E-master histories of the `sched` profile (events that reach the
scheduler through the Loader and the Master's handlers: manifests with affinity limits, traits, leases and identity
groups, server records changed and reloaded, presence changes, allocations re-assigned, blacklists, priorities,
restarts) are played on the real Master; every cycle it runs is recorded exactly as E-cell records a cycle and handed to
the property's oracle."""
import random

from .. import ecell_oracles, mprobe


def stage(pid, r, seed, n, extra=None, use_oracle=True):
    from .. import emaster
    rng = random.Random(seed + 4242)
    cycles = hits_total = 0
    probe_errors = {}
    for _ in range(n):
        case = emaster.gen_case(rng, profile='sched')
        try:
            trace, errors, _stats = mprobe.run_case(case)
        except Exception as exc:   # noqa
            r.broken_obligation('correspondence', '%s master-level stage could not drive the master: %s: %s'
                                % (pid, type(exc).__name__, str(exc)[:200]))
            break
        for e in errors:
            probe_errors[e] = probe_errors.get(e, 0) + 1
        cycles += sum(1 for t in trace if t.get('op') == 'Schedule')
        hits = (ecell_oracles.run_oracle(pid, trace) if use_oracle else []) + declared_hits(pid, trace)
        if extra is not None:
            hits = hits + list(extra(trace))
        seen = set()
        for sig, what in hits:
            if sig in seen:
                continue
            seen.add(sig)
            hits_total += 1
            r.violation(sig, 'real Master, ' + what, {'engine': 'E-master-probe', 'pid': pid, 'case': case})
    if probe_errors:
        r.broken_obligation('correspondence', '%s master-level stage: the probe could not observe %d cycle(s): %s'
                            % (pid, sum(probe_errors.values()), sorted(probe_errors)[:2]))
    return {'master_probe_stage': {'histories': n, 'master_cycles': cycles, 'violations': hits_total}}


def declared_hits(pid, trace):
    """the attributes this property's statement speaks of, as declared in the store against as held by the scheduler"""
    out = []
    for i, rec in enumerate(trace):
        for field, what in rec.get('decl_mismatch', ()):
            if pid in mprobe.FIELD_OWNER.get(field, ()):
                out.append(('declared-%s-not-what-the-scheduler-holds' % field.replace('_', '-'),
                            'at op %d: %s' % (i, what)))
    return out


def replay(pid, case, extra=None, use_oracle=True):
    trace, _errors, _stats = mprobe.run_case(case['case'])
    hits = (ecell_oracles.run_oracle(pid, trace) if use_oracle else []) + declared_hits(pid, trace)
    if extra is not None:
        hits = hits + list(extra(trace))
    return hits[0] if hits else None
