"""C10: a master crash at any point never leaves an instance placed twice.

Model + theorems: Master/Publish.v, Master/PublishP.v, Props/C10.v.
Tie: tables_c10 (AST of reschedule/init_schedule) + E-master (harness/emaster.py): for EVERY publication of
every generated history EVERY crash point k (store as it is before write k, k = 0..n) is checked: no instance under
two servers; a fresh Master on a copy completes load_model(); init_schedule(), its store equals its model, and
check_placement_integrity() passes.  Correspondence: recorded write lists / doubles per cut / final store /
integrity outcome / duplicate pass vs the model (cases_*.v)."""
from .. import core, emaster

PID = 'C10'


def run(tier, seed):
    spec = emaster.make_spec(PID, 'c10', n_quick=260, n_thorough=8000,
                             rule_extra='EVERY crash point of EVERY publication (reschedule and init_schedule) is '
                                        'enumerated and followed by a restart on a copy of the store')
    core.standard_run(PID, tier, seed, spec)


def replay_case(case):
    return emaster.replay(PID, case)
