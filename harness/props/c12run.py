"""C12, start-up stage: the cache after EventMgr.run() - not only after a direct call of _synchronize.

The first synchronisation a node agent makes is the one triggered while its placement watch is being registered, and it
is the only one that compares existing cache entries with the placement nodes (`check_existing = not placement_ready`).
Whether that happens is decided in `EventMgr.run` / `_check_placement`, outside the functions the model covers, so this
stage drives the real `run(once=True)` against an in-memory kazoo fake whose watches fire synchronously on registration
(as kazoo's do) and evaluates the statement with the oracle of harness/props/c12.py for `check_existing = True`.
Oracle-only."""
import os
import random
import shutil
import tempfile
import types

from .. import core
from . import c12


class RunZk(c12.FakeZk):
    class _Handler:
        @staticmethod
        def event_object():
            import threading
            return threading.Event()
    handler = _Handler()

    def add_listener(self, _fn):
        pass

    def DataWatch(self, path):
        def deco(fn):
            if path in self.nodes:
                data, ctime = self.nodes[path]
                fn(data, c12._Stat(ctime), None)
            else:
                fn(None, None, None)
            return fn
        return deco

    def ChildrenWatch(self, path, fn):
        fn(self.get_children(path))


def _drive(case, root):
    eventmgr, _fs, _yw, kexc, _yaml = c12.impl()
    em = eventmgr.EventMgr(root)
    cache_dir = em.tm_env.cache_dir
    host = em._hostname
    nodes = {'/placement/%s' % host: (b'', 1)}
    if case.get('presence', True):
        nodes['/server.presence/%s' % host] = (b'', 1)
    import json
    for n, m in case['sched'].items():
        nodes['/scheduled/%s' % n] = (json.dumps(m).encode(), 1)
    for n, p in case['place'].items():
        try:
            base = os.stat(os.path.join(cache_dir, n)).st_ctime_ns // 1000000
        except OSError:
            base = 1500000000000
        ctime = {'older': base - 5000, 'equal': base, 'newer': base + 2}[p['rel']]
        data = b'' if p['data'] is None else json.dumps(p['data']).encode()
        nodes['/placement/%s/%s' % (host, n)] = (data, ctime)
    zk = RunZk(nodes, kexc)
    real_ctx, real_sleep = eventmgr.context, eventmgr.time.sleep
    eventmgr.context = types.SimpleNamespace(GLOBAL=types.SimpleNamespace(zk=types.SimpleNamespace(conn=zk)))
    fake_time = types.SimpleNamespace(**{k: getattr(eventmgr.time, k) for k in dir(eventmgr.time) if not k.startswith('__')})
    fake_time.sleep = lambda _s: None
    real_time = eventmgr.time
    eventmgr.time = fake_time
    from treadmill import utils as _utils
    real_exit = _utils.sys_exit

    def _raise(code):          # exit_on_unhandled ends the process with os._exit
        raise SystemExit(code)
    _utils.sys_exit = _raise
    try:
        try:
            em.run(once=True)
            return 0, ''
        except SystemExit as e:
            return 1, 'SystemExit: %s' % e
        except Exception as e:          # noqa
            return 1, '%s: %s' % (type(e).__name__, e)
    finally:
        eventmgr.context, eventmgr.time = real_ctx, real_time
        _utils.sys_exit = real_exit
        del real_sleep


def impl_run(case):
    _eventmgr, _fs, _yw, _kexc, yaml = c12.impl()
    root = tempfile.mkdtemp(prefix='c12run-', dir=core.scratch())
    try:
        cache_dir = os.path.join(root, 'cache')
        os.makedirs(cache_dir)
        for p in case['prior']:
            c12._write_prior(cache_dir, p, yaml)
        outcome, err = _drive(case, root)
        import glob as _glob
        listing = sorted(os.listdir(cache_dir))
        globbed = sorted(os.path.basename(p) for p in _glob.glob(os.path.join(cache_dir, '*')))
        entries = {n: c12._read_entry(os.path.join(cache_dir, n), yaml) for n in listing}
        return {'outcome': outcome, 'error': err, 'order': [], 'fired': False, 'listing': listing,
                'globbed': globbed, 'entries': entries, 'reader': None}
    finally:
        shutil.rmtree(root, ignore_errors=True)


def gen_case(rng, i):
    case = c12.gen_case(rng, i)
    for k in list(case['place']):
        if '#' not in k:
            del case['place'][k]
    case['prior'] = [p for p in case['prior'] if p['name'] == c12.READY or '#' in p['name'] or p['name'].startswith('.')]
    case['expected'] = sorted(case['place'])         # run() reads the children of the placement node itself
    case.update({'fault': None, 'check': True, 'pre_notify': None, 'post_notify': None, 'via_run': True})
    return case


def _verdict(case, o):
    v = c12.oracle(case, o)
    if not v:
        return []
    return v if isinstance(v, list) else [v]


def stage(r, seed, n):
    rng = random.Random(seed + 1212)
    hits = 0
    outdated = 0
    for i in range(n):
        case = gen_case(rng, i)
        have = {p['name'] for p in case['prior']}
        outdated += sum(1 for k, p in case['place'].items() if k in have and p['rel'] == 'newer' and k in case['sched'])
        try:
            o = impl_run(case)
        except Exception as exc:   # noqa
            r.broken_obligation('correspondence', 'C12 start-up stage could not drive EventMgr.run: %s: %s'
                                % (type(exc).__name__, str(exc)[:200]))
            break
        seen = set()
        for sig, what in _verdict(case, o):
            sig = 'startup:' + sig
            if sig in seen:
                continue
            seen.add(sig)
            hits += 1
            r.violation(sig, 'EventMgr.run(once=True): %s' % what, {'engine': 'E-node-c12run', 'case': case})
    return {'startup_stage': {'histories': n, 'outdated_entries_at_startup': outdated, 'violations': hits}}


def replay_case(case):
    v = _verdict(case['case'], impl_run(case['case']))
    return ('startup:' + v[0][0], v[0][1]) if v else None
