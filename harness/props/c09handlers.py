"""C09, handler stage (Master/Handlers.v, Master/HandlersP.v, Props/C09Handlers.v).

E-master histories (profile 'c09') are played on the REAL Master over the in-memory backend.  Every call of a handler
the model has a `hop` for is observed where it happens (wrappers around Master.remove_app, Loader.load_app,
Loader.reload_server, Cell.configure_identity_group / remove_identity_group, Master.reschedule,
Loader.check_placement_integrity, Loader.load_model + Master.init_schedule, and the producer-side removal of
/placement/<server>), translated into the hop with the scheduler's own decisions as parameters (the tuples and the
per-instance data of a cycle, which restores succeeded and with which expiry, the model after a start-up cycle), and
followed by a snapshot of the real abstract state:

    per instance of cell.apps (server, identity, identity_count, expires), the keys of Loader.servers,
    every /placement/<server>/<instance> node with its data.

At the end of every E-master operation one more `HNoView` hop is recorded: whatever else the operation did must not
have changed that state.  The model (hcase) is run on the same hops from the same start state and must produce the same
state after EVERY hop; it also reports whether each hop was well-formed (the assumptions of the theorems about the
scheduler: cycle_wf) - expected to be 1 throughout.

Not covered -> counted as `skipped` and the model is re-synchronised with the real state (a new segment starts there):
an operation during which a handler raised (the real master exits, a new one is elected: the partial effects of the
handler are not a hop), and the restart that follows it.

Oracle (Python, independent of Coq): the invariant of HandlersP (store = model, identity and expiry) evaluated on the
real snapshots; a hop other than the known defective ones (remove_server, the API's removal seen alone, reload_server
re-putting with a new expiry) after which it stops holding is a violation.
"""
import json
import random
import re

from .. import core, gallina as G

PROPS = 'C09Handlers'
MODEL_VOS = ['Master/Publish', 'Master/Handlers', 'Gen/Tables']
PREAMBLE = ('From Coq Require Import ZArith List.\nImport ListNotations.\nOpen Scope Z_scope.\n'
            'From TM Require Import Master.Publish Master.Handlers Gen.Tables.\n'
            'Definition c10_cfg : cfg := cfg_of_tables c10_reschedule_phases c10_changed_filter c10_init_phases '
            'c10_init_flags c10_integrity_flags.\n')
RUN_FN = '(hcase c10_cfg)'
IN_TYPE = 'hstate * list hop'
KNOWN_DEFECTIVE = ('HRemoveServer', 'HApiDelete', 'HReloadServer')
TRUSTED = [
    'hand-written model coq/theories/Master/Handlers.v of the Master\'s handlers between two publications (state = '
    'per-instance server/identity/identity_count/expires, Loader.servers, the /placement nodes), tied by differential '
    'execution: every handler call of every generated E-master history is translated into a hop and the model must '
    'reproduce the real abstract state after EVERY hop (cases_c09h_*.v + vm_compute); the scheduler\'s decisions (cycle '
    'tuples, outcome of Server.restore/put in restore_placement, the model after a start-up cycle) are inputs taken '
    'from the implementation',
]
ASSUMPTIONS = [
    'cycle_wf, checked on every real cycle: Cell.schedule returns one tuple per instance of cell.apps, its `before` '
    'columns are what the model held, and a placed instance reported unchanged has the identity / identity_count / '
    'expiry it had (needs the clock to move between two cycles)',
    'a handler that raises ends the master (utils.exit_on_unhandled): its partial effects are not a hop; the stage '
    're-synchronises the model at the restart that follows and counts it as skipped',
]
OP_TAGS = ['Schedule', 'Unschedule', 'PresenceUp', 'PresenceDown', 'PresenceUpRaw', 'PresenceBounce', 'ServerRecord',
           'ServerDeleteApi', 'Deliver', 'Allocations', 'IdentityGroup', 'IdentityGroupDeleted', 'ServerState',
           'AppsBlacklist', 'Priority', 'Renew', 'RunningAll', 'Tick', 'PendingStartCheck', 'Restart', 'MasterCycle',
           'UnscheduleRace', 'ServerRecreate', 'ServerReboot', 'GroupBounce', 'ScheduleRaw', 'ServerBlackout']


def _pd(d):
    d = d or {}
    return '(mkPD %s %s %s)' % (G.opt(d.get('identity'), G.z), G.opt(d.get('identity_count'), G.z),
                                G.opt(d.get('expires'), G.z))


def _zopt(v):
    return [-1] if v is None else [1, int(v)]


def _flat_pd(d):
    d = d or {}
    return _zopt(d.get('identity')) + _zopt(d.get('identity_count')) + _zopt(d.get('expires'))


class Snap:
    """the real abstract state"""

    def __init__(self, em, m):
        self.apps = []          # [(id, server id | None, pdata dict)] in cell.apps order
        for name, app in m.cell.apps.items():
            cnt = None
            if app.identity is not None and app.identity_group_ref is not None:
                cnt = app.identity_group_ref.count
            self.apps.append((em.aid(name), em.sid(app.server) if app.server else None,
                              {'identity': app.identity, 'identity_count': cnt, 'expires': app.placement_expiry}))
        self.servers = [em.sid(s) for s in m.servers]
        self.entries = {(em.sid(s), em.aid(a)): (v or {}) for (s, a), v in em.placement_entries(m.backend.d).items()}

    def flat(self):
        out = [len(self.apps)]
        for a, s, d in sorted(self.apps, key=lambda x: x[0]):
            out += [a] + _zopt(s) + _flat_pd(d)
        out += [len(self.servers)] + sorted(self.servers)
        out += [len(self.entries)]
        for (s, a) in sorted(self.entries):
            out += [s, a] + _flat_pd(self.entries[(s, a)])
        return out

    def apps_term(self):
        return G.lst(['(%s, (%s, %s))' % (G.z(a), G.opt(s, G.z), _pd(d)) for a, s, d in self.apps])

    def term(self):
        store = G.lst(['(%s, %s, %s)' % (G.z(s), G.z(a), _pd(d)) for (s, a), d in sorted(self.entries.items())])
        return '(mkH %s %s %s)' % (self.apps_term(), G.zlist(self.servers), store)

    def inv(self, full):
        """the invariant of HandlersP on the real state"""
        fields = ('identity', 'identity_count', 'expires') if full else ('identity', 'expires')
        by = {a: (s, d) for a, s, d in self.apps}
        for (s, a), d in self.entries.items():
            if a not in by or by[a][0] != s or any(d.get(f) != by[a][1].get(f) for f in fields):
                return False
        return all(s is None or (s, a) in self.entries for a, (s, _d) in by.items())


class Tracker:
    def __init__(self, em):
        self.em = em
        self.w = None
        self.cur = None          # the Master whose handlers are being observed
        self.loading = None      # a Master between load_model() and the end of init_schedule()
        self.depth = 0           # > 0 inside a composite handler
        self.resync = False
        self.segments = [{'st0': None, 'hops': []}]
        self.skipped = {}
        self.last = None         # the last snapshot
        self.notes = {}

    def active(self, m):
        return m is self.cur and self.loading is None

    def note(self, k):
        self.notes[k] = self.notes.get(k, 0) + 1

    def emit(self, kind, term, m):
        snap = Snap(self.em, m)
        if self.resync:
            self.resync = False
            self.skipped[kind + ':after-handler-exception'] = self.skipped.get(kind + ':after-handler-exception', 0) + 1
            self.segments.append({'st0': snap, 'hops': []})
        else:
            self.segments[-1]['hops'].append((kind, term, snap))
        self.last = snap


def _outs(tr, m, rec):
    """per child of /placement/<s>: what Loader.restore_placement did with it (instances the model knows)"""
    outs = []
    for e in rec['entries']:
        if not e['known'] or not e['node']:
            continue
        call = rec['calls'].get(e['app'])
        once = bool(e['once'])
        if call and call[1] and call[0] == 'restore':
            t = 'RRestored'
        elif call and call[1] and call[0] == 'put':
            app = m.cell.apps.get(e['app'])
            t = '(RPlaced %s)' % G.opt(app.placement_expiry if app is not None else None, G.z)
        elif call and call[0] == 'restore':
            t = '(RFailed true %s)' % G.b(once)
        else:
            t = '(RFailed false %s)' % G.b(once)
        outs.append('(%s, %s)' % (G.z(tr.em.aid(e['app'])), t))
    return G.lst(outs)


def _install(tr):
    """wrap the real handlers; returns the undo list"""
    em = tr.em
    sched, master_mod, loader_mod, _be, Mem, _crash = em.mods()
    undo = []

    def patch(obj, name, make):
        orig = getattr(obj, name)
        undo.append((obj, name, orig))
        setattr(obj, name, make(orig))

    def mk_remove_app(orig):
        def f(m, appname):
            r = orig(m, appname)
            if tr.active(m) and tr.depth == 0:
                tr.emit('HRemoveApp', '(HRemoveApp %s)' % G.z(em.aid(appname)), m)
            return r
        return f
    patch(master_mod.Master, 'remove_app', mk_remove_app)

    def mk_load_app(orig):
        def f(m, appname):
            r = orig(m, appname)
            if tr.active(m) and tr.depth == 0 and appname in m.cell.apps:
                tr.emit('HLoadApp', '(HLoadApp %s)' % G.z(em.aid(appname)), m)
            return r
        return f
    patch(loader_mod.Loader, 'load_app', mk_load_app)

    def mk_reload_server(orig):
        def f(m, s):
            if not tr.active(m) or tr.depth:
                return orig(m, s)
            known = s in m.servers
            obj = m.servers.get(s)
            n0 = len(tr.w.restores)
            tr.depth += 1
            try:
                r = orig(m, s)
            finally:
                tr.depth -= 1
            zs = G.z(em.sid(s))
            if not known:
                if s in m.servers:
                    tr.emit('HLoadServer', '(HLoadServer %s)' % zs, m)
                else:
                    tr.note('reload-of-unknown-server-without-record')
            elif s not in m.servers:
                tr.emit('HRemoveServer', '(HRemoveServer %s)' % zs, m)
            elif m.servers[s] is obj:
                tr.emit('HServerSame', '(HServerSame %s)' % zs, m)
            else:
                recs = [x for x in tr.w.restores[n0:] if x['server'] == s]
                outs = _outs(tr, m, recs[0]) if recs else '[]'
                tr.emit('HReloadServer', '(HReloadServer %s %s)' % (zs, outs), m)
            return r
        return f
    patch(loader_mod.Loader, 'reload_server', mk_reload_server)

    def members_of(cell, name):
        if name not in cell.identity_groups:
            return []
        g = cell.identity_groups[name]
        return [em.aid(n) for n, a in cell.apps.items() if a.identity_group_ref is g]

    def mk_configure(orig):
        def f(cell, name, count):
            act = tr.cur is not None and tr.cur.cell is cell and tr.loading is None
            members = members_of(cell, name) if act else []
            r = orig(cell, name, count)
            if act:
                tr.emit('HGroupCount', '(HGroupCount %s %s)' % (G.zlist(members), G.z(count)), tr.cur)
            return r
        return f
    patch(sched.Cell, 'configure_identity_group', mk_configure)

    def mk_remove_group(orig):
        def f(cell, name):
            act = tr.cur is not None and tr.cur.cell is cell and tr.loading is None
            members = members_of(cell, name) if act else []
            r = orig(cell, name)
            if act:
                tr.emit('HGroupCount', '(HGroupCount %s 0)' % G.zlist(members), tr.cur)
            return r
        return f
    patch(sched.Cell, 'remove_identity_group', mk_remove_group)

    def mk_reschedule(orig):
        def f(m):
            if not tr.active(m):
                return orig(m)
            try:
                r = orig(m)
            except Exception as exc:
                import traceback
                tb = traceback.extract_tb(exc.__traceback__)
                tr.note('handler-exception:%s-in-%s:during-MasterCycle' % (type(exc).__name__, tb[-1].name if tb else '?'))
                tr.resync = True
                raise
            sc = tr.w.last_sched
            tuples = G.lst(['(%s, %s, %s, %s, %s)' % (G.z(em.aid(t[0])), G.opt(em.sid(t[1]) if t[1] else None, G.z),
                                                     G.opt(t[2], G.z), G.opt(em.sid(t[3]) if t[3] else None, G.z),
                                                     G.opt(t[4], G.z)) for t in sc['tuples']])
            info = G.lst(['(%s, %s)' % (G.z(em.aid(n)), _pd(v)) for n, v in sc['info'].items()])
            once = G.zlist([em.aid(n) for n in sc['once']])
            tr.emit('HCycle', '(HCycle %s %s %s)' % (tuples, info, once), m)
            return r
        return f
    patch(master_mod.Master, 'reschedule', mk_reschedule)

    def mk_integrity(orig):
        def f(m):
            if not tr.active(m):
                return orig(m)
            pairs = []
            b = m.backend
            for s in b.list('/placement'):
                try:
                    for a in b.list('/placement/' + s):
                        pairs.append((em.sid(s), em.aid(a)))
                except Exception:   # noqa
                    continue
            try:
                return orig(m)
            finally:
                tr.emit('HIntegrity', '(HIntegrity %s)' % G.lst(['(%s, %s)' % (G.z(s), G.z(a)) for s, a in pairs]), m)
        return f
    patch(loader_mod.Loader, 'check_placement_integrity', mk_integrity)

    def mk_load_model(orig):
        def f(m):
            if m.backend is tr.w.b:
                tr.loading = m
            return orig(m)
        return f
    patch(loader_mod.Loader, 'load_model', mk_load_model)

    def mk_init_schedule(orig):
        def f(m):
            if tr.loading is not m:
                return orig(m)
            ents1 = {(em.sid(s), em.aid(a)) for (s, a) in em.placement_entries(m.backend.d)}
            dels = [k for k in (tr.last.entries if tr.last is not None else {}) if k not in ents1]
            try:
                r = orig(m)
            except Exception:
                tr.resync = True
                tr.loading, tr.cur = None, m
                raise
            tr.loading, tr.cur = None, m
            members = [em.sid(s) for s in m.cell.members()]
            if sorted(members) != sorted(em.sid(s) for s in m.servers):
                tr.resync = True        # a server outside the cell tree: init_schedule does not visit it
                tr.note('server-outside-cell-tree')
            snap = Snap(em, m)
            tr.emit('HRestart', '(HRestart %s %s %s)' % (G.lst(['(%s, %s)' % (G.z(s), G.z(a)) for s, a in dels]),
                                                        G.zlist(members), snap.apps_term()), m)
            return r
        return f
    patch(master_mod.Master, 'init_schedule', mk_init_schedule)

    def mk_raw_delete(orig):
        def f(b, path):
            r = orig(b, path)
            if tr.cur is not None and tr.loading is None and tr.cur.backend is b and tr.depth == 0 \
                    and re.match(r'^/placement/[^/]+$', path):
                tr.emit('HApiDelete', '(HApiDelete %s)' % G.z(em.sid(path.split('/')[2])), tr.cur)
            return r
        return f
    patch(Mem, 'raw_delete', mk_raw_delete)

    def mk_apply(orig):
        def f(w, op):
            tr.w = w
            try:
                r = orig(w, op)
            except Exception as exc:
                import traceback
                tb = traceback.extract_tb(exc.__traceback__)
                tr.note('handler-exception:%s-in-%s:during-%s' % (type(exc).__name__, tb[-1].name if tb else '?', op[0]))
                tr.resync = True
                raise
            if tr.cur is not None and w.m is tr.cur:
                tr.emit('HNoView', '(HNoView %d)' % (OP_TAGS.index(op[0]) if op[0] in OP_TAGS else len(OP_TAGS)), tr.cur)
            return r
        return f
    patch(em.World, 'apply', mk_apply)

    def mk_restart(orig):
        def f(w):
            tr.w = w
            try:
                r = orig(w)
            except Exception:
                tr.resync = True
                raise
            if tr.cur is not None and w.m is tr.cur:
                tr.emit('HNoView', '(HNoView %d)' % OP_TAGS.index('Restart'), tr.cur)
            return r
        return f
    patch(em.World, 'restart', mk_restart)
    return undo


def run_history(case):
    from .. import emaster
    tr = Tracker(emaster)
    undo = _install(tr)
    try:
        res = emaster.run_history(case, crash_points=False, want=())
    finally:
        for obj, name, orig in reversed(undo):
            setattr(obj, name, orig)
    return tr, res


def merge_api_delete(hops):
    """HApiDelete s immediately followed by HRemoveServer s (the event was delivered at once) = HServerDeleted s"""
    out = []
    for kind, term, snap in hops:
        if kind == 'HRemoveServer' and out and out[-1][0] == 'HApiDelete' \
                and out[-1][1].split()[1:] == term.split()[1:]:
            out[-1] = ('HServerDeleted', term.replace('HRemoveServer', 'HServerDeleted'), snap)
        else:
            out.append((kind, term, snap))
    return out


def segments_of(tr):
    """[(start term, [hop terms], expected flat list, [kinds], [snapshots])]"""
    out = []
    for seg in tr.segments:
        hops = merge_api_delete(seg['hops'])
        if not hops:
            continue
        st0 = 'h0' if seg['st0'] is None else seg['st0'].term()
        exp = []
        for _k, _t, snap in hops:
            exp += [1] + snap.flat()
        out.append((st0, [t for _k, t, _s in hops], exp, [k for k, _t, _s in hops],
                    [seg['st0']] + [s for _k, _t, s in hops]))
    return out


def oracle(segs):
    """the invariant on the real snapshots: which hops break it"""
    hits = []
    stats = {}
    for _st0, terms, _exp, kinds, snaps in segs:
        for j, kind in enumerate(kinds):
            before, after = snaps[j], snaps[j + 1]
            core_broken = False
            for full in (False, True):
                mode = 'full' if full else 'core'
                b = True if before is None else before.inv(full)
                a = after.inv(full)
                if b and not a and full and core_broken:
                    stats['full-broken-by:%s' % kind] = stats.get('full-broken-by:%s' % kind, 0) + 1
                elif b and not a:
                    core_broken = not full
                    key = '%s-broken-by:%s' % (mode, kind)
                    if kind == 'HRestart' and before is not None \
                            and any(s not in after.servers for (s, _a) in before.entries):
                        # start-up variant of the server-record-deleted finding: init_schedule visits the servers of
                        # the new model only, a node under a server whose record is gone stays
                        key += ':entries-under-a-server-without-record'
                        stats[key] = stats.get(key, 0) + 1
                        continue
                    stats[key] = stats.get(key, 0) + 1
                    if not full and kind not in KNOWN_DEFECTIVE:
                        hits.append(('publication-invariant-broken-between-cycles-by:%s' % kind,
                                     'the store equalled the model (entries, identity, expiry) before %s and does not '
                                     'after it' % terms[j][:300]))
                    if full and kind not in KNOWN_DEFECTIVE + ('HGroupCount',):
                        hits.append(('publication-invariant-broken-between-cycles-by:%s:identity-count' % kind,
                                     'the store equalled the model (all three fields) before %s and does not after it'
                                     % terms[j][:300]))
                elif a and not b:
                    key = '%s-restored-by:%s' % (mode, kind)
                    stats[key] = stats.get(key, 0) + 1
            if kind == 'HCycle':
                stats['cycles'] = stats.get('cycles', 0) + 1
                if before is not None and before.inv(False):
                    stats['cycles-from-invariant'] = stats.get('cycles-from-invariant', 0) + 1
                    if not after.inv(False):
                        hits.append(('published-differs-from-model-after-cycle-from-invariant',
                                     'the invariant held before the cycle and the published store differs from the '
                                     'model after it'))
    return hits, stats


def _parse_lists(out, name):
    flat = out.replace('\n', ' ')
    m = re.search(r'%s\s*=\s*(\[.*?\])\s*:\s*list' % name, flat)
    if not m:
        return None
    return [[int(x.replace('(', '').replace(')', '')) for x in re.findall(r'\(?-?\d+\)?', inner)]
            for inner in re.findall(r'\[([^\[\]]*)\]', m.group(1)[1:-1])]


def stage(r, seed, tier, n=None):
    """plays n histories; returns the coverage dict; reports violations / broken obligations on r"""
    try:
        return _stage(r, seed, tier, n)
    except Exception as exc:   # never lose the verdict: an unusable tie is a broken obligation
        import traceback
        r.broken_obligation('correspondence', 'C09 handler stage failed: %s: %s' % (type(exc).__name__, str(exc)[:300]),
                            traceback.format_exc())
        return {'handler_stage': {'error': '%s: %s' % (type(exc).__name__, str(exc)[:300])}}


def _stage(r, seed, tier, n=None):
    from .. import emaster
    rng = random.Random(seed + 909)
    n = n or (120 if tier == 'quick' else 4000)
    with core.build_lock():
        core.regen_tables()
        okm, logm = core.make(MODEL_VOS)
        proof = core.compile_props(PROPS)
    if not proof['ok']:
        r.broken_obligation('proof', proof['failed'] or 'Props/%s.v' % PROPS, proof['log'])
    elif not proof['axioms_ok']:
        r.broken_obligation('proof', 'Props/%s.v Print Assumptions: %s' % (PROPS, ', '.join(proof['axioms'])))
    cases, meta = [], []
    kinds, skipped, notes, ostats = {}, {}, {}, {}
    nviol = 0
    hops_total = 0
    for _ in range(n):
        case = emaster.gen_case(rng, profile='c09')
        try:
            tr, _res = run_history(case)
        except Exception as exc:   # noqa
            import traceback
            r.broken_obligation('correspondence', 'C09 handler stage could not drive the master: %s: %s'
                                % (type(exc).__name__, str(exc)[:200]), traceback.format_exc())
            break
        segs = segments_of(tr)
        hits, st = oracle(segs)
        seen = set()
        for sig, what in hits:
            if sig not in seen:
                seen.add(sig)
                nviol += 1
                r.violation(sig, what, {'engine': 'E-master-c09handlers', 'case': case})
        for k, v in st.items():
            ostats[k] = ostats.get(k, 0) + v
        for k, v in tr.skipped.items():
            skipped[k] = skipped.get(k, 0) + v
        for k, v in tr.notes.items():
            notes[k] = notes.get(k, 0) + v
        for st0, terms, exp, ks, _snaps in segs:
            cases.append(('(%s, %s)' % (st0, G.lst(terms)), G.zlist(exp)))
            meta.append((case, ks))
            hops_total += len(ks)
            for k in ks:
                kinds[k] = kinds.get(k, 0) + 1
    mism, err = [], None
    flags = {}
    if cases:
        with core.build_lock():
            okm2, logm2 = core.make(MODEL_VOS)
            if not (okm and okm2):
                err = 'model does not build: ' + (logm2 if not okm2 else logm)[-1200:]
            else:
                mism, err = core.run_mismatches(PREAMBLE, RUN_FN, cases, IN_TYPE, shard=40, timeout=600,
                                                tag='cases_c09h')
                if not err:
                    flags, err = model_flags(cases, meta)
    if err:
        r.broken_obligation('correspondence', 'C09 handler stage: the model could not be evaluated', err)
    if mism:
        j = min(mism, key=lambda k: len(cases[k][0]))
        mo, _e = core.model_output(PREAMBLE, RUN_FN, cases[j][0])
        r.broken_obligation('correspondence',
                            'C09 handler stage: model of the handlers vs the real Master: %d of %d segments differ'
                            % (len(mism), len(cases)),
                            json.dumps({'case': meta[j][0], 'hops': meta[j][1], 'model_input': cases[j][0],
                                        'impl_flat': cases[j][1], 'model_flat': mo}, default=str)[:8000])
    return {'handler_stage': {'histories': n, 'segments_compared': len(cases), 'segments_differ': len(mism),
                              'hops_compared': hops_total, 'hop_kinds': kinds, 'skipped': skipped, 'notes': notes,
                              'invariant_on_real_states': ostats, 'model_flags': flags, 'violations': nviol},
            'handler_obligations': len(proof.get('theorems', [])) if proof.get('ok') else 0}


def model_flags(cases, meta, shard=60):
    """per hop kind: how often the model says the hop is unsound (Full / Core), and - the theorem of HandlersP on the
    histories actually played - that a sound hop from a state satisfying the invariant keeps it"""
    out = {'unsound_full': {}, 'unsound_core': {}, 'sound_hops_from_invariant_core': 0, 'theorem_contradicted': 0}
    for i in range(0, len(cases), shard):
        body = 'Definition fl := Eval vm_compute in (map (hflags c10_cfg) %s).\nPrint fl.' \
               % G.lst([c[0] for c in cases[i:i + shard]])
        rc, txt = core.coq_eval(PREAMBLE, body, name='flags_c09h_%d' % i, timeout=600)
        if rc != 0:
            return out, 'hflags: coqc rc=%s: %s' % (rc, txt[-800:])
        rows = _parse_lists(txt, 'fl')
        if rows is None or len(rows) != len(cases[i:i + shard]):
            return out, 'hflags: cannot parse output: %s' % txt[-400:]
        for row, (_case, ks) in zip(rows, meta[i:i + shard]):
            inv_full = inv_core = None
            for j, k in enumerate(ks):
                sf, sc, af, ac = row[4 * j:4 * j + 4]
                if not sf:
                    out['unsound_full'][k] = out['unsound_full'].get(k, 0) + 1
                if not sc:
                    out['unsound_core'][k] = out['unsound_core'].get(k, 0) + 1
                if sc and (inv_core == 1 or k == 'HRestart'):
                    out['sound_hops_from_invariant_core'] += 1
                    if not ac:
                        out['theorem_contradicted'] += 1
                if sf and (inv_full == 1 or k == 'HRestart') and not af:
                    out['theorem_contradicted'] += 1
                inv_full, inv_core = af, ac
    if out['theorem_contradicted']:
        return out, 'a hop the model calls sound left a state satisfying the invariant for one that does not'
    return out, None


def replay_case(case):
    tr, _res = run_history(case['case'] if 'case' in case and 'ops' not in case else case)
    hits, _st = oracle(segments_of(tr))
    return hits[0] if hits else None


class _R:
    """stand-alone runs: python -m harness.props.c09handlers N [seed]"""

    def __init__(self):
        self.bad = []

    def broken_obligation(self, kind, name, detail=''):
        self.bad.append(('broken', kind, name, detail[-3000:]))

    def violation(self, sig, what, case, extra=None):
        self.bad.append(('violation', sig, what))


if __name__ == '__main__':
    import sys
    rr = _R()
    cov = stage(rr, int(sys.argv[2]) if len(sys.argv) > 2 else 1, 'quick', int(sys.argv[1]) if len(sys.argv) > 1 else 50)
    print(json.dumps(cov, indent=1, sort_keys=True))
    for b in rr.bad:
        print(b)
