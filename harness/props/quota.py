"""C20, third anchored mechanism: "instance API quotas bound total and per-proid scheduled instances".

A STAGE of the C20 check (to be called from harness/props/c20.py), not a standalone check:

    u = quota.stage(r, seed, tier)

It ties Api/Quota.v (the quota check at the top of the nested create of api/instance.py, the proid expression
rsrc_id[:rsrc_id.find('.')], the schema bounds of count, the master's _calculate_aggregate) to the source: translator
section `quota` (harness/tables_quota.py), the theorems of Props/C20Quota.v (recompiled here, Print Assumptions
parsed), differential execution of the REAL treadmill.api.instance.API().create up to the quota decision against the
model (cases_quota_*.v + vm_compute) and the statement as an oracle on the real outcomes.

The real create is driven from outside: `context` and (in half of the cases) `masterapi` of the instance module are
replaced by fakes for the duration of one call; in the other half the REAL masterapi.get_scheduled_stats reads the
stats through zkutils from a fake ZooKeeper client that serves what zkutils._payload writes.  Everything after the
quota check is cut off: context.GLOBAL.admin.application() raises a sentinel - reaching it means "accepted".
create.__wrapped__ (the body without the schema decorator) is driven too, to tie the find('.') = -1 case."""
import collections
import inspect
import logging
import random
import re
import sys
import time
import types

from .. import core, gallina as G

PID = 'C20'
PROPS = 'C20Quota'
SECTIONS = ('quota',)
MODEL_VOS = ['Api/Quota', 'Api/QuotaRun', 'Gen/Tables', 'Base/Flat']
PREAMBLE = ('From Coq Require Import ZArith List.\nImport ListNotations.\n'
            'From TM Require Import Codec.BaseN Api.Quota Api.QuotaRun Gen.Tables.\nOpen Scope Z_scope.\n')
RUN_FN = '(run_case quota_tables)'
IN_TYPE = 'qcase'
ANCHORS = ['lib/python/treadmill/api/instance.py', 'lib/python/treadmill/scheduler/masterapi.py',
           'lib/python/treadmill/scheduler/master.py']
ENGINE = 'E-quota'

# the oracle's own reading of the statement (NOT read from the source)
TOTAL = 50000
PROID = 10000
COUNT_MIN, COUNT_MAX = 1, 1000
NAME_PATTERNS = [r'^[a-zA-Z0-9_-]{2,20}([.][\w-]+)+$', r'^[a-zA-Z0-9_-]{2,20}@[\w-]+([.][\w-]+)+$']
NAME_MAXLEN = 117
MSG = {'Total scheduled apps quota exceeded.': 'total', 'Proid scheduled apps quota exceeded.': 'proid'}
CODES = {'accepted': 0, 'total': 1, 'proid': 2, 'validation': 3}

PROIDS = ['foo', 'bar', 'ab', 'treadmld', 'a-b_c', '12', 'Foo', 'x' * 20, 'null', 'fo', 'true', '1e3']
SUFFIXES = ['app', 'a', 'a.b', 'web.prod.1', 'x-y_z', '0', 'app.foo', 'äpp', 'app\n']
DOTLESS = ['nodot', 'foo', 'fo', 'x', '', 'treadmld', 'foo#1', 'a@b']
BAD_NAMES = ['.app', 'foo.', 'f.app', 'x' * 21 + '.app', 'foo..app', 'foo.a b', 'foo.app.', ' foo.app', 'foo@.app',
             'a@b', 'fo o.app', 'foo.' + 'y' * 120]


def name_valid(name):
    return isinstance(name, str) and len(name) <= NAME_MAXLEN and any(re.search(p, name) for p in NAME_PATTERNS)


def proid_text(name):
    """the statement's proid of an application name: the text before the first '.'"""
    return name.split('.')[0]


# ------------------------------------------------------------------ generator
def _valid_name(rng, proid=None):
    proid = rng.choice(PROIDS) if proid is None else proid
    suf = rng.choice(SUFFIXES[:7]) if rng.random() < 0.93 else rng.choice(SUFFIXES)
    return proid + '.' + suf


def _name(rng, mode, proid=None):
    """(name, class)"""
    k = rng.random()
    if k < (0.70 if mode != 'raw' else 0.45):
        return _valid_name(rng, proid), 'valid'
    if k < (0.78 if mode != 'raw' else 0.50):
        user = rng.choice(['uu', 'root', 'a-b'])
        return '%s@%s.%s' % (user, proid or rng.choice(PROIDS), rng.choice(SUFFIXES[:4])), 'valid_user_at'
    if k < (0.90 if mode != 'raw' else 0.88):
        return rng.choice(DOTLESS), 'dotless'
    return rng.choice(BAD_NAMES), 'bad'


def _near(rng, limit):
    return limit - rng.choice([0, 0, 1, 1, 2, 5, 10, 500, 999, 1000, 1001, 1002, 2000, rng.randint(0, 1200)])


def _stats(rng, name):
    """stats dict as an item list (or None), aimed at the limits for the key `name` is charged to"""
    key = name[:name.find('.')]
    shape = rng.choice(['near_proid', 'near_proid', 'near_total', 'near_total', 'both', 'both', 'small', 'empty',
                        'none', 'over', 'weird'])
    if shape == 'none':
        return None, shape
    if shape == 'empty':
        return [], shape
    d = collections.OrderedDict()
    others = [p for p in PROIDS + ['foo.bar', 'FOO', 'nodo', 'nodot', 'uu@foo', '', name[:-1], name] if p != key]
    rng.shuffle(others)
    if shape == 'small':
        for p in others[:rng.randint(0, 5)]:
            d[p] = rng.randint(0, 50)
        if rng.random() < 0.6:
            d[key] = rng.randint(0, 50)
    elif shape == 'near_proid':
        for p in others[:rng.randint(0, 4)]:
            d[p] = rng.randint(0, 3000)
        d[key] = _near(rng, PROID)
    elif shape in ('near_total', 'both'):
        mine = _near(rng, PROID) if shape == 'both' else rng.randint(0, 3000)
        room = _near(rng, TOTAL) - mine
        ks = others[:rng.randint(4, 7)]
        for i, p in enumerate(ks):
            if i == len(ks) - 1:
                d[p] = room
            else:
                v = min(room, rng.choice([PROID, PROID, rng.randint(0, PROID)]))
                d[p] = max(v, 0)
                room -= d[p]
        if rng.random() < 0.9 or mine:
            d[key] = mine
    elif shape == 'over':
        for p in others[:rng.randint(1, 4)]:
            d[p] = rng.choice([PROID + 1, 2 * PROID, TOTAL, TOTAL + 1, 10 ** 12])
        if rng.random() < 0.5:
            d[key] = rng.choice([PROID, PROID + 1, PROID + 1000, 0])
    else:   # weird: zero and negative entries (never written by the master; the body just adds)
        for p in others[:rng.randint(1, 4)]:
            d[p] = rng.choice([0, -1, -1000, 5, TOTAL])
        d[key] = rng.choice([0, -1, -500, PROID + 5])
    items = list(d.items())
    rng.shuffle(items)
    return [[k, v] for k, v in items], shape


def _count(rng, stats, name, mode):
    k = rng.random()
    if k < 0.12:
        return rng.choice([0, -1, 1001, 1002, 5000, -1000, 10 ** 6]), 'outside_schema'
    if k < 0.30:
        return rng.choice([1, 1, 2, 999, 1000, 1000]), 'schema_bound'
    if k < 0.70 and stats:
        d = dict(stats)
        room_t = TOTAL - sum(d.values())
        room_p = PROID - d.get(name[:name.find('.')], 0)
        c = rng.choice([room_t, room_p, min(room_t, room_p)]) + rng.choice([-1, 0, 0, 1, 1])
        if COUNT_MIN <= c <= COUNT_MAX or mode == 'raw':
            return c, 'at_the_room'
    return rng.randint(COUNT_MIN, COUNT_MAX), 'random'


def gen_case(rng, i=0):
    k = rng.random()
    if k < 0.62:
        mode = rng.choice(['api-kw', 'api-kw', 'api-pos', 'api-pos', 'raw', 'raw'])
        name, ncls = _name(rng, mode)
        stats, shape = _stats(rng, name)
        count, ccls = _count(rng, stats, name, mode)
        return {'kind': 'one', 'mode': mode, 'read': rng.choice(['patched', 'zk']), 'stats': stats, 'rsrc_id': name,
                'count': count, 'cls': [ncls, shape, ccls]}
    if k < 0.90:
        stale = k >= 0.82
        proids = rng.sample(PROIDS, rng.randint(1, 3))
        first = _valid_name(rng, proids[0])
        base, shape = _stats(rng, first)
        if shape in ('weird', 'over') or base is None:
            base, shape = ([[proids[0], _near(rng, PROID)], ['zz', rng.randint(0, 20000)]], 'near_proid')
        reqs = []
        for _ in range(rng.randint(2, 9)):
            p = rng.choice(proids)
            nm = _valid_name(rng, p) if rng.random() < 0.9 else 'uu@%s.app' % p
            c = rng.choice([1, 1, 2, 3, 500, 999, 1000, rng.randint(1, 1000)])
            reqs.append([nm, c])
        probe = sorted(set([nm[:nm.find('.')] for nm, _c in reqs] + [rng.choice(PROIDS), 'zz']))
        full = (not stale) and rng.random() < 0.06 and all(re.match(r'^[\w@-]+$', kk) and v >= 0 for kk, v in base) \
            and sum(v for _k, v in base) <= 70000
        return {'kind': 'stale' if stale else 'seq', 'base': base, 'reqs': reqs, 'probe': probe, 'full': full,
                'read': rng.choice(['patched', 'zk']), 'cls': [shape]}
    names = []
    for _ in range(rng.randint(0, 22)):
        x = rng.random()
        if x < 0.75:
            names.append('%s#%010d' % (_valid_name(rng), rng.randint(0, 10 ** 6)))
        elif x < 0.85:
            names.append('%s#%010d' % (rng.choice(DOTLESS), rng.randint(0, 99)))
        elif x < 0.93:
            names.append(rng.choice(DOTLESS + BAD_NAMES[:7]))
        else:
            names.append('uu@%s.app#%010d' % (rng.choice(PROIDS), rng.randint(0, 99)))
    return {'kind': 'agg', 'names': names}


def gen_cases(rng, n):
    """fixed edge cases first (never missed), then the seeded stream"""
    cases = []
    for mode in ('api-kw', 'api-pos', 'raw'):
        for stats, name, count in [
                ([['foo', PROID - 1]], 'foo.app', 1), ([['foo', PROID - 1]], 'foo.app', 2),
                ([['foo', PROID]], 'foo.app', 1), ([['foo', PROID - 1000]], 'foo.app', 1000),
                ([['a1', PROID], ['a2', PROID], ['a3', PROID], ['a4', PROID], ['a5', PROID - 1]], 'foo.app', 1),
                ([['a1', PROID], ['a2', PROID], ['a3', PROID], ['a4', PROID], ['a5', PROID - 1]], 'foo.app', 2),
                ([['a1', PROID], ['a2', PROID], ['a3', PROID], ['a4', PROID], ['foo', PROID - 1]], 'foo.app', 2),
                ([['a1', PROID], ['a2', PROID], ['a3', PROID], ['a4', PROID], ['a5', PROID]], 'foo.app', 1),
                (None, 'foo.app', 1000), ([], 'foo.app', 1), ([['foo', 0]], 'foo.app', 0), ([], 'foo.app', 1001),
                ([['nodo', PROID]], 'nodot', 1), ([['nodot', PROID]], 'nodot', 1000), ([['', PROID]], '.app', 1),
                ([['', PROID]], '', 1), ([['', PROID]], 'x', 1), ([['uu@foo', PROID], ['foo', 0]], 'uu@foo.app', 1),
                ([['foo', PROID], ['uu@foo', 0]], 'uu@foo.app', 1), ([['foo.bar', PROID]], 'foo.bar.baz', 1)]:
            for read in ('patched', 'zk'):
                cases.append({'kind': 'one', 'mode': mode, 'read': read, 'stats': stats, 'rsrc_id': name,
                              'count': count, 'cls': ['fixed', 'fixed', 'fixed']})
    cases.append({'kind': 'stale', 'base': [['foo', PROID - 1]], 'reqs': [['foo.a', 1], ['foo.b', 1]],
                  'probe': ['foo'], 'full': False, 'read': 'zk', 'cls': ['fixed']})
    cases.append({'kind': 'seq', 'base': [['foo', PROID - 1]], 'reqs': [['foo.a', 1], ['foo.b', 1]],
                  'probe': ['foo'], 'full': True, 'read': 'zk', 'cls': ['fixed']})
    cases.append({'kind': 'agg', 'names': ['foo.a#0000000001', 'nodot#0000000001', 'foo.b.c#0000000002', '', '.x']})
    i = 0
    while len(cases) < n:
        cases.append(gen_case(rng, i))
        i += 1
    return cases


# ------------------------------------------------------------------ implementation
_IMPL = None


class _Reached(Exception):
    """context.GLOBAL.admin.application() was called: the quota check let the request through"""


class _Proxy:
    """module proxy: attributes of `over` first, everything else from the real module"""

    def __init__(self, real, **over):
        self.__dict__['_real'] = real
        self.__dict__.update(over)

    def __getattr__(self, name):
        return getattr(self._real, name)


def impl():
    global _IMPL
    if _IMPL is None:
        if core.PYLIB not in sys.path:
            sys.path.insert(0, core.PYLIB)
        import decorator
        if not hasattr(decorator, 'getargspec'):       # environment shim: treadmill.schema still calls it
            decorator.getargspec = inspect.getfullargspec
        import warnings
        with warnings.catch_warnings():
            warnings.simplefilter('ignore')
            import jsonschema
            import kazoo.client
            from treadmill import exc, zkutils, zknamespace
            from treadmill.api import instance
            from treadmill.scheduler import master, masterapi
        api = instance.API()
        raw = getattr(api.create, '__wrapped__', None)
        if raw is None or raw.__name__ != 'create':
            raise RuntimeError('API().create has no __wrapped__ body (the schema decorator changed)')
        _IMPL = types.SimpleNamespace(instance=instance, api=api, raw=raw, exc=exc, zkutils=zkutils, z=zknamespace,
                                      master=master, masterapi=masterapi, jsonschema=jsonschema,
                                      NoNodeError=kazoo.client.NoNodeError)
    return _IMPL


class _FakeZk:
    """serves /scheduled-stats as zkutils would have written it"""

    def __init__(self, m, stats):
        self.m, self.stats = m, stats
        self.reads = 0

    def get(self, path, watch=None):
        if path != self.m.z.SCHEDULED_STATS:
            raise AssertionError('unexpected ZooKeeper read of %r' % (path,))
        self.reads += 1
        if self.stats is None:
            raise self.m.NoNodeError()
        return self.m.zkutils._payload(dict(self.stats)), None


def _call_create(mode, read, stats, rsrc_id, count):
    """one real create up to the quota decision -> 'accepted' | 'total' | 'proid' | 'validation' | 'other:...'"""
    m = impl()
    inst = m.instance

    def application():
        raise _Reached()
    zk = _FakeZk(m, stats) if read == 'zk' else object()
    saved = (inst.context, inst.masterapi)
    inst.context = types.SimpleNamespace(GLOBAL=types.SimpleNamespace(
        zk=types.SimpleNamespace(conn=zk), admin=types.SimpleNamespace(application=application)))
    if read != 'zk':
        given = None if stats is None else dict(stats)
        inst.masterapi = _Proxy(m.masterapi, get_scheduled_stats=lambda _zk: given)
    try:
        try:
            if mode == 'api-kw':
                m.api.create(rsrc_id, {}, count=count)
            elif mode == 'api-pos':
                m.api.create(rsrc_id, {}, count, None, False, None)     # the way rest/api/instance.py calls it
            else:
                m.raw(rsrc_id, {}, count)
        except _Reached:
            return 'accepted'
        except m.exc.QuotaExceededError as e:
            return MSG.get(str(e), 'other:QuotaExceededError:%s' % str(e)[:60])
        except m.jsonschema.exceptions.ValidationError:
            return 'validation'
        except Exception as e:   # noqa
            return 'other:%s:%s' % (type(e).__name__, str(e)[:60])
        return 'other:returned'
    finally:
        inst.context, inst.masterapi = saved


def _merge(base, extra):
    d = collections.OrderedDict((k, v) for k, v in base)
    for k, v in extra.items():
        d[k] = d.get(k, 0) + v
    return d


def impl_run(case):
    m = impl()
    k = case['kind']
    if k == 'one':
        return {'outcome': _call_create(case['mode'], case['read'], case['stats'], case['rsrc_id'], case['count'])}
    if k == 'agg':
        agg = m.master.Master._calculate_aggregate(None, list(case['names']))
        return {'aggregate': [[kk, v] for kk, v in agg.items()]}
    # seq / stale: the environment keeps the names of /scheduled; the stats are the REAL aggregate of the names
    # created here, merged into the base stats (full: the base population is materialised as names too)
    aggregate = m.master.Master._calculate_aggregate
    names = []
    if case.get('full'):
        for kk, v in case['base']:
            names.extend('%s.z#%010d' % (kk, j) for j in range(v))
        base = []
    else:
        base = case['base']
    nbase = len(names)
    seq_no = 0
    outcomes = []
    for nm, c in case['reqs']:
        if k == 'stale':
            stats = _merge(case['base'], {})
        else:
            stats = _merge(base, aggregate(None, names))
        o = _call_create('api-kw', case['read'], list(stats.items()), nm, c)
        outcomes.append(o)
        if o == 'accepted':
            for _ in range(c):
                seq_no += 1
                names.append('%s#%010d' % (nm, seq_no))
    if k == 'stale':
        final = _merge(case['base'], aggregate(None, names[nbase:]))
    else:
        final = _merge(base, aggregate(None, names))
    return {'outcomes': outcomes, 'total': sum(final.values()), 'probe': [final.get(p, 0) for p in case['probe']],
            'final': [[kk, v] for kk, v in final.items()]}


# ------------------------------------------------------------------ oracle: the statement on implementation results
def _want(stats, name, count):
    d = dict(stats or [])
    tot, mine = sum(d.values()), d.get(proid_text(name), 0)
    return tot + count <= TOTAL and mine + count <= PROID, tot, mine


def _judge(stats, name, count, got, api, where=''):
    """the statement for one create whose name has a '.'"""
    out = []
    valid = name_valid(name) and type(count) is int and COUNT_MIN <= count <= COUNT_MAX
    if api and not valid:
        if got != 'validation':
            out.append(('invalid-request-reaches-quota-check',
                        '%screate(%r, count=%r) is outside the schema but ends as %s' % (where, name, count, got)))
        return out
    if not valid:
        return out                    # the body alone with arguments the API never passes: correspondence only
    want, tot, mine = _want(stats, name, count)
    what = ('%screate(%r, count=%d) with %d scheduled in total and %d of proid %r ends as %s'
            % (where, name, count, tot, mine, proid_text(name), got))
    if got == 'accepted':
        if not want:
            out.append(('create-accepted-over-quota', what))
    elif got == 'total':
        if want:
            out.append(('create-refused-within-quota', what))
        elif tot + count <= TOTAL:
            out.append(('quota-error-names-wrong-quota', what))
    elif got == 'proid':
        if want:
            out.append(('create-refused-within-quota', what))
        elif mine + count <= PROID:
            out.append(('quota-error-names-wrong-quota', what))
    elif got == 'validation':
        out.append(('valid-request-rejected-by-schema', what))
    else:
        out.append(('create-fails-before-quota-decision', what))
    return out


def oracle(case, obs):
    out = []
    k = case['kind']
    if k == 'one':
        if case['mode'] == 'raw' and '.' not in case['rsrc_id']:
            return out                # unreachable through the API: the schema admits only names with a '.'
        out += _judge(case['stats'], case['rsrc_id'], case['count'], obs['outcome'], case['mode'] != 'raw')
    elif k in ('seq', 'stale'):
        mine = collections.Counter(dict(case['base']))
        seen = dict(case['base'])
        start_ok = sum(mine.values()) <= TOTAL and all(v <= PROID for v in mine.values())
        accepted = 0
        for i, ((nm, c), got) in enumerate(zip(case['reqs'], obs['outcomes'])):
            stats = list(seen.items()) if k == 'stale' else list(mine.items())
            out += _judge(stats, nm, c, got, True, 'request %d: ' % i)
            if got == 'accepted':
                mine[proid_text(nm)] += c
                accepted += 1
        tot = sum(mine.values())
        if obs['total'] != tot or any(dict(obs['final']).get(p, 0) != v for p, v in mine.items()):
            out.append(('stats-do-not-count-the-created-instances',
                        'after %r the stats are %r, the scheduled instances are %r' % (case['reqs'], obs['final'],
                                                                                       dict(mine))))
        slack = 0 if k == 'seq' else max(0, accepted - 1) * COUNT_MAX
        if start_ok and tot > TOTAL + slack:
            out.append(('sequence-exceeds-total-quota', '%d instances scheduled after %r from %r'
                        % (tot, case['reqs'], case['base'])))
        over = [(p, v) for p, v in mine.items() if v > PROID + slack]
        if start_ok and over:
            out.append(('sequence-exceeds-proid-quota', '%r after %r from %r' % (over, case['reqs'], case['base'])))
    elif k == 'agg':
        # names without a '.' never exist in /scheduled: with them only the total is required
        all_dotted = all('.' in n for n in case['names'])
        want = collections.Counter(proid_text(n) for n in case['names']) if all_dotted else {}
        got = dict(obs['aggregate'])
        if sum(got.values()) != len(case['names']) or (all_dotted and got != dict(want)):
            out.append(('aggregate-miscounts', '_calculate_aggregate(%r) = %r' % (case['names'], got)))
    return out


# ------------------------------------------------------------------ model terms / flattening
def _code(o):
    return CODES.get(o, 9)


def expected(case, obs):
    k = case['kind']
    if k == 'one':
        if case['mode'] != 'raw' and not name_valid(case['rsrc_id']):
            return None          # the schema of rsrc_id is not modelled (pinned textually by the translator)
        if type(case['count']) is not int:
            return None
        return [_code(obs['outcome'])]
    if k in ('seq', 'stale'):
        return [_code(o) for o in obs['outcomes']] + [obs['total']] + list(obs['probe'])
    if k == 'agg':
        out = []
        for kk, v in obs['aggregate']:
            out += [len(kk)] + [ord(ch) for ch in kk] + [v]
        return out
    raise ValueError(k)


def _zi(n):
    return '(%d)' % n if n < 0 else str(n)


def _s(text):
    return '[' + ';'.join(str(ord(ch)) for ch in text) + ']'


def _st(stats):
    return '[' + ';'.join('(%s,%s)' % (_s(kk), _zi(v)) for kk, v in (stats or [])) + ']'


def case_term(case):
    k = case['kind']
    if k == 'one':
        return '(QOne %s %s %s %s)' % ('false' if case['mode'] == 'raw' else 'true', _st(case['stats']),
                                       _s(case['rsrc_id']), _zi(case['count']))
    if k in ('seq', 'stale'):
        return '(%s %s %s %s)' % ('QSeq' if k == 'seq' else 'QStale', _st(case['base']),
                                  '[' + ';'.join('(%s,%s)' % (_s(nm), _zi(c)) for nm, c in case['reqs']) + ']',
                                  '[' + ';'.join(_s(p) for p in case['probe']) + ']')
    if k == 'agg':
        return '(QAgg %s)' % ('[' + ';'.join(_s(n) for n in case['names']) + ']')
    raise ValueError(k)


# ------------------------------------------------------------------ the stage
def _quiet():
    lg = logging.getLogger('treadmill')
    state = lg.disabled
    lg.disabled = True
    return lg, state


def _distribution(cases, obs):
    d = collections.Counter()
    outcomes = collections.Counter()
    for c, o in zip(cases, obs):
        k = c['kind']
        d[k] += 1
        if k == 'one':
            d['one_' + c['mode']] += 1
            d['read_' + c['read']] += 1
            d['name_' + c['cls'][0]] += 1
            d['stats_' + c['cls'][1]] += 1
            d['count_' + c['cls'][2]] += 1
            outcomes['%s:%s' % ('raw' if c['mode'] == 'raw' else 'api', o['outcome'].split(':')[0])] += 1
            st = dict(c['stats'] or [])
            if c['mode'] == 'raw' and '.' not in c['rsrc_id'] and c['rsrc_id'][:-1] in st:
                d['dotless_charged_to_existing_key'] += 1
            if sum(st.values()) + c['count'] in (TOTAL, TOTAL + 1):
                d['exactly_at_total_limit'] += 1
            if st.get(c['rsrc_id'][:c['rsrc_id'].find('.')], 0) + c['count'] in (PROID, PROID + 1):
                d['exactly_at_proid_limit'] += 1
        elif k in ('seq', 'stale'):
            d['requests_in_sequences'] += len(c['reqs'])
            d['sequence_full_population'] += bool(c.get('full'))
            for x in o['outcomes']:
                outcomes['%s:%s' % (k, x.split(':')[0])] += 1
            if k == 'stale' and (o['total'] > TOTAL or any(v > PROID for _p, v in o['final'])) \
                    and sum(v for _k, v in c['base']) <= TOTAL and all(v <= PROID for _k, v in c['base']):
                d['stale_overshoots'] += 1
        else:
            d['aggregate_names'] += len(c['names'])
    out = dict(sorted(d.items()))
    out['outcomes'] = dict(sorted(outcomes.items()))
    return out


def _constants_agree(r):
    """the values of the imported module are the ones the translator read off the source text"""
    from .. import tables_quota
    try:
        f = tables_quota.quota_facts()
    except Exception:   # reported by the tables obligation
        return
    inst = impl().instance
    got = (getattr(inst, '_TOTAL_SCHEDULED_QUOTA', None), getattr(inst, '_PROID_SCHEDULED_QUOTA', None))
    if got != (f['total'], f['proid']):
        r.broken_obligation('tables', 'translator section quota: the imported module has the quotas %r, the source '
                            'text gives %r' % (got, (f['total'], f['proid'])))


def stage(r, seed, tier, n=None):
    """Run the quota stage on the Run `r`; returns coverage counters (a dict to merge into the coverage)."""
    t0 = time.time()
    rng = random.Random(seed + 2011)
    n = n or (1000 if tier == 'quick' else 20000)
    lg, state = _quiet()
    try:
        return _stage(r, seed, tier, rng, n, t0)
    except Exception as exc:   # never lose the verdict: an unusable tie is a broken obligation
        import traceback
        r.broken_obligation('correspondence', 'C20 quota stage failed: %s: %s' % (type(exc).__name__, str(exc)[:300]),
                            traceback.format_exc())
        return {'quota_stage': {'error': '%s: %s' % (type(exc).__name__, str(exc)[:300])}, 'quota_obligations': 0}
    finally:
        lg.disabled = state


def _stage(r, seed, tier, rng, n, t0):
    # 1. tables, model, theorems
    with core.build_lock():
        terr = core.regen_tables()
        for sec, msg in terr:
            if sec in SECTIONS:
                r.broken_obligation('tables', 'translator section %s' % sec, msg)
        okm, logm = core.make(MODEL_VOS)
        proof = core.compile_props(PROPS)
    if not proof['ok']:
        r.broken_obligation('proof', proof['failed'] or 'Props/%s.v' % PROPS, proof['log'])
    elif not proof['axioms_ok']:
        r.broken_obligation('proof', 'Props/%s.v Print Assumptions: %s' % (PROPS, ', '.join(proof['axioms'])))
    # 2. the real create + the oracle
    cases = gen_cases(rng, n)
    obs, pairs = [], []
    nviol = [0]

    def consider(c, o):
        for sig, what in oracle(c, o):
            nviol[0] += 1
            r.violation(sig, what, {'engine': ENGINE, 'case': c}, {'impl_observed': o})
    harness_errors = []
    try:
        _constants_agree(r)
    except Exception as exc:   # noqa  (reported below by the first case)
        pass
    for c in cases:
        try:
            o = impl_run(c)
            consider(c, o)
            e = expected(c, o)
            pairs.append(None if e is None else (case_term(c), G.zlist(e)))
        except Exception as exc:   # the harness can no longer drive the implementation: a broken tie
            import traceback
            harness_errors.append('%s: %s' % (type(exc).__name__, str(exc)[:200]))
            if len(harness_errors) == 1:
                r.broken_obligation('correspondence', 'C20 quota stage could not drive the implementation (%s)'
                                    % harness_errors[0], traceback.format_exc())
            o = {'harness_error': harness_errors[-1]}
            pairs.append(None)
        obs.append(o)
    # 3. the model on the same cases
    live = [(i, p) for i, p in enumerate(pairs) if p is not None]
    mism, err = [], None
    with core.build_lock():
        core.regen_tables()
        okm2, logm2 = core.make(MODEL_VOS)
        if not (okm and okm2):
            err = 'model does not build: ' + (logm2 if not okm2 else logm)[-1200:]
        else:
            mism, err = core.run_mismatches(PREAMBLE, RUN_FN, [p for _i, p in live], IN_TYPE, shard=400,
                                            timeout=300, tag='cases_quota')
            mism = [live[j][0] for j in mism]
            if mism:
                import json
                smallest = min(mism, key=lambda i: len(json.dumps(cases[i], default=str)))
                mo, _e = core.model_output(PREAMBLE, RUN_FN, pairs[smallest][0])
                r.broken_obligation('correspondence',
                                    'C20 quota: model vs implementation: %d of %d cases differ' % (len(mism), len(live)),
                                    json.dumps({'case': cases[smallest], 'impl_observed': obs[smallest],
                                                'impl_flat': expected(cases[smallest], obs[smallest]),
                                                'model_flat': mo}, default=str))
    if err:
        r.broken_obligation('correspondence', 'C20 quota: the model could not be evaluated', err)
    # 4. something broke and the oracle has no failing input yet: search further (implementation + oracle only)
    searched = 0
    mine_broken = (not proof['ok']) or (not proof['axioms_ok']) or err or mism or harness_errors \
        or any(sec in SECTIONS for sec, _m in terr)
    if mine_broken and not nviol[0]:
        rng2 = random.Random(seed + 2012)
        t_end = time.time() + (15 if tier == 'quick' else 300)
        for c in gen_cases(rng2, 8000 if tier == 'quick' else 200000):
            searched += 1
            try:
                consider(c, impl_run(c))
            except Exception:   # noqa
                continue
            if nviol[0] > 20 or time.time() > t_end:
                break
    okobs = [(c, o) for c, o in zip(cases, obs) if 'harness_error' not in o]
    cov = {
        'cases': len(cases), 'correspondence_cases': len(live), 'correspondence_mismatches': len(mism),
        'not_modelled_skipped': len(cases) - len(live) - len(harness_errors),
        'oracle_violations': nviol[0], 'extra_search_cases': searched, 'harness_errors': len(harness_errors),
        'distribution': _distribution([c for c, _o in okobs], [o for _c, o in okobs]),
        'theorems': proof['theorems'], 'proof_ok': bool(proof['ok'] and proof['axioms_ok']),
        'print_assumptions': ('all closed under the global context (%d)' % proof['closed_count']
                              if not proof['axioms'] else 'axioms: ' + ', '.join(proof['axioms'])),
        'checker_cmd': proof['cmd'], 'table_sections': list(SECTIONS),
        'source_sha256': core.source_hashes(ANCHORS), 'wall_s': round(time.time() - t0, 2),
        'rule': 'seeded (random.Random(seed+2011)): 123 fixed edge cases (both limits exactly reached / exceeded by '
                'one, None / empty stats, count 0 / 1000 / 1001, names without a dot, user@proid names, in the three '
                'call forms and both read paths), then 62% single creates (2/3 through the decorated API called with '
                'keyword or positional count, 1/3 the body alone; names: 70% schema-valid, user@proid, no dot, '
                'malformed; stats aimed at the proid limit, the total limit, both, small, empty, missing node, above '
                'the limits, zero / negative entries; counts 12% outside 1..1000, 18% at the schema bounds, 40% at '
                'the remaining room +-1, rest uniform 1..1000), 20% sequences of 2-9 creates with the stats '
                'recomputed by the real _calculate_aggregate after every accepted one (6% with the whole population '
                'materialised as names), 8% sequences against stale stats, 10% _calculate_aggregate on name lists',
    }
    return {'quota_stage': cov, 'quota_obligations': len(proof['theorems'])}


TRUSTED = [
    'Props/C20Quota.v: Coq 8.16.1 kernel; vm_compute for C20Q_tables_ok, C20Q_constants_canonical, the _refuted '
    'witnesses and the Examples; Print Assumptions closed',
    'translator harness/tables_quota.py: the two quotas as integer constant expressions bound once in api/instance.py; '
    'the quota part of the nested create, masterapi.get_scheduled_stats and master._calculate_aggregate pinned by AST '
    'template (constants as holes); the count schema read from the decorator; common.json#/app_id pinned textually '
    '(both patterns require a "."); fail-closed',
    'hand-written model Api/Quota.v (dict as association list, str.find / s[:i] with a negative bound, Counter), tied '
    'by differential execution of the real API().create / create.__wrapped__ / Master._calculate_aggregate '
    '(cases_quota_*.v + vm_compute)',
    'the stats are a dict of str -> int (what zkutils reads back from the JSON the master writes); the regular '
    'expressions of the rsrc_id schema are not modelled in Coq: names the schema rejects are checked by the oracle only',
]
ASSUMPTIONS = [
    'C20Q_invariant / C20Q_system_invariant: every create is checked against stats that already contain the creates '
    'accepted before it (requests one after the other, the master has rewritten /scheduled-stats in between); without '
    'that only C20Q_stale_partial holds (C20Q_stale_proid_refuted, C20Q_stale_total_refuted)',
    'deletions are not modelled: they only lower the true counts',
    'instances enter /scheduled through this API only (masterapi.create_apps called elsewhere, e.g. by cron or the '
    'scheduler CLI, is not subject to the check)',
]


def replay_case(case):
    """case = the dict stored in a replay file ({'engine': 'E-quota', 'case': ...}) or the inner case"""
    c = case['case'] if isinstance(case, dict) and case.get('engine') == ENGINE else case
    lg, state = _quiet()
    try:
        v = oracle(c, impl_run(c))
    finally:
        lg.disabled = state
    return v[0] if v else None
