"""C16: runtime.linux._run._unshare_network / _finish._cleanup_network vs Node/NetReg.v.

The REAL functions run against real RuleMgr / EndpointsMgr directories (under core.scratch());
iptables ip-set calls, the resolver, newnet, the firewall plugin loader and the network service
client are recording fakes inside this process.  The model side evaluates the programs that
harness/tables_c16.py extracts from the two functions' AST (Gen.Tables.c16_start / c16_finish).
"""
import ipaddress
import logging
import os
import re
import shutil
import sys
import types

from .. import core, gallina as G

PID = 'C16'
ANCHORS = ['lib/python/treadmill/runtime/linux/_run.py', 'lib/python/treadmill/runtime/linux/_finish.py',
           'lib/python/treadmill/rulefile.py', 'lib/python/treadmill/endpoints.py',
           'lib/python/treadmill/runtime/__init__.py']
PREAMBLE = ('From Coq Require Import ZArith List.\nImport ListNotations.\n'
            'From TM Require Import Node.Owners Node.NetReg Gen.Tables.\nOpen Scope Z_scope.\n')
RUN_FN = '(run_case c16_start c16_finish)'
IN_TYPE = 'list (Z * Z) * list manifest * list cop'
PROTOS = ['tcp', 'udp']
EP_NAMES = ['http', 'ssh', 'ws', 'admin', 'metrics', 'rpc']
HOSTS = ['h1.example.com', 'h2.example.com', 'h3.example.com', 'h4.example.com']
EXT_IP = int(ipaddress.IPv4Address('10.20.30.40'))
VIP0 = int(ipaddress.IPv4Address('192.168.1.0'))
SRC0 = int(ipaddress.IPv4Address('172.16.0.0'))
CHAIN_IDS = {'PREROUTING_DNAT': 1, 'POSTROUTING_SNAT': 2, 'PREROUTING_PASSTHROUGH': 3}
SET_IDS = {'SET_VRING_CONTAINERS': 1, 'SET_INFRA_SVC': 2}


def ip_str(n):
    return str(ipaddress.IPv4Address(n))


def ip_int(s):
    return int(ipaddress.IPv4Address(s))


# ------------------------------------------------------------------ generator
def gen_manifest(rng, i, used_ports, vips):
    vip = VIP0 + 2 + i
    if vips and rng.random() < 0.08:
        vip = rng.choice(vips)                      # two containers with one vip (misconfiguration)
    vips.append(vip)
    app = rng.randrange(1, 3) if rng.random() < 0.3 else 10 + i    # sometimes two generations of one instance
    eps = []
    for _ in range(rng.choice([0, 1, 1, 2, 2, 3, 4, 6])):
        if used_ports and rng.random() < 0.06:
            rport = rng.choice(used_ports)          # collision with another container's host port
        else:
            rport = 5000 + rng.randrange(0, 40)
        used_ports.append(rport)
        port = rport if rng.random() < 0.2 else 8000 + rng.randrange(0, 4)
        eps.append({'name': rng.randrange(len(EP_NAMES)), 'proto': rng.randrange(2), 'port': port,
                    'real_port': rport, 'infra': rng.random() < 0.35})
    eph = {}
    for proto, mx in (('tcp', 4), ('udp', 2)):
        ports = []
        for _ in range(rng.choice([0, 0, 1, 2, mx])):
            p = rng.choice(used_ports) if (used_ports and rng.random() < 0.05) else 6000 + rng.randrange(0, 40)
            used_ports.append(p)
            ports.append(p)
        eph[proto] = ports
    pt = [rng.randrange(len(HOSTS)) for _ in range(rng.choice([0, 0, 1, 2, 3]))]
    return {'uniq': i + 1, 'app': app, 'vip': vip, 'ext': EXT_IP, 'eps': eps, 'eph_tcp': eph['tcp'],
            'eph_udp': eph['udp'], 'pt': pt, 'vring': rng.random() < 0.45,
            'pt_attr': bool(pt) or rng.random() < 0.5}


def gen_case(rng, _i):
    n = rng.choice([1, 2, 2, 3, 3])
    used, vips = [], []
    ms = [gen_manifest(rng, i, used, vips) for i in range(n)]
    dns = [SRC0 + 1 + rng.randrange(0, 3) for _ in HOSTS]     # several hosts may resolve to one address
    ops = []
    shape = rng.random()
    if shape < 0.35:
        # every container: allocate, start; then finish in random order (some repeated)
        order = list(range(n))
        rng.shuffle(order)
        for i in order:
            ops += [['net_put', i], ['start', i]]
        rng.shuffle(order)
        for i in order:
            ops.append(['finish', i])
            if rng.random() < 0.4:
                ops.append(['finish', i])
    elif shape < 0.6:
        # start immediately followed by finish, on a host that carries the other containers
        order = list(range(n))
        rng.shuffle(order)
        for i in order[:-1]:
            ops += [['net_put', i], ['start', i]]
        i = order[-1]
        ops += [['net_put', i], ['start', i], ['finish', i], ['finish', i]]
        for i in order[:-1]:
            if rng.random() < 0.7:
                ops.append(['finish', i])
    else:
        state = {i: 0 for i in range(n)}
        for _ in range(rng.randrange(4, 14)):
            i = rng.randrange(n)
            x = rng.random()
            if x < 0.3:
                ops.append(['net_put', i])
            elif x < 0.6:
                if rng.random() < 0.8 and state[i] == 0:
                    ops.append(['net_put', i])
                ops.append(['start', i])
                state[i] = 1
            elif x < 0.93:
                ops.append(['finish', i])
                state[i] = 0
            else:
                ops.append(['net_del', i])
    return {'dns': dns, 'containers': ms, 'ops': ops}


# ------------------------------------------------------------------ implementation driver
_IMPL = None


def impl():
    global _IMPL
    if _IMPL is None:
        sys.path.insert(0, core.PYLIB)
        logging.disable(logging.CRITICAL)
        from treadmill import rulefile, endpoints, firewall, iptables, utils, services
        from treadmill import yamlwrapper
        from treadmill.runtime.linux import _run, _finish
        _IMPL = {'rulefile': rulefile, 'endpoints': endpoints, 'firewall': firewall, 'iptables': iptables,
                 'utils': utils, 'services': services, 'yaml': yamlwrapper, '_run': _run, '_finish': _finish}
    return _IMPL


class FakeIptables:
    """recording ip-sets: treadmill.iptables as seen by _run / _finish (constants from the real module)"""

    def __init__(self, real):
        for k in dir(real):
            if k.isupper():
                setattr(self, k, getattr(real, k))
        self.sets = {}
        self.calls = []

    def add_ip_set(self, name, entry):
        self.calls.append(('add', name, entry))
        l = self.sets.setdefault(name, [])
        if entry not in l:
            l.append(entry)

    def rm_ip_set(self, name, entry):
        self.calls.append(('rm', name, entry))
        l = self.sets.setdefault(name, [])
        if entry in l:
            l.remove(entry)

    def flush_cnt_conntrack_table(self, vip):
        self.calls.append(('flush', vip))


class FakeSocket:
    def __init__(self, table):
        self.table = table

    def gethostbyname(self, host):
        return self.table[host]


class FakeNewnet:
    def __init__(self):
        self.calls = []

    def create_newnet(self, *a):
        self.calls.append(a)


class FakePlugins:
    @staticmethod
    def load(*_a, **_kw):
        raise KeyError('no firewall plugin in the harness')


class _Clock:
    """time module as seen by services._base_service: the real clock plus one second per delete, so that the harness
    re-using one resource id within a second (a container's unique name is requested once in production) does not make
    two backup directories `bck<ts>-...` collide."""

    def __init__(self):
        import time as _t
        self._t = _t
        self.skew = 0

    def time(self):
        return self._t.time() + self.skew

    def __getattr__(self, k):
        return getattr(self._t, k)


class NetworkClient:
    """The REAL services.ResourceServiceClient (put / get / delete on a real client directory registered in a real
    service directory). Only the daemon's half is the harness: answering a request is writing reply.yml through the
    registration link, which is what ResourceService._on_created does with the implementation's answer."""

    def __init__(self, root):
        from treadmill import services
        self.svc_dir = os.path.join(root, 'network_svc')
        self.rsrc_dir = os.path.join(self.svc_dir, 'resources')
        os.makedirs(self.rsrc_dir)
        from treadmill.services import _base_service
        if not isinstance(_base_service.time, _Clock):
            _base_service.time = _Clock()
        self.clock = _base_service.time
        self.client = services.ResourceService(service_dir=self.svc_dir, impl='network').make_client(
            os.path.join(root, 'netclt'))

    def get(self, name):
        fds = core.open_fds()
        try:
            return self.client.get(name)       # wait_for_file leaves an inotify instance behind
        finally:
            core.close_fds_since(fds, collect=False)   # an Inotify object: no finaliser

    def delete(self, name):
        self.clock.skew += 1
        return self.client.delete(name)

    def put(self, name, reply):
        self.client.put(name, {'environment': 'dev'})
        yaml = impl()['yaml']
        tmp = os.path.join(self.rsrc_dir, name, '.reply.tmp')
        with open(tmp, 'w') as f:
            yaml.dump(reply, explicit_start=True, explicit_end=True, default_flow_style=False, stream=f)
        os.rename(tmp, os.path.join(self.rsrc_dir, name, 'reply.yml'))

    def registered(self):
        return [n for n in os.listdir(self.rsrc_dir)
                if not n.startswith('.') and os.path.exists(os.path.join(self.rsrc_dir, n))]


_counter = [0]


def uniq_name(m):
    return 'proid.app%d-%010d-uniq%09d' % (m['app'], m['app'], m['uniq'])


def app_name(m):
    return 'proid.app%d#%010d' % (m['app'], m['app'])


class World:
    def __init__(self, case):
        mods = impl()
        _counter[0] += 1
        self.root = os.path.join(core.scratch(), 'c16-%d-%d' % (os.getpid(), _counter[0]))
        self.apps_dir = os.path.join(self.root, 'apps')
        self.rules_dir = os.path.join(self.root, 'rules')
        self.ep_dir = os.path.join(self.root, 'endpoints')
        for d in (self.apps_dir, self.rules_dir, self.ep_dir):
            os.makedirs(d)
        self.case = case
        self.tm_env = types.SimpleNamespace(
            apps_dir=self.apps_dir,
            rules=mods['rulefile'].RuleMgr(self.rules_dir, self.apps_dir),
            endpoints=mods['endpoints'].EndpointsMgr(self.ep_dir))
        self.ipt = FakeIptables(mods['iptables'])
        self.sock = FakeSocket({h: ip_str(case['dns'][k]) for k, h in enumerate(HOSTS)})
        self.newnet = FakeNewnet()
        self.netclient = NetworkClient(self.root)
        for mod in (mods['_run'], mods['_finish']):
            mod.iptables = self.ipt
            mod.socket = self.sock
            mod.plugin_manager = FakePlugins
        mods['_run'].newnet = self.newnet
        self.chain_ids = {getattr(mods['iptables'], k): v for k, v in CHAIN_IDS.items()}
        self.set_ids = {getattr(mods['iptables'], k): v for k, v in SET_IDS.items()}
        self.uniq_ids = {uniq_name(m): m['uniq'] for m in case['containers']}
        self.app_ids = {app_name(m): 100 + m['app'] for m in case['containers']}
        self.apps = [self.app_obj(m) for m in case['containers']]
        for m in case['containers']:
            os.makedirs(os.path.join(self.apps_dir, uniq_name(m)), exist_ok=True)

    def close(self):
        shutil.rmtree(self.root, ignore_errors=True)

    def app_obj(self, m):
        d = {
            'name': app_name(m), 'uniqueid': 'uniq%09d' % m['uniq'],
            'network': {'vip': ip_str(m['vip']), 'external_ip': ip_str(m['ext']), 'veth': 'veth%d' % m['uniq'],
                        'gateway': '192.168.254.254'},
            'endpoints': [dict({'name': EP_NAMES[e['name']], 'proto': PROTOS[e['proto']], 'port': e['port'],
                                'real_port': e['real_port']}, **({'type': 'infra'} if e['infra'] else {}))
                          for e in m['eps']],
            'ephemeral_ports': {'tcp': list(m['eph_tcp']), 'udp': list(m['eph_udp'])},
            'vring': {'cells': ['c1'], 'rules': []} if m['vring'] else None,
            'shared_ip': False,
        }
        if m['pt_attr']:
            d['passthrough'] = [HOSTS[h] for h in m['pt']]
        return impl()['utils'].to_obj(d)

    # ---- listings
    def list_rules(self):
        mods = impl()
        fw = mods['firewall']
        rows = []
        for n in os.listdir(self.rules_dir):
            owner = os.path.basename(os.readlink(os.path.join(self.rules_dir, n)))
            chain, r = mods['rulefile'].RuleMgr.get_rule(n)

            def ip(v):
                return 0 if v is fw.ANY_IP or v == fw.ANY_IP else ip_int(v)
            if isinstance(r, fw.PassThroughRule):
                row = [self.chain_ids[chain], 3, 0, ip(r.src_ip), 0, ip(r.dst_ip), 0, 0, 0]
            else:
                row = [self.chain_ids[chain], 1 if isinstance(r, fw.DNATRule) else 2, PROTOS.index(r.proto),
                       ip(r.src_ip), int(r.src_port), ip(r.dst_ip), int(r.dst_port), ip(r.new_ip), int(r.new_port)]
            rows.append(row + [self.uniq_ids.get(owner, 0)])
        return sorted(rows)

    def list_specs(self):
        rows = []
        for n in os.listdir(self.ep_dir):
            owner = os.path.basename(os.readlink(os.path.join(self.ep_dir, n)))
            app, proto, ep, rport, pid, port = n.split('~')
            rows.append([self.app_ids[app], PROTOS.index(proto), EP_NAMES.index(ep), int(rport), int(pid), int(port),
                         self.uniq_ids.get(owner, 0)])
        return sorted(rows)

    def list_ipset(self):
        rows = []
        for name, entries in self.ipt.sets.items():
            for e in entries:
                mm = re.match(r'^([\d.]+)(?:,(tcp|udp):(\d+))?$', e)
                row = [self.set_ids[name], ip_int(mm.group(1))]
                if mm.group(2):
                    row += [PROTOS.index(mm.group(2)), int(mm.group(3))]
                rows.append(row)
        return sorted(rows)

    def snapshot(self):
        return {'rules': self.list_rules(), 'specs': self.list_specs(), 'ipset': self.list_ipset(),
                'net': sorted([self.uniq_ids[k]] for k in self.netclient.registered())}

    def apply(self, op):
        mods = impl()
        k, i = op
        m, app = self.case['containers'][i], self.apps[i]
        if k == 'net_put':
            self.netclient.put(uniq_name(m), {'vip': ip_str(m['vip']), 'external_ip': ip_str(m['ext']),
                                              'veth': 'veth%d' % m['uniq'], 'gateway': '192.168.254.254'})
        elif k == 'net_del':
            self.netclient.delete(uniq_name(m))
        elif k == 'start':
            mods['_run']._unshare_network(self.tm_env, os.path.join(self.apps_dir, uniq_name(m)), app)
        elif k == 'finish':
            mods['_finish']._cleanup_network(self.tm_env, os.path.join(self.apps_dir, uniq_name(m)), app,
                                             self.netclient)
        else:
            raise AssertionError(op)


def impl_run(case):
    w = World(case)
    try:
        steps = []
        for op in case['ops']:
            try:
                w.apply(op)
                res, err = 0, ''
            except FileExistsError as e:
                res, err = 1, 'FileExistsError: %s' % os.path.basename(str(e.filename or ''))
            except Exception as e:   # noqa - anything else is reported as a mismatch (the model has no such outcome)
                res, err = 9, '%s: %s' % (type(e).__name__, e)
            steps.append({'res': res, 'err': err, 'after': w.snapshot()})
        return {'pid': os.getpid(), 'steps': steps}
    finally:
        w.close()


# ------------------------------------------------------------------ flattening (mirrors NetReg.crun_obs)
def dump_rows(rows):
    out = [len(rows)]
    for r in sorted(rows):
        out.extend(r)
    return out


def resolved(case, m):
    return sorted({case['dns'][h] for h in m['pt']})


def expected(case, obs):
    out = []
    for op, st in zip(case['ops'], obs['steps']):
        if op[0] == 'start' and st['res'] != 0 and len(resolved(case, case['containers'][op[1]])) >= 2:
            return None     # which passthrough rule is created first depends on set iteration order
        out.append(st['res'])
        a = st['after']
        out.extend(dump_rows(a['rules']) + dump_rows(a['specs']) + dump_rows(a['ipset']) + dump_rows(a['net']))
    return out


# ------------------------------------------------------------------ oracle
EMPTY = {'rules': [], 'specs': [], 'ipset': [], 'net': []}


def _mine(snap, m, shared_vip):
    """what of the host belongs to container m: entries it owns, ip-set rows of its vip"""
    return ([r for r in snap['rules'] if r[-1] == m['uniq']], [s for s in snap['specs'] if s[-1] == m['uniq']],
            [] if shared_vip else [r for r in snap['ipset'] if r[1] == m['vip']])


def _others(snap, m):
    return ([r for r in snap['rules'] if r[-1] != m['uniq']], [s for s in snap['specs'] if s[-1] != m['uniq']],
            [r for r in snap['ipset'] if r[1] != m['vip']])


def oracle(case, obs):
    out = []

    def bad(sig, what):
        if sig not in [s for s, _w in out]:
            out.append((sig, what))
    ms = case['containers']
    before = EMPTY
    prev = None        # (op, snapshot before it, result) of the previous step
    for n, (op, st) in enumerate(zip(case['ops'], obs['steps'])):
        after = st['after']
        k, i = op
        m = ms[i]
        shared = any(o['vip'] == m['vip'] for j, o in enumerate(ms) if j != i)
        where = 'op %d %r' % (n, op)
        if k in ('start', 'finish'):
            if _others(before, m) != _others(after, m):
                bad('%s-touched-another-container' % k,
                    '%s: entries of other containers changed: %r -> %r' % (where, _others(before, m), _others(after, m)))
        if k == 'finish' and [m['uniq']] in before['net']:
            if st['res'] != 0:
                bad('finish-raised', '%s: %s' % (where, st['err']))
            left = _mine(after, m, shared)
            if any(left):
                bad('finish-left-registration', '%s: still registered for the finished container: %r' % (where, left))
            if [m['uniq']] in after['net']:
                bad('finish-left-registration', '%s: network resource not released' % where)
        if k == 'finish' and [m['uniq']] not in before['net'] and after != before:
            bad('finish-without-network-changed-host', where)
        if k == 'finish' and prev and prev[0] == ['finish', i] and after != before:
            bad('finish-not-idempotent', '%s: a repeated finish changed the host' % where)
        if k == 'finish' and prev and prev[0] == ['start', i] and prev[2] == 0 and not shared \
                and not any(_mine(prev[1], m, shared)) and [m['uniq']] in prev[1]['net']:
            want = dict(prev[1], net=[x for x in prev[1]['net'] if x != [m['uniq']]])
            if after != want:
                bad('start-finish-not-identity', '%s: host before start %r, after finish %r' % (where, want, after))
        prev = (op, before, st['res'])
        before = after
    return out or None


# ------------------------------------------------------------------ model terms
def t_manifest(m, pid):
    eps = G.lst(['{| e_name := %s; e_proto := %s; e_port := %s; e_rport := %s; e_infra := %s |}'
                 % (G.z(e['name']), G.z(e['proto']), G.z(e['port']), G.z(e['real_port']), G.b(e['infra']))
                 for e in m['eps']])
    return ('{| m_uniq := %s; m_app := %s; m_pid := %s; m_net := {| n_vip := %s; n_ext := %s |}; m_eps := %s; '
            'm_eph_tcp := %s; m_eph_udp := %s; m_pt := %s; m_vring := %s |}'
            % (G.z(m['uniq']), G.z(100 + m['app']), G.z(pid), G.z(m['vip']), G.z(m['ext']), eps,
               G.zlist(m['eph_tcp']), G.zlist(m['eph_udp']), G.zlist(m['pt']), G.b(m['vring'])))


def case_term(case, obs):
    dns = G.lst([G.pair(G.z(h), G.z(ip)) for h, ip in enumerate(case['dns'])])
    ms = G.lst([t_manifest(m, obs['pid']) for m in case['containers']])
    names = {'net_put': 'CNetPut', 'net_del': 'CNetDel', 'start': 'CStart', 'finish': 'CFinish'}
    ops = G.lst(['%s %s' % (names[k], G.nat(i)) for k, i in case['ops']])
    return G.pair(dns, ms, ops)


def nontrivial(case, obs):
    """a container with at least two kinds of registrations was started and finished while another
    container's registrations were on the host"""
    ms = case['containers']
    started = {}
    before = EMPTY
    for op, st in zip(case['ops'], obs['steps']):
        k, i = op
        if k == 'start' and st['res'] == 0:
            started[i] = True
        if k == 'finish' and started.get(i) and [ms[i]['uniq']] in before['net']:
            m = ms[i]
            kinds = sum(bool(x) for x in (m['eps'], m['eph_tcp'] or m['eph_udp'], m['pt'], m['vring']))
            if kinds >= 2 and any(_others(before, m)):
                return True
        before = st['after']
    return False


def _extra(_r, cases, obs):
    dist = {'containers': {}, 'ops': {}, 'start_failed': 0, 'finish_repeated': 0, 'finish_without_network': 0,
            'endpoints': {}, 'ephemeral': {}, 'passthrough_hosts': {}, 'vring': 0, 'infra_endpoints': 0,
            'shared_vip_cases': 0, 'same_instance_two_generations': 0, 'passthrough_attr_absent': 0}
    for c, o in zip(cases, obs):
        ms = c['containers']
        dist['containers'][str(len(ms))] = dist['containers'].get(str(len(ms)), 0) + 1
        if len({m['vip'] for m in ms}) < len(ms):
            dist['shared_vip_cases'] += 1
        if len({m['app'] for m in ms}) < len(ms):
            dist['same_instance_two_generations'] += 1
        for m in ms:
            for key, v in (('endpoints', len(m['eps'])), ('ephemeral', len(m['eph_tcp']) + len(m['eph_udp'])),
                           ('passthrough_hosts', len(m['pt']))):
                dist[key][str(v)] = dist[key].get(str(v), 0) + 1
            dist['vring'] += int(m['vring'])
            dist['infra_endpoints'] += sum(e['infra'] for e in m['eps'])
            dist['passthrough_attr_absent'] += int(not m['pt_attr'])
        prev = None
        net = set()
        for op, st in zip(c['ops'], o['steps']):
            dist['ops'][op[0]] = dist['ops'].get(op[0], 0) + 1
            if op[0] == 'start' and st['res'] != 0:
                dist['start_failed'] += 1
            if op[0] == 'finish' and prev == op:
                dist['finish_repeated'] += 1
            if op[0] == 'finish' and op[1] not in net:
                dist['finish_without_network'] += 1
            net = {i for i, m in enumerate(ms) if [m['uniq']] in st['after']['net']}
            prev = op
    return {'distribution': dist}


TRUSTED = [
    'Coq 8.16.1 kernel (coqc); vm_compute for C16_templates_match, C16_port_ranges_disjoint, the Examples and for '
    'evaluating the model on the generated cases; no native_compute',
    'Print Assumptions: closed under the global context for every theorem of Props/C16.v',
    'translator harness/tables_c16.py: fail-closed AST pattern matching of _run._unshare_network and '
    '_finish._cleanup_network (+ inlined _cleanup_ephemeral_ports); statements it classifies as not touching '
    'rules/, endpoints/ or the ip-sets: logging, the firewall exception-rule plugin (try/except), '
    'newnet.create_newnet, iptables.flush_cnt_conntrack_table, network_client.get/delete',
    'hand-written interpreter Node/NetReg.v of the extracted programs (loops over the manifest, guards, '
    'RuleMgr/EndpointsMgr semantics shared with C14), tied by differential execution of the real functions on '
    'real rules/ and endpoints/ directories after every operation (cases_*.v + vm_compute)',
    'ip-sets, socket.gethostbyname, newnet, plugin_manager and the network service client are fakes inside the '
    'harness process; RuleMgr._filenameify/get_rule round-trip the rule file names (C15)',
    'modelled, not verified: symlink EEXIST / readlink / unlink semantics (as C14); "ipset add/del -exist" as '
    'idempotent set insertion/removal',
]
ASSUMPTIONS = [
    'DNS is stable between start and finish (the source carries a FIXME): the same resolver table on both sides; '
    'C16_dns_change_leaks exhibits what happens otherwise',
    'fresh start: nothing on the host is owned by the container yet, its rule / spec keys are free, no ip-set entry '
    'carries its vip, distinct endpoints have distinct spec keys (real ports are distinct bound sockets)',
    'containers of one host have distinct unique names; "entries of other containers" in the ip-sets means entries '
    'of another vip (the network service gives each container its own vip: C14)',
    'the manifest is the same object at start and finish (state.json); passthrough, when present, is a list',
    'statements run sequentially; a crash in the middle of _unshare_network is only modelled as the raising call '
    'aborting the function',
]


def run(tier, seed):
    # the real ports the registrations are built from (third anchored mechanism, runtime.allocate_network_ports):
    # Node/Ports.v, Props/C16Ports.v, harness/props/ports.py
    from . import ports

    def extra(r, cases, obs):
        cov = _extra(r, cases, obs)
        u = ports.stage(r, seed, tier)
        cov['extra_obligations'] = cov.get('extra_obligations', 0) + u.pop('ports_obligations')
        cov.update(u)
        return cov
    core.standard_run(PID, tier, seed, {
        'model_vos': ['Node/Owners', 'Node/NetReg', 'Gen/Tables'],
        'table_sections': ['c16', 'source_shape'] + list(ports.SECTIONS),
        'preamble': PREAMBLE, 'run_fn': RUN_FN, 'in_type': IN_TYPE,
        'gen_case': gen_case,
        'impl_run': impl_run,
        'expected': expected,
        'case_term': case_term,
        'oracle': oracle,
        'nontrivial': nontrivial,
        'n_quick': 240, 'n_thorough': 10000, 'search_quick': 1500, 'search_thorough': 50000,
        'corpus': 'c16.json', 'shard': 20,
        'rule': 'seeded generator (one random.Random(seed)); 1-3 containers per case, each with 0-6 tcp/udp endpoints '
                '(35% infra), 0-4 tcp and 0-2 udp ephemeral ports, 0-3 passthrough hosts (several hosts may resolve to '
                'one address; attribute present or absent), vring on/off; rare port / vip collisions and two '
                'generations of one instance; op sequences: all start then finish in random order with repeats, '
                'start+finish on a populated host, or random net_put/start/finish/net_del interleavings; '
                'non-trivial = a started container with >= 2 kinds of registrations is finished while other '
                'containers\' entries are on the host',
        'trusted': list(TRUSTED) + list(ports.TRUSTED), 'assumptions': list(ASSUMPTIONS) + list(ports.ASSUMPTIONS),
        'anchors': ANCHORS, 'extra': extra,
    })


def replay_case(case):
    if isinstance(case, dict) and case.get('engine') == 'E-ports':
        from . import ports
        return ports.replay_case(case)
    v = oracle(case, impl_run(case))
    return v[0] if v else None
