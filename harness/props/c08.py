"""C08 on E-cell histories (Props/C08.v, harness/ecell_oracles.py) plus a master-level stage (harness/props/c08master.py,
Master/SrvState.v): the Loader's server-state bookkeeping compared with its model operation by operation, and the
retention clause checked on the real Master against the harness's own record of when each server went down."""
from .. import core
from . import _ecell_prop as E
from . import c08master

PID = 'C08'
PROFILE_C08 = {'failure': 0.9, 'blacklist': 0.4, 'pressure': 0.5, 'identity': 0.3, 'frozen': 0.45}
RULE_C08 = ('C08 profile: servers going down/up/frozen with clock ticks around each retention boundary, blacklist '
            'changes, unschedule marks, capacity pressure; plus a master-level stage: E-master histories (presence lost '
            'and regained - also while no master is looking -, master restarts, server records reloaded, ticks around '
            'the retention times) on the real Master: per server and operation the in-memory (state, since), the stored '
            'record and the presence node are compared with Master/SrvState.v, and the retention clause is checked '
            'after every cycle against the harness\'s own record of when each server went down')


def run(tier, seed):
    spec = E.make_spec(PID, PROFILE_C08, RULE_C08)
    spec['anchors'] = list(spec['anchors']) + ['lib/python/treadmill/scheduler/loader.py',
                                               'lib/python/treadmill/scheduler/master.py']
    spec['trusted'] = list(spec['trusted']) + [
        'hand-written model coq/theories/Master/SrvState.v of Loader.adjust_server_state / adjust_presence / load_server / '
        'reload_server and Master._handle_server_state_event / _record_server_state for one server (in-memory state and '
        'since, stored record, presence node), tied by differential execution on E-master histories (every operation of '
        'every server); a master restart is observed after load_model and the first presence callback together',
    ]
    inner = spec['extra']

    def extra(r, cases, obs):
        cov = inner(r, cases, obs)
        cov.update(c08master.stage(r, seed, 80 if tier == 'quick' else 4000))
        return cov
    spec['extra'] = extra
    # data_retention_timeout as declared in the manifest against what the scheduler holds (the retention oracle itself is
    # c08master's, which keeps its own record of server states)
    spec = E.with_master_stage(spec, PID, tier, seed, use_oracle=False)
    core.standard_run(PID, tier, seed, spec)


def replay_case(case):
    if isinstance(case, dict) and case.get('engine') == 'E-master-c08':
        return c08master.replay(case['case'])
    return E.replay(PID, case)
