"""C08 on E-cell histories (Props/C08.v, harness/ecell_oracles.py) plus a master-level stage: the statement's retention
clause on the real Master/Loader (server state records, restarts, server reloads) over an in-memory backend."""
import random

from .. import core
from . import _ecell_prop as E

PID = 'C08'
PROFILE_C08 = {'failure': 0.9, 'blacklist': 0.4, 'pressure': 0.5, 'identity': 0.3, 'frozen': 0.45}
RULE_C08 = ('C08 profile: servers going down/up/frozen with clock ticks around each retention boundary, blacklist '
            'changes, unschedule marks, capacity pressure; plus a master-level stage: E-master histories (presence lost '
            'and regained, master restarts, server records reloaded, ticks around the retention times) on the real '
            'Master, the retention clause checked after every cycle against the harness\'s own record of when each '
            'server went down')


class _Tracker:
    """The harness's own view of the history: when each server went down (independent of the scheduler's `since` and
    of the state records in the store) and which instances sat on it after the previous cycle."""

    def __init__(self, emaster):
        self.em = emaster
        self.down_since = {}     # server name -> time it went down (first down event while it was up)
        self.dirty = set()       # servers whose record was rewritten / state event since the previous cycle
        self.prev_on = {}        # server name -> {instance name} after the previous cycle
        self.prev_master = None  # the Master object that ran the previous cycle (a different one = restarted since)
        self.prev_time = None    # when the previous cycle was observed
        self.hits = []

    def on_op(self, w, op):
        k = op[0]
        if k in ('PresenceDown', 'PresenceUp', 'PresenceUpRaw', 'PresenceBounce', 'ServerState'):
            name = self.em.sname(op[1])
            if k == 'PresenceDown':
                self.down_since.setdefault(name, w.now)
            elif k in ('PresenceUp', 'PresenceUpRaw'):
                self.down_since.pop(name, None)
            elif k == 'ServerState':
                # an explicit state event (frozen / up / down) is outside the retention clause checked here
                self.down_since.pop(name, None)
                self.dirty.add(name)
        elif k == 'ServerRecord':
            self.dirty.add(self.em.sname(op[1]['id']))
        elif k == 'ServerDeleteApi':
            name = self.em.sname(op[1])
            self.down_since.pop(name, None)
            self.dirty.add(name)

    def after_cycle(self, w, where):
        cell = w.m.cell
        sched = w.scheduler_mod if hasattr(w, 'scheduler_mod') else None
        now = w.now
        members = cell.members()
        restarted = self.prev_master is not None and self.prev_master is not w.m
        self.prev_master = w.m
        for name, t0 in sorted(self.down_since.items()):
            if name in self.dirty or name not in members:
                continue
            if restarted and (self.prev_time is None or t0 > self.prev_time):
                # the server was up across a master restart whose start-up cycle was not observed: what sat on it
                # before that restart says nothing about what the new master found there
                continue
            for aname in sorted(self.prev_on.get(name, ())):
                app = cell.apps.get(aname)
                if app is None or app.blacklisted:
                    continue
                if getattr(app, 'final_rank', None) is not None and sched is not None \
                        and app.final_rank == sched._UNPLACED_RANK:
                    continue
                grp = app.identity_group_ref
                if grp is not None and app.identity is not None and app.identity >= grp.count:
                    continue
                drt = app.data_retention_timeout or 0
                still = app.server == name
                if now < t0 + drt and not still:
                    sig = 'master:removed-from-down-server-within-retention'
                    if restarted and app.lease:
                        # Loader.restore_placement re-evaluates the lease of an instance on a server without presence
                        sig += ':lease-reevaluated-at-restart'
                    self.hits.append((sig,
                                      '%s: %s left %s at %s although it went down at %s and retention is %ss'
                                      % (where, aname, name, now, t0, drt)))
                if now >= t0 + drt and still:
                    self.hits.append(('master:kept-on-down-server-after-retention',
                                      '%s: %s still on %s at %s, down since %s, retention %ss'
                                      % (where, aname, name, now, t0, drt)))
        self.prev_on = {n: set(s.apps) for n, s in members.items()}
        self.prev_time = now
        self.dirty = set()


def _run_master_history(case):
    from .. import emaster
    tr = _Tracker(emaster)
    orig_apply = emaster.World.apply

    def apply(w, op):
        tr.on_op(w, op)
        return orig_apply(w, op)
    emaster.World.apply = apply
    try:
        res = emaster.run_history(case, crash_points=False, want=(), cell_hook=tr.after_cycle)
    finally:
        emaster.World.apply = orig_apply
    return tr.hits, res


def master_stage(r, seed, n):
    from .. import emaster
    rng = random.Random(seed + 13)
    cycles = 0
    tot = 0
    down_checked = 0
    for _ in range(n):
        case = emaster.gen_case(rng, profile='c08')
        for a in case['apps']:
            if rng.random() < 0.7:
                a[1]['drt'] = rng.choice([30, 300])
        for op in case['ops']:
            if op[0] == 'Schedule' and rng.random() < 0.7:
                op[2]['drt'] = rng.choice([30, 300])
        try:
            hits, res = _run_master_history(case)
        except Exception as exc:   # noqa
            r.broken_obligation('correspondence', 'C08 master stage could not drive the master: %s: %s'
                                % (type(exc).__name__, str(exc)[:200]))
            break
        cycles += res.get('stats', {}).get('cycles', 0) if isinstance(res, dict) else 0
        seen = set()
        for sig, what in hits:
            if sig in seen:
                continue
            seen.add(sig)
            tot += 1
            r.violation(sig, what, {'engine': 'E-master-c08', 'case': case})
        down_checked += sum(1 for op in case['ops'] if op[0] == 'PresenceDown')
    return {'master_stage': {'histories': n, 'master_cycles': cycles, 'presence_down_events': down_checked,
                             'violations': tot}}


def run(tier, seed):
    spec = E.make_spec(PID, PROFILE_C08, RULE_C08)
    spec['anchors'] = list(spec['anchors']) + ['lib/python/treadmill/scheduler/loader.py',
                                               'lib/python/treadmill/scheduler/master.py']
    inner = spec['extra']

    def extra(r, cases, obs):
        cov = inner(r, cases, obs)
        cov.update(master_stage(r, seed, 80 if tier == 'quick' else 4000))
        return cov
    spec['extra'] = extra
    core.standard_run(PID, tier, seed, spec)


def replay_case(case):
    if isinstance(case, dict) and case.get('engine') == 'E-master-c08':
        hits, _res = _run_master_history(case['case'])
        return hits[0] if hits else None
    return E.replay(PID, case)
