"""C08 on E-cell histories (Props/C08.v, harness/ecell_oracles.py)."""
from .. import core
from . import _ecell_prop as E

PID = 'C08'
PROFILE_C08 = {'failure': 0.9, 'blacklist': 0.4, 'pressure': 0.5, 'identity': 0.3, 'frozen': 0.45}
RULE_C08 = 'C08 profile: servers going down/up/frozen with clock ticks around each retention boundary, blacklist changes, unschedule marks, capacity pressure'


def run(tier, seed):
    spec = E.make_spec(PID, PROFILE_C08, RULE_C08)
    core.standard_run(PID, tier, seed, spec)


def replay_case(case):
    return E.replay(PID, case)
