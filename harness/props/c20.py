"""C20: sproc.appmonitor (reevaluate + the watch callbacks of _run_sync) vs Mon/AppMon.v.

The implementation is driven from outside: the REAL `_run_sync` loop runs against a fake
ZooKeeper client (ChildrenWatch / ExistingDataWatch callbacks fired by the scenario), a fake
`time` (virtual clock; `sleep` advances the scenario to its next evaluation), a fake cell API
behind `restclient.post` (creates / deletes instances, raises every handled exception class),
a recording `alert.create` and `zkutils.update`.  Every `reevaluate` call is wrapped to
snapshot state before and after.  Nothing in /repo is edited.
"""
import json
import math
import sys
import types
from fractions import Fraction

from .. import core, gallina as G

PID = 'C20'
ANCHORS = ['lib/python/treadmill/sproc/appmonitor.py', 'lib/python/treadmill/scheduler/masterapi.py',
           'lib/python/treadmill/api/instance.py']
PREAMBLE = ('From Coq Require Import ZArith List.\nImport ListNotations.\n'
            'From TM Require Import Mon.AppMon Gen.Tables.\nOpen Scope Z_scope.\n')
RUN_FN = '(run_case c20_consts)'
IN_TYPE = 'Z * Z * list Z * list event'

APPS = ['proid.app%d' % i for i in range(6)]
APPID = {a: i + 1 for i, a in enumerate(APPS)}
POLICIES = {None: 'PNone', 'fifo': 'PFifo', 'lifo': 'PLifo'}
RESULTS = {'ok': 'RSuccess', 'notfound': 'RNotFound', 'badrequest': 'RBadRequest', 'validation': 'RValidation'}
OTHER = ['MaxRequestRetriesError', 'NotAuthorizedError', 'AlreadyExistsError', 'TooManyRequestsError',
         'NoApiEndpointsError', 'OSError']
ALERTS = {'Monitor active again': 1, 'Monitor suspended: Rate limited': 2,
          'Monitor suspended: App not configured': 3, 'Monitor suspended: Unable to start': 4,
          'Monitor suspended: Invalid manifest': 5}


# ------------------------------------------------------------------ generator
def _gen_results(rng, apps):
    res = {}
    for a in apps:
        x = rng.random()
        if x < 0.70:
            continue
        if x < 0.78:
            res[a] = 'notfound'
        elif x < 0.84:
            res[a] = 'badrequest'
        elif x < 0.90:
            res[a] = 'validation'
        else:
            res[a] = 'other:%s%s' % (rng.choice(OTHER), ':applied' if rng.random() < 0.3 else '')
    return res


def gen_case(rng, i=0):
    tps = rng.choice([1, 1, 4, 8])
    base = rng.choice([1000, 86400 * 365, 1500000000]) + rng.randint(0, 5000)
    napps = rng.randint(1, 4)
    apps = rng.sample(APPS, napps)
    dyadic = rng.random() < 0.06          # rate = 225 * 2 / 3600 = 1/8 token per second: exact in floats
    counts = {}
    for a in apps:
        counts[a] = rng.choice([0, 1, 1, 2, 2, 3, 3, 4, 5, 6, 9])
    if dyadic:
        counts[apps[0]] = 225
    evs = []
    for a in apps:
        evs.append(['cfg', a, counts[a], rng.choice([None, None, 'fifo', 'lifo'])])
        if rng.random() < 0.3:
            evs.append(['adv', rng.randint(0, 3 * tps)])
        if rng.random() < 0.4:
            evs.append(['spawn', a, rng.randint(0, counts[a] + 2) if counts[a] < 50 else counts[a] - rng.randint(0, 3)])
    evs.append(['sync'])
    nsteps = rng.randint(4, 10) if dyadic else rng.randint(6, 24)
    fast = rng.random() < 0.5              # instances die often: the bucket drains, rate limiting shows
    for _ in range(nsteps):
        x = rng.random()
        if x < 0.65:
            evs.append(['adv', tps * rng.choice([1, 1, 1, 2, 5])])
        elif x < 0.75:
            evs.append(['adv', rng.randint(0, 2 * tps)])
        elif x < 0.92:
            evs.append(['adv', rng.choice([60, 299, 300, 301, 450, 600, 900, 1800, 3600, 7200]) * tps
                        + rng.choice([0, 0, 1, rng.randint(0, tps)])])
        else:
            evs.append(['adv', rng.randint(0, 4000 * tps)])
        for a in apps:
            y = rng.random()
            if y < (0.6 if fast else 0.25):
                evs.append(['kill', a, rng.randint(1, 3), rng.choice(['old', 'new', 'mid'])])
            elif y < (0.7 if fast else 0.4):
                evs.append(['spawn', a, rng.randint(1, 3)])
        y = rng.random()
        a = rng.choice(APPS[:5]) if rng.random() < 0.2 else rng.choice(apps)
        if y < 0.10:
            c = counts.get(a, 2)
            newc = c if rng.random() < 0.3 else max(0, c + rng.choice([-2, -1, 1, 2, 3])) if c < 50 else c - 2
            counts[a] = newc
            evs.append(['cfg', a, newc, rng.choice([None, 'fifo', 'lifo', 'lifo'])])
        elif y < 0.14:
            evs.append(['rm', a])
        elif y < 0.17:
            evs.append(['badcfg', a, rng.choice(['nocount', 'garbage'])])
        elif y < 0.18:
            evs.append(['cfg', a, counts.get(a, 2), 'random'])     # a policy the schema would reject
        if rng.random() < 0.88:
            evs.append(['sync'])
        evs.append(['eval', _gen_results(rng, apps)])
    waited0 = [a for a in apps if rng.random() < 0.2]
    return {'tps': tps, 'base': base, 'waited0': waited0, 'events': evs}


# ------------------------------------------------------------------ implementation driver
_IMPL = None


def impl():
    global _IMPL
    if _IMPL is None:
        sys.path.insert(0, core.PYLIB)
        import logging
        logging.disable(logging.CRITICAL)
        from treadmill.sproc import appmonitor
        from treadmill import restclient, zkutils, zknamespace, utils, alert
        _IMPL = types.SimpleNamespace(appmonitor=appmonitor, restclient=restclient, zkutils=zkutils,
                                      z=zknamespace, utils=utils, alert=alert,
                                      real_reevaluate=appmonitor.reevaluate)
    return _IMPL


class _Stop(Exception):
    pass


class _WatchDied(Exception):
    pass


class _Proxy:
    """module proxy: attributes of `over` first, everything else from the real module"""

    def __init__(self, real, **over):
        self.__dict__['_real'] = real
        self.__dict__.update(over)

    def __getattr__(self, name):
        return getattr(self._real, name)


class _Resp:
    text = 'fake'

    def json(self):
        return {'message': 'fake response'}


def _inst_id(name):
    return int(name.rpartition('#')[2])


def _app_of(name):
    return name.rpartition('#')[0]


class Scenario:
    def __init__(self, case):
        self.case = case
        self.m = impl()
        self.tps = case['tps']
        self.ticks = case['base'] * self.tps
        self.events = case['events']
        self.pos = 0
        self.nodes = {}            # monitor name -> data bytes
        self.data_watch = {}       # monitor name -> [callbacks]
        self.child_watch = {}      # path -> [callbacks]
        self.instances = []        # the cell: scheduled instance names
        self.next_id = 1
        self.cur_results = {}
        self.model_events = []
        self.evals = []
        self.cur = None
        self.last_sched = None
        self.conf_ref = {}         # name -> (conf dict object, generation): a reconfigure installs a new dict
        self.p_sched = self.m.z.path.scheduled()
        self.p_mon = self.m.z.path.appmonitor()

    # --- fake time module
    def time(self):
        return self.ticks / self.tps       # exact: tps is a power of two, ticks < 2**40

    def sleep(self, _secs):
        while self.pos < len(self.events):
            ev = self.events[self.pos]
            self.pos += 1
            if ev[0] == 'eval':
                self.cur_results = ev[1]
                return
            self.apply(ev)
        raise _Stop()

    # --- fake kazoo client
    def ChildrenWatch(self, path):
        def deco(func):
            self.child_watch.setdefault(path, []).append(func)
            func(self.children(path))
            return func
        return deco

    def children(self, path):
        if path == self.p_sched:
            return list(reversed(self.instances))      # unsorted on purpose: the real code sorts
        if path == self.p_mon:
            return list(self.nodes)
        raise AssertionError('unexpected path %r' % path)

    def get(self, path, watch=None):
        assert path == self.p_mon, path
        data = {a: 12345.0 for a in self.case['waited0']}
        return (json.dumps(data).encode() if data else None), None

    def existing_data_watch(self, _client, path):
        name = path.rsplit('/', 1)[1]

        def deco(func):
            self.data_watch.setdefault(name, []).append(func)
            if name in self.nodes:
                func(self.nodes[name], object(), None)
            else:
                func(None, None, None)
            return func
        return deco

    def fire_children(self, path):
        for f in list(self.child_watch.get(path, [])):
            f(self.children(path))

    # --- scenario events
    def apply(self, ev):
        kind = ev[0]
        if kind == 'adv':
            self.ticks += ev[1]
            self.model_events.append(['adv', ev[1]])
        elif kind == 'cfg':
            _k, app, count, pol = ev
            d = {'count': count}
            if pol is not None or count % 2:
                d['policy'] = pol
            self.set_node(app, json.dumps(d).encode())
            self.model_events.append(['cfg', app, count, pol])
        elif kind == 'badcfg':
            self.set_node(ev[1], b'{"policy": "fifo"}' if ev[2] == 'nocount' else b'{{{ not yaml')
        elif kind == 'rm':
            app = ev[1]
            if app in self.nodes:
                del self.nodes[app]
                for f in self.data_watch.pop(app, []):
                    f(None, None, types.SimpleNamespace(type='DELETED'))
                self.fire_children(self.p_mon)
            self.model_events.append(['rm', app])
        elif kind == 'sync':
            self.fire_children(self.p_sched)
        elif kind == 'kill':
            _k, app, n, which = ev
            mine = [x for x in self.instances if _app_of(x) == app]
            if which == 'old':
                dead = mine[:n]
            elif which == 'new':
                dead = mine[-n:]
            else:
                dead = mine[len(mine) // 2:len(mine) // 2 + n]
            self.instances = [x for x in self.instances if x not in dead]
        elif kind == 'spawn':
            self.create(ev[1], ev[2])
        else:
            raise AssertionError(ev)

    def set_node(self, app, data):
        new = app not in self.nodes
        self.nodes[app] = data
        if new:
            self.fire_children(self.p_mon)
        else:
            for f in list(self.data_watch.get(app, [])):
                f(data, object(), types.SimpleNamespace(type='CHANGED'))

    def create(self, app, n):
        out = []
        for _ in range(n):
            out.append('%s#%010d' % (app, self.next_id))
            self.next_id += 1
        self.instances.extend(out)
        return out

    # --- fake cell API behind restclient.post
    def post(self, api, url, payload=None, headers=None, **_kw):
        rc = self.m.restclient
        if url == '/instance/_bulk/delete':
            ids = list(payload['instances'])
            app = _app_of(ids[0]) if ids else '?'
            call = {'kind': 'delete', 'app': app, 'ids': ids}
        else:
            assert url.startswith('/instance/'), url
            app, _q, cnt = url[len('/instance/'):].partition('?count=')
            call = {'kind': 'create', 'app': app, 'count': int(cnt)}
        call['trusted'] = (headers or {}).get('X-Treadmill-Trusted-Agent') == 'monitor'
        res = self.cur_results.get(app, 'ok')
        call['result'] = res
        self.cur['calls'].append(call)
        applied = res == 'ok' or res.endswith(':applied')
        if applied:
            if call['kind'] == 'create':
                made = self.create(app, call['count'])
            else:
                self.instances = [x for x in self.instances if x not in call['ids']]
                made = []
        if res == 'ok':
            return made
        if res == 'notfound':
            raise rc.NotFoundError('not found')
        if res == 'badrequest':
            raise rc.BadRequestError(_Resp())
        if res == 'validation':
            raise rc.ValidationError(_Resp())
        cls = res.split(':')[1]
        if cls == 'OSError':
            raise OSError('connection reset')
        if cls == 'MaxRequestRetriesError':
            raise rc.MaxRequestRetriesError(5)
        if cls in ('NotAuthorizedError', 'TooManyRequestsError'):
            raise getattr(rc, cls)(_Resp())
        raise getattr(rc, cls)('fake')

    # --- recording wrappers
    def alert_create(self, _alerts_dir, type_=None, instanceid=None, summary=None, **kwargs):
        self.cur['alerts'].append([instanceid.split('/', 1)[1], ALERTS.get(summary, 99), kwargs.get('status')])

    def zk_update(self, _zkclient, path, data, **_kw):
        self.cur['zk_updates'].append([path, sorted(data)])

    def floor(self, x):
        self.cur['floor_args'].append(x)
        return math.floor(x)

    def snap_monitors(self, state):
        return [[n, c['count'], c['available'], c['last_update'], c.get('policy')]
                for n, c in state['monitors'].items()]

    def reevaluate(self, api_url, alert_f, state, zkclient, last_waited):
        sched = {a: [_inst_id(x) for x in l] for a, l in state['scheduled'].items() if l}
        if sched != self.last_sched:
            self.last_sched = sched
            self.model_events.append(['sched', sorted(sched.items())])
        self.model_events.append(['eval', dict(self.cur_results)])
        gen = {}
        for n, c in state['monitors'].items():
            ref = self.conf_ref.get(n)
            if ref is None or ref[0] is not c:
                ref = self.conf_ref[n] = (c, (ref[1] + 1) if ref else 0)
            gen[n] = ref[1]
        self.cur = {'ticks': self.ticks, 'gen': gen, 'pre_monitors': self.snap_monitors(state), 'sched': sched,
                    'sched_names_ok': all(_app_of(x) == a for a, l in state['scheduled'].items() for x in l),
                    'pre_suspended': [[n, u] for n, u in state['suspended'].items()],
                    'last_waited': list(last_waited), 'calls': [], 'alerts': [], 'zk_updates': [], 'floor_args': []}
        ret = self.m.real_reevaluate(api_url, alert_f, state, zkclient, last_waited)
        self.cur['post_monitors'] = self.snap_monitors(state)
        self.cur['post_suspended'] = [[n, u] for n, u in state['suspended'].items()]
        self.cur['returned'] = list(ret)
        self.evals.append(self.cur)
        return ret

    def run(self):
        m = self.m
        am = m.appmonitor

        def die(_code=0):
            raise _WatchDied('utils.sys_exit called from a watch callback')
        _missing = object()
        saved = {k: getattr(am, k, _missing) for k in ('time', 'restclient', 'zkutils', 'zkwatchers', 'alert',
                                                       'context', 'math', 'reevaluate')}
        saved_exit = m.utils.sys_exit
        am.time = types.SimpleNamespace(time=self.time, sleep=self.sleep)
        am.restclient = _Proxy(m.restclient, post=self.post)
        am.zkutils = _Proxy(m.zkutils, update=self.zk_update)
        am.zkwatchers = types.SimpleNamespace(ExistingDataWatch=self.existing_data_watch)
        am.alert = _Proxy(m.alert, create=self.alert_create)
        am.context = types.SimpleNamespace(
            GLOBAL=types.SimpleNamespace(zk=types.SimpleNamespace(conn=self), cell='cell1'))
        am.math = _Proxy(math, floor=self.floor)
        am.reevaluate = self.reevaluate
        m.utils.sys_exit = die
        crashed = None
        try:
            am._run_sync('http://cellapi', '/nonexistent/alerts', False)
        except _Stop:
            pass
        except Exception as e:      # the monitor loop died
            crashed = '%s: %s' % (type(e).__name__, e)
        finally:
            for k, v in saved.items():
                if v is _missing:
                    if hasattr(am, k):
                        delattr(am, k)
                else:
                    setattr(am, k, v)
            m.utils.sys_exit = saved_exit
        return {'model_events': self.model_events, 'evals': self.evals, 'crashed': crashed}


def impl_run(case):
    return Scenario(case).run()


# ------------------------------------------------------------------ constants from the source (same as the table)
_K = None


def consts():
    global _K
    if _K is None:
        from .. import tables_c20
        try:
            _K = tables_c20.c20_constants()
        except Exception:      # translator failure is reported by the tables obligation; keep the harness alive
            _K = {'k_interval': 3600, 'k_delay': 300, 'k_cap': 2, 'k_init': 2, 'k_rate': 2}
    return _K


# ------------------------------------------------------------------ flattening of the implementation's observables
def _lattice(x, scale):
    return int(round(x * scale))


def ambiguous(case, obs):
    """float floor vs exact floor can differ only when the exact token count is an integer that the float
    misses: exact values live on the lattice 1/scale, so test the nearest lattice point."""
    scale = consts()['k_interval'] * case['tps']
    for e in obs['evals']:
        for x in e['floor_args']:
            r = _lattice(x, scale)
            if abs(x * scale - r) < 1e-3 and r % scale == 0 and x != r // scale:
                return True
    return False


def expected(case, obs):
    if obs['crashed'] or ambiguous(case, obs):
        return None if not obs['crashed'] else [-1]
    tps = case['tps']
    scale = consts()['k_interval'] * tps
    out = []
    for e in obs['evals']:
        out.append(len(e['calls']))
        for c in e['calls']:
            if c['kind'] == 'create':
                out += [1, APPID.get(c['app'], 0), c['count']]
            else:
                out += [2, APPID.get(c['app'], 0), len(c['ids'])] + [_inst_id(x) for x in c['ids']]
        out.append(len(e['post_monitors']))
        for n, count, avail, last, _pol in e['post_monitors']:
            out += [APPID[n], count, _lattice(avail, scale), int(round(last * tps))]
        out.append(len(e['post_suspended']))
        for n, u in e['post_suspended']:
            out += [APPID[n], int(round(u * tps))]
        out.append(len(e['returned']))
        out += [APPID[n] for n in e['returned']]
        out += [1 if e['zk_updates'] else 0, len(e['alerts'])]
        for n, k, _st in e['alerts']:
            out += [APPID[n], k]
    return out


# ------------------------------------------------------------------ model terms
def t_policy(p):
    return POLICIES.get(p, 'POther')


def t_result(r):
    return RESULTS.get(r, 'ROther')


def t_ids(ids):
    """instance id list as concatenated ranges"""
    parts, i = [], 0
    while i < len(ids):
        j = i
        while j + 1 < len(ids) and ids[j + 1] == ids[j] + 1:
            j += 1
        n = j - i + 1
        if n >= 4:
            parts.append('zrange %s %s' % (G.z(ids[i]), G.nat(n)))
        else:
            parts.append(G.zlist(ids[i:j + 1]))
        i = j + 1
    return '(' + ' ++ '.join(parts) + ')' if parts else '[]'


def t_event(ev):
    k = ev[0]
    if k == 'adv':
        return 'EAdvance %s' % G.z(ev[1])
    if k == 'cfg':
        return 'EConfigure %s %s %s' % (G.z(APPID[ev[1]]), G.z(ev[2]), t_policy(ev[3]))
    if k == 'rm':
        return 'ERemove %s' % G.z(APPID[ev[1]])
    if k == 'sched':
        return 'EScheduled %s' % G.lst([G.pair(G.z(APPID[a]), t_ids(ids)) for a, ids in ev[1]])
    if k == 'eval':
        return 'EEval %s' % G.lst([G.pair(G.z(APPID[a]), t_result(r)) for a, r in sorted(ev[1].items())])
    raise AssertionError(ev)


def case_term(case, obs):
    return G.pair(G.z(case['tps']), G.z(case['base'] * case['tps']), G.zlist([APPID[a] for a in case['waited0']]),
                  G.lst([t_event(e) for e in obs['model_events']]))


# ------------------------------------------------------------------ oracle: the statement, on the implementation's calls
EPS = Fraction(1, 10 ** 6)
CANON = {'k_interval': 3600, 'k_cap': 2, 'k_init': 2, 'k_rate': 2}


def oracle(case, obs):
    """Each check is the property text applied to what the real code was seen to do.  The constants are the
    property's (twice the target per hour), NOT the source's: an edited _INTERVAL must show up here."""
    K = CANON
    out = []

    def bad(sig, what):
        if sig not in [s for s, _w in out]:
            out.append((sig, what))
    if obs['crashed']:
        bad('monitor-loop-died', 'the monitor loop died: %s' % obs['crashed'])
    epoch = {}     # name -> [conf generation, tokens at epoch start, last_update then, rate, created since]
    for idx, e in enumerate(obs['evals']):
        now = Fraction(e['ticks'], case['tps'])
        pre = {n: (count, Fraction(avail), Fraction(last), pol) for n, count, avail, last, pol in e['pre_monitors']}
        post = {n: (count, Fraction(avail), Fraction(last), pol) for n, count, avail, last, pol in e['post_monitors']}
        sus = {n: Fraction(u) for n, u in e['pre_suspended']}
        per_app = {}
        for c in e['calls']:
            per_app.setdefault(c['app'], []).append(c)
        for app, calls in per_app.items():
            kinds = sorted(c['kind'] for c in calls)
            if 'create' in kinds and 'delete' in kinds:
                bad('create-and-delete-same-app', 'evaluation %d creates and deletes instances of %s' % (idx, app))
            elif len(calls) > 1:
                bad('repeated-call-same-app', 'evaluation %d issues %d %s calls for %s' % (idx, len(calls), kinds[0], app))
            if app not in pre:
                bad('action-for-removed-monitor', 'evaluation %d acts on %s which has no monitor' % (idx, app))
            elif sus.get(app, 0) > now:
                bad('action-for-suspended-monitor', 'evaluation %d acts on %s, suspended until %s, at %s'
                    % (idx, app, float(sus[app]), float(now)))
        for n, (count, avail, last, pol) in pre.items():
            suspended = sus.get(n, 0) > now
            insts = e['sched'].get(n, [])
            cur = len(insts)
            calls = per_app.get(n, [])
            # the budget this evaluation may use: tokens after the refill, capped
            budget = avail if suspended else min(avail + Fraction(K['k_rate'] * count, K['k_interval']) * (now - last),
                                                 Fraction(K['k_cap'] * count))
            if avail >= K['k_cap'] * count:
                budget = avail
            for c in calls:
                if c['kind'] == 'create':
                    if c['count'] < 1 or c['count'] > count - cur:
                        bad('create-exceeds-missing', 'evaluation %d asks for %d instances of %s, %d of %d are there'
                            % (idx, c['count'], n, cur, count))
                    if c['count'] > math.floor(budget + EPS):
                        bad('create-exceeds-token-budget', 'evaluation %d asks for %d instances of %s with %.6f tokens'
                            % (idx, c['count'], n, float(budget)))
                else:
                    if pol in (None, 'fifo'):
                        want = insts[:max(cur - count, 0)]
                    elif pol == 'lifo':
                        want = insts[count:] if cur > count else []
                    else:
                        want = None
                    got = [_inst_id(x) for x in c['ids']]
                    if any(_app_of(x) != n for x in c['ids']) or want is None or got != want:
                        bad('delete-not-exact-surplus', 'evaluation %d deletes %r of %s (policy %r, target %d, have %r)'
                            % (idx, got, n, pol, count, insts))
            if not suspended and cur > count and pol in (None, 'fifo', 'lifo') and not calls:
                bad('surplus-not-deleted', 'evaluation %d: %s has %d instances, target %d, nothing deleted'
                    % (idx, n, cur, count))
            if n in post:
                pavail = post[n][1]
                okc = sum(c['count'] for c in calls if c['kind'] == 'create' and c['result'] == 'ok')
                if suspended:
                    if pavail != avail:
                        bad('tokens-changed-while-suspended', 'evaluation %d changes the tokens of suspended %s' % (idx, n))
                elif abs(pavail - (budget - okc)) > EPS:
                    if pavail < budget - okc:
                        sig = 'tokens-deducted-without-success'
                    else:
                        sig = 'tokens-not-deducted-on-success' if okc else 'tokens-above-refill'
                    bad(sig, 'evaluation %d: %s had %.6f tokens after refill, %d created successfully, %.6f left'
                        % (idx, n, float(budget), okc, float(pavail)))
                if pavail < -EPS or pavail > K['k_cap'] * count + EPS:
                    bad('available-out-of-range', 'evaluation %d: %s has %.6f tokens, target %d'
                        % (idx, n, float(pavail), count))
            # budget over the sequence, per configuration epoch (a reconfigure starts a new, full bucket)
            ep = epoch.get(n)
            if ep is None or ep[0] != e['gen'][n]:
                ep = epoch[n] = [e['gen'][n], avail, last, Fraction(K['k_rate'] * count, K['k_interval']), 0]
            ep[4] += sum(c['count'] for c in calls if c['kind'] == 'create' and c['result'] == 'ok')
            if ep[4] > ep[1] + ep[3] * (now - ep[2]) + EPS:
                bad('sequence-budget-exceeded', '%s: %d instances created since t=%s with %.6f tokens then and rate '
                    '%.6f/s, now t=%s' % (n, ep[4], float(ep[2]), float(ep[1]), float(ep[3]), float(now)))
    return out or None


# ------------------------------------------------------------------ run
def nontrivial(case, obs):
    kinds = set()
    for e in obs['evals']:
        for c in e['calls']:
            kinds.add(c['kind'] if c['result'] == 'ok' else 'failed-' + c['kind'])
        if any(k == 2 for _n, k, _s in e['alerts']):
            kinds.add('rate-limited')
        if e['pre_suspended']:
            kinds.add('suspended')
    return 'create' in kinds and len(kinds) >= 3


def _extra(_r, cases, obs):
    d = {'evaluations_of_reevaluate': 0, 'create_calls': 0, 'delete_calls': 0, 'failed_calls': 0, 'rate_limited': 0,
         'evaluations_with_suspended_monitor': 0, 'fractional_token_floor': 0, 'lifo_deletes': 0, 'dyadic_cases': 0}
    kinds = {}
    for c, o in zip(cases, obs):
        d['dyadic_cases'] += any(ev[0] == 'cfg' and ev[2] >= 200 for ev in c['events'])
        for e in o['evals']:
            d['evaluations_of_reevaluate'] += 1
            pol = {n: p for n, _c, _a, _l, p in e['pre_monitors']}
            for call in e['calls']:
                d['create_calls' if call['kind'] == 'create' else 'delete_calls'] += 1
                if call['result'] != 'ok':
                    d['failed_calls'] += 1
                    k = call['result'].split(':')[1] if ':' in call['result'] else call['result']
                    kinds[k] = kinds.get(k, 0) + 1
                if call['kind'] == 'delete' and pol.get(call['app']) == 'lifo':
                    d['lifo_deletes'] += 1
            d['rate_limited'] += sum(1 for _n, k, _s in e['alerts'] if k == 2)
            d['evaluations_with_suspended_monitor'] += bool(e['pre_suspended'])
            d['fractional_token_floor'] += sum(1 for x in e['floor_args'] if x != int(x))
    d['failure_kinds'] = kinds
    return {'distribution': d}


TRUSTED = [
    'Coq 8.16.1 kernel (coqc); vm_compute for C20_constants_canonical / C20_params_ok and the Examples; no native_compute',
    'Print Assumptions: closed under the global context for every theorem of Props/C20.v',
    'translator harness/tables_c20.py (AST pattern match of _INTERVAL, _DELAY_INTERVAL, max_value = conf[count]*K, '
    "'available': K*count, 'rate': K*count/_INTERVAL; fail-closed)",
    'hand-written model Mon/AppMon.v of reevaluate and of the _run_sync watch callbacks, tied by differential '
    'execution of the real _run_sync loop (fake ZooKeeper client, fake time, fake cell API) against the model (cases.v + vm_compute)',
    'floats: the model keeps tokens as integers scaled by _INTERVAL*ticks-per-second; implementation floats are '
    'rounded to that lattice before comparison; a case in which math.floor saw a float that misses an integer lattice '
    'point is skipped and counted (ambiguous_skipped)',
    'Python dict / list slice / sorted / itertools.groupby semantics as written in the model (association lists, firstn/skipn)',
]
ASSUMPTIONS = [
    'monitor data as the REST schema admits: count an integer 0..1000, policy fifo / lifo / null (other policies: '
    'modelled, nothing is deleted)',
    'time.time() does not go backwards and is non-negative; clock drift inside one reevaluate call is not modelled',
    'watch callbacks do not run concurrently with reevaluate (the real code shares the state dict between threads without a lock)',
    'the scheduled-instance list seen by an evaluation is the input of that evaluation: watch lag after a successful '
    'POST (a second evaluation before /scheduled is updated) is environment behaviour, not excluded by the code',
    'alert_f and zkutils.update do not raise (alert_f raising after a successful POST would skip the token deduction)',
    'instance ids are zero padded to 10 digits, so the string order of the real sorted() is the numeric (age) order',
    'the cell API (api/instance.py) is the environment of the monitor: its outcome is oracle data (its quota check is Props/C20Quota.v)',
]


def run(tier, seed):
    # the instance API quotas (third anchored mechanism): Api/Quota.v, Props/C20Quota.v, harness/props/quota.py
    from . import quota

    def extra(r, cases, obs):
        cov = _extra(r, cases, obs)
        u = quota.stage(r, seed, tier)
        cov['extra_obligations'] = cov.get('extra_obligations', 0) + u.pop('quota_obligations')
        cov.update(u)
        from . import c20stats     # the stats the quota check reads are refreshed by every new leader
        cov.update(c20stats.stage(r, seed, 60 if tier == 'quick' else 1500))
        return cov
    core.standard_run(PID, tier, seed, {
        'model_vos': ['Mon/AppMon', 'Gen/Tables'], 'table_sections': ['c20', 'source_shape'] + list(quota.SECTIONS),
        'preamble': PREAMBLE, 'run_fn': RUN_FN, 'in_type': IN_TYPE,
        'gen_case': gen_case, 'impl_run': impl_run, 'expected': expected, 'case_term': case_term,
        'oracle': oracle, 'nontrivial': nontrivial,
        'n_quick': 600, 'n_thorough': 12000, 'search_quick': 3000, 'search_thorough': 60000, 'shard': 100,
        'corpus': 'c20.json',
        'rule': 'seeded generator: 1-4 monitors (targets 0..9, sometimes 225 so that the rate is a dyadic float), '
                'policies none/fifo/lifo/invalid, 6-24 evaluations of the real _run_sync loop under a virtual clock '
                '(steps of a fraction of a second up to hours, ticks of 1, 1/4 or 1/8 s), instances killed / spawned / '
                'watch lag between evaluations, monitors reconfigured / removed / given invalid data, every REST call '
                'answered by success or one of the handled exception classes; non-trivial = a successful create plus at '
                'least two of {delete, failed call, rate limited, suspended monitor present}',
        'trusted': TRUSTED + list(quota.TRUSTED), 'assumptions': ASSUMPTIONS + list(quota.ASSUMPTIONS),
        'anchors': ANCHORS + ['lib/python/treadmill/scheduler/master.py'], 'extra': extra,
    })


def replay_case(case):
    if isinstance(case, dict) and case.get('engine') == 'E-master-c20stats':
        from . import c20stats
        return c20stats.replay_case(case)
    if isinstance(case, dict) and case.get('engine') == 'E-quota':
        from . import quota
        return quota.replay_case(case)
    obs = impl_run(case)
    v = oracle(case, obs)
    return v[0] if v else None
