"""C01, last sentence: "capacities and demands mean the same quantity however they are spelled".

A STAGE of the C01 check (called from harness/props/c01.py), not a standalone check:

    cov.update(c01units.stage(r, seed, tier))

It ties Codec/Units.v (string-level model of utils.cpu_units / size_to_bytes / kilobytes / megabytes and
scheduler/loader.py resources) to the source: translator sections units_utils / units_resources, the
theorems of Props/C01Units.v (recompiled here, Print Assumptions parsed), differential execution of the real
functions against the model (cases_units_*.v + vm_compute) and the statement as an oracle on the real results."""
import logging
import random
import sys
import time

from .. import core, gallina as G

PID = 'C01'
PROPS = 'C01Units'
SECTIONS = ('units_utils', 'units_resources')
MODEL_VOS = ['Codec/Units', 'Codec/UnitsRun', 'Gen/Tables', 'Base/Flat']
PREAMBLE = ('From Coq Require Import ZArith List.\nImport ListNotations.\n'
            'From TM Require Import Codec.BaseN Codec.Dec Codec.Units Codec.UnitsRun Gen.Tables.\nOpen Scope Z_scope.\n')
RUN_FN = '(run_case units_tables)'
IN_TYPE = 'ucase'
ANCHORS = ['lib/python/treadmill/utils.py', 'lib/python/treadmill/scheduler/loader.py']

# the oracle's own reading of the statement (NOT read from the source): K M G T P E Z Y are successive powers
# of 1024, of 1000 with the B modifier; B alone is bytes; N% of a core is N
SUFFIX_EXP = {'B': 0, 'K': 1, 'M': 2, 'G': 3, 'T': 4, 'P': 5, 'E': 6, 'Z': 7, 'Y': 8}
BLANKS = [' ', ' ', ' ', '\t', '\n', '\r', '\x0b', '\x0c', '\x1c', '\x1d', '\x1e', '\x1f']
MB = 1024 * 1024


# ------------------------------------------------------------------ generator
def _number(rng):
    k = rng.random()
    if k < 0.08:
        return 0
    if k < 0.30:
        return rng.randint(1, 20)
    if k < 0.45:
        return rng.choice([999, 1000, 1001, 1023, 1024, 1025, 2047, 2048, 1048575, 1048576, 1048577])
    if k < 0.85:
        return rng.randint(1, 10 ** rng.randint(2, 7))
    return rng.randint(10 ** 9, 10 ** rng.randint(10, 30))


def _numeral(rng, n, exotic):
    """a decimal numeral int() reads as n; exotic: leading zeros, '+', single underscores, inner blanks at the ends"""
    s = str(n)
    if not exotic:
        return s
    k = rng.randint(0, 3)
    if k == 0:
        return '0' * rng.randint(1, 3) + s
    if k == 1:
        return '+' + s
    if k == 2 and len(s) > 1:
        i = rng.randint(1, len(s) - 1)
        return s[:i] + '_' + s[i:]
    return s + rng.choice([' ', '\t', '  '])      # "5 K": int('5 ') strips it


def _case(rng, s):
    k = rng.random()
    if k < 0.45:
        return s, 'upper'
    if k < 0.75:
        return s.lower(), 'lower'
    return ''.join(c.lower() if rng.random() < 0.5 else c for c in s), 'mixed'


def _blanks(rng, s):
    if rng.random() < 0.65:
        return s, False
    left = ''.join(rng.choice(BLANKS) for _ in range(rng.randint(0, 2)))
    right = ''.join(rng.choice(BLANKS) for _ in range(rng.randint(0, 2)))
    return left + s + right, bool(left or right)


def spell_size(rng, n=None, suffix=None, dec=None, plain=False):
    """(string, struct) of a well-formed size spelling; struct = what it denotes"""
    n = _number(rng) if n is None else n
    suffix = rng.choice('BKMGTPEZY' if rng.random() < 0.3 else 'KMGT') if suffix is None else suffix
    dec = (rng.random() < 0.35) if dec is None else dec
    exotic = (not plain) and rng.random() < 0.1
    body = suffix + ('B' if dec else '')
    if plain:
        s, cs, bl = _numeral(rng, n, False) + body, 'upper', False
    else:
        body, cs = _case(rng, body)
        s, bl = _blanks(rng, _numeral(rng, n, exotic) + body)
    return s, {'kind': 'size', 'n': n, 'suffix': suffix, 'dec': dec, 'case': cs, 'blanks': bl, 'exotic': exotic}


def spell_cpu(rng, n=None):
    n = rng.choice([0, 1, 10, 50, 99, 100, 101, 150, 400, rng.randint(0, 100000)]) if n is None else n
    pct = rng.random() < 0.6
    exotic = rng.random() < 0.1
    s, bl = _blanks(rng, _numeral(rng, n, exotic) + ('%' if pct else ''))
    return s, {'kind': 'cpu', 'n': n, 'pct': pct, 'blanks': bl, 'exotic': exotic}


def denote(st):
    """bytes (size) / units (cpu) the structure stands for"""
    if st['kind'] == 'size':
        return st['n'] * (1000 if st['dec'] else 1024) ** SUFFIX_EXP[st['suffix']]
    return st['n']


_MALFORMED_FIXED = [
    '', ' ', '\t \n', 'B', 'K', 'G', 'KB', 'b', 'k', 'gb', ' G ', '%', '-', '+', '_',
    '1KM', '1GG', '1BB', '1KBB', '1GBB', '1MK', '12GM', '1BK', '1BG',
    '5%', '5G%', '5%G', '5%%', '50%B', '100%M',
    '-5G', '+5G', '--5G', '5-G', '-G', '+-5M', '-0', '-0M', '- 5G', '-5%', '+5%',
    '1.5G', '1e3M', '.5G', '5.G', '1,5G', '0.5', '1.0%', '10.5%',
    '1 0G', '1G B', '1 G B', '1 GB', 'G1', '1G1', 'G 1', '1\tG', '1\x1cG', '1 \x1cG', '\x1c1G\x1f', '1G\x1c B',
    '0', '00', '0 ', ' 0', '0B', '0K', '0%', '+0', '-0', '0_0', '5', '1024', '1048576', ' 7 ',
    '0x10M', '1_G', '_1G', '1__0G', '1_0G', '1_0_0M', '0b1M', '1e3', 'NaN', 'inf', 'None', 'True',
    '5S', '5H', '5D', '5m', '5s', '1i', '1Ki', '1KiB', '1GiB', '1kb ', '1 kb', '1k b',
]
_MUT_ALPHABET = '0123456789BKMGTPEZYbkmgt%+-_. \tSHDxi'


def malformed(rng):
    k = rng.random()
    if k < 0.45:
        return rng.choice(_MALFORMED_FIXED)
    if k < 0.55:
        return rng.choice([0, 0, 5, -3, 1024, 1048576, rng.randint(-10, 10 ** 7)])     # ints (manifest numbers)
    # one or two random edits of a well-formed spelling
    s = (spell_size(rng)[0] if rng.random() < 0.7 else spell_cpu(rng)[0])
    for _ in range(rng.randint(1, 2)):
        op = rng.randint(0, 2)
        i = rng.randint(0, len(s))
        if op == 0:
            s = s[:i] + rng.choice(_MUT_ALPHABET) + s[i:]
        elif op == 1 and s:
            i = min(i, len(s) - 1)
            s = s[:i] + s[i + 1:]
        elif s:
            i = min(i, len(s) - 1)
            s = s[:i] + rng.choice(_MUT_ALPHABET) + s[i + 1:]
    return s


def _equiv_group(rng):
    """spellings of ONE quantity: q megabytes as M / K / B / (G, T when divisible), each in a random case/blank form"""
    q = rng.choice([0, 1, 3, 512, 1024, 2048, 5 * 1024, 1024 * 1024, 3 * 1024 * 1024, rng.randint(1, 10 ** 6) * 1024])
    out = [spell_size(rng, q, 'M', False), spell_size(rng, q * 1024, 'K', False), spell_size(rng, q * MB, 'B', False)]
    if q % 1024 == 0:
        out.append(spell_size(rng, q // 1024, 'G', False))
    if q % MB == 0:
        out.append(spell_size(rng, q // MB, 'T', False))
    return out


def _res_field(rng, kind):
    """(value or None=absent, struct or None=malformed)"""
    k = rng.random()
    if k < 0.12:
        return None, {'kind': 'absent'}
    if k < 0.17:
        return 0, {'kind': 'zero'}
    if k < 0.22:
        return rng.choice(['0', ' 0', '0 ']), {'kind': 'zero'}
    if k < 0.30:
        return malformed(rng), None
    if kind == 'cpu':
        return spell_cpu(rng)
    return spell_size(rng)


def gen_res(rng):
    data, st = {}, {}
    for key, kind in (('memory', 'size'), ('cpu', 'cpu'), ('disk', 'size')):
        v, s = _res_field(rng, kind)
        st[key] = s
        if not (s and s['kind'] == 'absent'):
            data[key] = v
    return {'kind': 'res', 'data': data, 'struct': st}


def gen_cases(rng, n):
    """the stream of one run: ~45% well-formed values (incl. equivalence groups), ~25% malformed, ~25% records"""
    cases = []
    # every suffix, with and without the modifier, in both cases, once per run (the rare ones are never missed)
    for suf in 'BKMGTPEZY':
        for dec in (False, True):
            for low in (False, True):
                nn = rng.choice([1, 2, 3, 1024, 1000, 7])
                s = '%d%s%s' % (nn, suf, 'B' if dec else '')
                cases.append({'kind': 'val', 'value': s.lower() if low else s,
                              'struct': {'kind': 'size', 'n': nn, 'suffix': suf, 'dec': dec,
                                         'case': 'lower' if low else 'upper', 'blanks': False, 'exotic': False}})
    for s in _MALFORMED_FIXED:
        cases.append({'kind': 'val', 'value': s, 'struct': None})
    while len(cases) < n:
        k = rng.random()
        if k < 0.25:
            s, st = spell_size(rng)
            cases.append({'kind': 'val', 'value': s, 'struct': st})
        elif k < 0.33:
            s, st = spell_cpu(rng)
            cases.append({'kind': 'val', 'value': s, 'struct': st})
        elif k < 0.43:
            grp = _equiv_group(rng)
            for s, st in grp:
                cases.append({'kind': 'val', 'value': s, 'struct': st})
            cases.append({'kind': 'group', 'values': [s for s, _ in grp], 'structs': [st for _, st in grp]})
        elif k < 0.68:
            cases.append({'kind': 'val', 'value': malformed(rng), 'struct': None})
        elif k < 0.93:
            cases.append(gen_res(rng))
        elif k < 0.97:
            # two records spelling the same quantities differently
            g1, g2 = _equiv_group(rng), _equiv_group(rng)
            c = rng.randint(0, 400)
            a = {'memory': g1[0][0], 'cpu': '%d%%' % c, 'disk': g2[0][0]}
            b = {'memory': rng.choice(g1)[0], 'cpu': rng.choice([str(c), '%d%%' % c, ' %d %%' % c]),
                 'disk': rng.choice(g2)[0]}
            cases.append({'kind': 'respair', 'a': a, 'b': b,
                          'mb': [denote(g1[0][1]) // MB, c, denote(g2[0][1]) // MB]})
        else:
            z = rng.choice([0, -1, 7, -1024, rng.randint(-10 ** 12, 10 ** 12), rng.randint(0, 10 ** 40)])
            cases.append({'kind': 'str', 'z': z})
    return cases


# ------------------------------------------------------------------ implementation
_IMPL = None


def impl():
    global _IMPL
    if _IMPL is None:
        if core.PYLIB not in sys.path:
            sys.path.insert(0, core.PYLIB)
        from treadmill import utils
        from treadmill.scheduler import loader
        _IMPL = (utils, loader)
    return _IMPL


def _call(fn, *args):
    """canonical outcome: ['ok', int] | ['ValueError'] | ['IndexError'] | ['Exception'] | ['other', class] | ['nonint', repr]"""
    try:
        v = fn(*args)
    except ValueError:
        return ['ValueError']
    except IndexError:
        return ['IndexError']
    except Exception as e:   # noqa
        if type(e) is Exception:
            return ['Exception']
        return ['other', type(e).__name__]
    if isinstance(v, list):
        if all(type(x) is int for x in v):
            return ['ok', v]
        return ['nonint', repr(v)[:80]]
    if type(v) is not int:
        return ['nonint', repr(v)[:80]]
    return ['ok', v]


def impl_run(case):
    utils, loader = impl()
    k = case['kind']
    if k == 'val':
        v = case['value']
        return {f: _call(getattr(utils, f), v) for f in ('size_to_bytes', 'kilobytes', 'megabytes', 'cpu_units')}
    if k == 'group':
        return {'mb': [_call(utils.megabytes, v) for v in case['values']],
                'kb': [_call(utils.kilobytes, v) for v in case['values']],
                'bytes': [_call(utils.size_to_bytes, v) for v in case['values']]}
    if k == 'res':
        return {'resources': _call(loader.resources, dict(case['data']))}
    if k == 'respair':
        return {'a': _call(loader.resources, dict(case['a'])), 'b': _call(loader.resources, dict(case['b']))}
    if k == 'str':
        return {'str': str(case['z'])}
    raise ValueError('unknown case kind %r' % k)


# ------------------------------------------------------------------ oracle: the statement on implementation results
def _want(fn, got, want, value, why):
    if got == ['ok', want]:
        return None
    if got[0] == 'ok':
        return ('%s-wrong-quantity' % fn,
                '%s(%r) = %r but the spelling denotes %r (%s)' % (fn, value, got[1], want, why))
    return ('%s-rejects-wellformed-spelling' % fn,
            '%s(%r) fails with %s; the spelling denotes %r (%s)' % (fn, value, '/'.join(map(str, got)), want, why))


def _field_mb(st):
    if st['kind'] in ('absent', 'zero'):
        return 0
    return denote(st) // MB


def oracle(case, obs):
    out = []
    k = case['kind']
    if k == 'val' and case['struct']:
        st, v = case['struct'], case['value']
        q = denote(st)
        if st['kind'] == 'size':
            why = '%d x %d^%d bytes' % (st['n'], 1000 if st['dec'] else 1024, SUFFIX_EXP[st['suffix']])
            out.append(_want('size_to_bytes', obs['size_to_bytes'], q, v, why))
            out.append(_want('kilobytes', obs['kilobytes'], q // 1024, v, why + ' // 1024'))
            out.append(_want('megabytes', obs['megabytes'], q // MB, v, why + ' // 2^20'))
        else:
            out.append(_want('cpu_units', obs['cpu_units'], q, v, '%d%% of a core' % st['n']))
    elif k == 'group':
        for f in ('mb', 'kb', 'bytes'):
            vals = obs[f]
            if any(x != vals[0] for x in vals) or vals[0][0] != 'ok':
                out.append(('same-quantity-different-value',
                            'spellings %r of one quantity (%d bytes) give %s = %r'
                            % (case['values'], denote(case['structs'][0]), f, vals)))
                break
    elif k == 'res':
        st = case['struct']
        if all(st[key] is not None for key in ('memory', 'cpu', 'disk')):
            want = [_field_mb(st['memory']), 0 if st['cpu']['kind'] in ('absent', 'zero') else denote(st['cpu']),
                    _field_mb(st['disk'])]
            got = obs['resources']
            if got != ['ok', want]:
                sig = 'resources-wrong-vector' if got[0] == 'ok' else 'resources-rejects-wellformed-record'
                out.append((sig, 'loader.resources(%r) = %r; the record denotes [memory MB, cpu, disk MB] = %r'
                            % (case['data'], got[1:] if got[0] == 'ok' else got, want)))
    elif k == 'respair':
        if obs['a'] != obs['b'] or obs['a'] != ['ok', case['mb']]:
            out.append(('same-quantity-different-vector',
                        'records %r and %r spell the same quantities %r but give %r and %r'
                        % (case['a'], case['b'], case['mb'], obs['a'], obs['b'])))
    return [x for x in out if x]


# ------------------------------------------------------------------ model terms / flattening
_CODES = {'ValueError': 1, 'IndexError': 2, 'Exception': 3}


def _flat(o, is_list=False):
    if o[0] == 'ok':
        return [0] + (list(o[1]) if is_list else [o[1]])
    if o[0] in _CODES:
        return [_CODES[o[0]]]
    return [4 if o[0] == 'other' else 5]


def expected(case, obs):
    k = case['kind']
    if k == 'val':
        return [x for f in ('size_to_bytes', 'kilobytes', 'megabytes', 'cpu_units') for x in _flat(obs[f])]
    if k == 'res':
        return _flat(obs['resources'], True)
    if k == 'str':
        return [ord(c) for c in obs['str']]
    return None      # group / respair: their members are in the stream as val / checked by the oracle


def _zs(ns):
    return '[' + ';'.join(('(%d)' % n) if n < 0 else str(n) for n in ns) + ']'


def _pyval(v):
    if isinstance(v, int):
        return '(VInt %s)' % (('(%d)' % v) if v < 0 else str(v))
    if any(ord(c) > 127 for c in v):
        raise ValueError('non-ASCII input is outside the model')
    return '(VStr %s)' % _zs([ord(c) for c in v])


def case_term(case):
    k = case['kind']
    if k == 'val':
        return '(CVal %s)' % _pyval(case['value'])
    if k == 'res':
        d = case['data']

        def f(key):
            return '(Some %s)' % _pyval(d[key]) if key in d else 'None'
        return '(CRes {| r_memory := %s; r_cpu := %s; r_disk := %s |})' % (f('memory'), f('cpu'), f('disk'))
    if k == 'str':
        z = case['z']
        return '(CStr %s)' % (('(%d)' % z) if z < 0 else str(z))
    raise ValueError(k)


# ------------------------------------------------------------------ the stage
def _quiet():
    lg = logging.getLogger('treadmill.utils')
    state = (lg.disabled,)
    lg.disabled = True
    return lg, state


def _distribution(cases, obs):
    d = {'val_size': 0, 'val_cpu': 0, 'val_malformed': 0, 'val_int': 0, 'group': 0, 'res': 0, 'res_wellformed': 0,
         'respair': 0, 'str': 0, 'lower_or_mixed': 0, 'blanks': 0, 'modifier_B': 0, 'exotic_numeral': 0}
    suffixes = set()
    outcomes = {}
    for c, o in zip(cases, obs):
        k = c['kind']
        if k == 'val':
            st = c['struct']
            if st is None:
                d['val_int' if isinstance(c['value'], int) else 'val_malformed'] += 1
            else:
                d['val_' + st['kind']] += 1
                d['blanks'] += bool(st['blanks'])
                d['exotic_numeral'] += bool(st['exotic'])
                if st['kind'] == 'size':
                    suffixes.add(st['suffix'] + ('B' if st['dec'] else ''))
                    d['modifier_B'] += bool(st['dec'])
                    d['lower_or_mixed'] += st['case'] != 'upper'
            for f in ('size_to_bytes', 'kilobytes', 'megabytes', 'cpu_units'):
                key = '%s:%s' % (f, o[f][0])
                outcomes[key] = outcomes.get(key, 0) + 1
        elif k == 'res':
            d['res'] += 1
            d['res_wellformed'] += all(c['struct'][x] is not None for x in ('memory', 'cpu', 'disk'))
            key = 'resources:%s' % o['resources'][0]
            outcomes[key] = outcomes.get(key, 0) + 1
        else:
            d[k] += 1
    d['distinct_suffix_forms'] = len(suffixes)
    d['outcomes'] = dict(sorted(outcomes.items()))
    return d


def stage(r, seed, tier):
    """Run the unit-spelling stage on the Run `r`; returns coverage counters (a dict to merge into the coverage)."""
    t0 = time.time()
    rng = random.Random(seed + 1013)
    n = 900 if tier == 'quick' else 30000
    lg, state = _quiet()
    try:
        return _stage(r, seed, tier, rng, n, t0)
    except Exception as exc:   # never lose the verdict: an unusable tie is a broken obligation
        import traceback
        r.broken_obligation('correspondence', 'C01 units stage failed: %s: %s' % (type(exc).__name__, str(exc)[:300]),
                            traceback.format_exc())
        return {'units_stage': {'error': '%s: %s' % (type(exc).__name__, str(exc)[:300])}, 'units_obligations': 0}
    finally:
        lg.disabled = state[0]


def _stage(r, seed, tier, rng, n, t0):
    # 1. tables, model, theorems
    with core.build_lock():
        terr = core.regen_tables()
        for sec, msg in terr:
            if sec in SECTIONS:
                r.broken_obligation('tables', 'translator section %s' % sec, msg)
        okm, logm = core.make(MODEL_VOS)
        proof = core.compile_props(PROPS)
    if not proof['ok']:
        r.broken_obligation('proof', proof['failed'] or 'Props/%s.v' % PROPS, proof['log'])
    elif not proof['axioms_ok']:
        r.broken_obligation('proof', 'Props/%s.v Print Assumptions: %s' % (PROPS, ', '.join(proof['axioms'])))
    # 2. the real functions + the oracle
    cases = gen_cases(rng, n)
    obs, pairs = [], []
    nviol = [0]

    def consider(c, o):
        for sig, what in oracle(c, o):
            nviol[0] += 1
            r.violation(sig, what, {'engine': 'E-units', 'case': c}, {'impl_observed': o})
    harness_errors = []
    for c in cases:
        try:
            o = impl_run(c)
            consider(c, o)
            e = expected(c, o)
            pairs.append(None if e is None else (case_term(c), G.zlist(e)))
        except Exception as exc:   # the harness can no longer drive the implementation: a broken tie
            import traceback
            harness_errors.append('%s: %s' % (type(exc).__name__, str(exc)[:200]))
            if len(harness_errors) == 1:
                r.broken_obligation('correspondence', 'C01 units stage could not drive the implementation (%s)'
                                    % harness_errors[0], traceback.format_exc())
            o = {'harness_error': harness_errors[-1]}
            pairs.append(None)
        obs.append(o)
    # 3. the model on the same cases
    live = [(i, p) for i, p in enumerate(pairs) if p is not None]
    mism, err = [], None
    with core.build_lock():
        core.regen_tables()
        okm2, logm2 = core.make(MODEL_VOS)
        if not (okm and okm2):
            err = 'model does not build: ' + (logm2 if not okm2 else logm)[-1200:]
        else:
            mism, err = core.run_mismatches(PREAMBLE, RUN_FN, [p for _i, p in live], IN_TYPE, shard=400,
                                            timeout=300, tag='cases_units')
            mism = [live[j][0] for j in mism]
            if mism:
                import json
                smallest = min(mism, key=lambda i: len(json.dumps(cases[i], default=str)))
                mo, _e = core.model_output(PREAMBLE, RUN_FN, pairs[smallest][0])
                r.broken_obligation('correspondence',
                                    'C01 units: model vs implementation: %d of %d cases differ' % (len(mism), len(live)),
                                    json.dumps({'case': cases[smallest], 'impl_observed': obs[smallest],
                                                'impl_flat': expected(cases[smallest], obs[smallest]),
                                                'model_flat': mo}, default=str))
    if err:
        r.broken_obligation('correspondence', 'C01 units: the model could not be evaluated', err)
    # 4. something broke and the oracle has no failing input yet: search further (implementation + oracle only)
    searched = 0
    mine_broken = (not proof['ok']) or (not proof['axioms_ok']) or err or mism or harness_errors \
        or any(sec in SECTIONS for sec, _m in terr)
    if mine_broken and not nviol[0]:
        rng2 = random.Random(seed + 1014)
        t_end = time.time() + (10 if tier == 'quick' else 300)
        for c in gen_cases(rng2, 6000 if tier == 'quick' else 200000):
            searched += 1
            try:
                consider(c, impl_run(c))
            except Exception:   # noqa
                continue
            if nviol[0] > 20 or time.time() > t_end:
                break
    okobs = [(c, o) for c, o in zip(cases, obs) if 'harness_error' not in o]
    cov = {
        'cases': len(cases), 'correspondence_cases': len(live), 'correspondence_mismatches': len(mism),
        'oracle_violations': nviol[0], 'extra_search_cases': searched, 'harness_errors': len(harness_errors),
        'distribution': _distribution([c for c, _o in okobs], [o for _c, o in okobs]),
        'theorems': proof['theorems'], 'proof_ok': bool(proof['ok'] and proof['axioms_ok']),
        'print_assumptions': ('all closed under the global context (%d)' % proof['closed_count']
                              if not proof['axioms'] else 'axioms: ' + ', '.join(proof['axioms'])),
        'checker_cmd': proof['cmd'], 'table_sections': list(SECTIONS),
        'source_sha256': core.source_hashes(ANCHORS), 'wall_s': round(time.time() - t0, 2),
        'rule': 'seeded (random.Random(seed+1013)): every suffix x modifier x case once, the fixed malformed list, then '
                '25% size spellings (case, blanks, exotic numerals), 8% cpu spellings, 10% equivalence groups (one '
                'quantity as M/K/B/G/T), 25% malformed (fixed list, ints, random edits), 25% resource records, 4% '
                'record pairs spelling the same quantities, 3% str(int)',
    }
    return {'units_stage': cov, 'units_obligations': len(proof['theorems'])}


TRUSTED = [
    'Props/C01Units.v: Coq 8.16.1 kernel; vm_compute for C01U_tables_ok and the Examples; Print Assumptions closed',
    'translator harness/tables_units.py: utils._SIZE_SCALE read from the imported module; the shape of cpu_units, '
    'size_to_bytes, kilobytes, megabytes pinned by AST template (constants as holes), loader.resources parsers/order/'
    'default AST-extracted; fail-closed',
    'hand-written string-level model Codec/Units.v (upper/strip/[-1]/[:-1]/endswith, int() and str() of Codec/Dec.v), '
    'tied by differential execution on well-formed and malformed ASCII inputs (cases_units_*.v + vm_compute)',
    'ASCII inputs only: str.upper()/strip()/int() on non-ASCII text (full-width digits, U+212A, NBSP) are not modelled; '
    'CPython int() refuses numerals longer than sys.get_int_max_str_digits() (4300), the model does not',
]
ASSUMPTIONS = [
    'resource values are str or int (YAML scalars); None / float / bool values are outside the model',
]


def replay_case(case):
    """case = the dict stored in a replay file ({'engine': 'E-units', 'case': ...}) or the inner case"""
    c = case['case'] if isinstance(case, dict) and case.get('engine') == 'E-units' else case
    lg, state = _quiet()
    try:
        v = oracle(c, impl_run(c))
    finally:
        lg.disabled = state[0]
    return v[0] if v else None
