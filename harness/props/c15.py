"""C15: codecs (base-N, unique names, trace events, rule file names, ZooKeeper payloads, LDAP entries)
vs the models of coq/theories/Codec/*.v.

One case type with a `kind` tag per codec operation.  For every kind:
  gen(rng, malformed)   -> case (JSON-able)
  impl(case)            -> observables of the REAL functions
  flat(case, obs)       -> list of ints, flattened exactly like Codec/C15Run.v run_case
  term(case, obs)       -> Gallina term of type c15case
  oracle(case, obs)     -> None | (signature, what) | [..]   round trip / injectivity on implementation results
"""
import logging
import sys

from .. import core, gallina as G

PID = 'C15'
ANCHORS = ['lib/python/treadmill/utils.py', 'lib/python/treadmill/appcfg/__init__.py',
           'lib/python/treadmill/rulefile.py', 'lib/python/treadmill/firewall.py',
           'lib/python/treadmill/trace/app/events.py', 'lib/python/treadmill/trace/server/events.py',
           'lib/python/treadmill/trace/app/zk.py', 'lib/python/treadmill/zkutils.py',
           'lib/python/treadmill/admin/_ldap.py']
PREAMBLE = ('From Coq Require Import ZArith List String.\nImport ListNotations.\n'
            'From TM Require Import Codec.BaseN Codec.Dec Codec.Event Codec.Rule Codec.Json Codec.Ldap Codec.C15Run.\nOpen Scope Z_scope.\n')
RUN_FN = 'run_case'

E_VALUE, E_INDEX, E_ZERODIV, E_TYPE, E_OTHER = 1, 2, 3, 4, 5


def errcode(e):
    if isinstance(e, ValueError):
        return E_VALUE
    if isinstance(e, IndexError):
        return E_INDEX
    if isinstance(e, ZeroDivisionError):
        return E_ZERODIV
    if isinstance(e, (TypeError, AttributeError)):
        return E_TYPE
    return E_OTHER


def call(f, *a, **kw):
    """-> ['ok', value] | ['err', code, text]"""
    try:
        return ['ok', f(*a, **kw)]
    except Exception as e:   # mapped to a small enum
        return ['err', errcode(e), '%s: %s' % (type(e).__name__, e)]


_MODS = {}
logging.disable(logging.CRITICAL)   # the decoders log every rejected input


def mod(name):
    if name not in _MODS:
        if core.PYLIB not in sys.path:
            sys.path.insert(0, core.PYLIB)
        import importlib
        _MODS[name] = importlib.import_module(name)
    return _MODS[name]


# ------------------------------------------------------------------ flattening / terms (as C15Run.v)
def fstr(s):
    return [len(s)] + [ord(c) for c in s]


def fres(r, f):
    return [0] + f(r[1]) if r[0] == 'ok' else [r[1]]


def t_str(s):
    return G.zlist([ord(c) for c in s])


def t_ostr(s):
    return G.opt(s, t_str)


def t_oz(n):
    return G.opt(n, G.z)


# ------------------------------------------------------------------ 1. base-N
DIGITS = '0123456789'
LOWER = 'abcdefghijklmnopqrstuvwxyz'
UPPER = LOWER.upper()
NAMECH = LOWER + DIGITS + '._-'
ODDCH = ['-', '#', '.', '_', ',', ':', '*', ' ', '\n', 'A', 'z', '0', 'é', '٣']


def rand_str(rng, chars, lo, hi):
    return ''.join(rng.choice(chars) for _ in range(rng.randint(lo, hi)))


def big_int(rng):
    style = rng.randrange(6)
    if style == 0:
        return rng.randint(0, 70)
    if style == 1:
        return rng.getrandbits(rng.choice([8, 16, 31, 32, 33, 63, 64, 65, 76, 77, 78, 128, 200]))
    if style == 2:
        b = rng.choice([2, 10, 36, 62])
        k = rng.randint(1, 14)
        return b ** k + rng.choice([-1, 0, 1])
    if style == 3:
        return 2 ** rng.randint(1, 90) + rng.choice([-1, 0, 1])
    return rng.getrandbits(rng.randint(1, 90))


def gen_basen(rng, malformed):
    r = rng.random()
    if r < 0.25:
        al, base = None, None
    elif r < 0.45:
        al, base = DIGITS + LOWER + UPPER, 62
    else:
        pool = list(DIGITS + LOWER + UPPER + '-_.#*éλ')
        rng.shuffle(pool)
        al = ''.join(pool[:rng.randint(2, 20)])
        base = rng.choice([None, len(al), rng.randint(2, len(al))])
    n = big_int(rng)
    if malformed:
        m = rng.randrange(6)
        al = al if al is not None else DIGITS + LOWER
        if m == 0:      # duplicate character in the alphabet
            i, j = rng.sample(range(len(al)), 2)
            al = al[:j] + al[i] + al[j + 1:]
            base = len(al)
        elif m == 1:    # base larger than the alphabet / negative
            base = rng.choice([len(al) + 1, len(al) + 7, -1, -len(al)])
        elif m == 2:    # base 0 (ZeroDivisionError unless n == 0), empty alphabet
            base, al = 0, rng.choice([al, ''])
            n = rng.choice([0, n])
        elif m == 3:    # base 1 terminates only for n == 0 (n > 0 never returns: not generated)
            base, n = 1, 0
        elif m == 4:    # negative number: only with an invalid base (a valid base >= 1 never returns)
            n, base = -1 - n, rng.choice([0, len(al) + 1])
        else:           # base smaller than the alphabet
            base = rng.randint(2, max(2, len(al) - 1))
    return {'kind': 'basen', 'al': al, 'base': base, 'n': n}


def _bn_kwargs(case):
    kw = {}
    if case['al'] is not None:
        kw['alphabet'] = case['al']
    if case['base'] is not None:
        kw['base'] = case['base']
    return kw


def _would_diverge(case):
    al = case['al'] if case['al'] is not None else DIGITS + LOWER
    base = case['base'] if case['base'] is not None else len(al)
    return 0 <= base <= len(al) and ((case['n'] < 0 and base >= 1) or (base == 1 and case['n'] != 0))


def impl_basen(case):
    utils = mod('treadmill.utils')
    if _would_diverge(case):
        return {'skip': 'to_base_n does not terminate on this input (not executed)'}
    enc = call(utils.to_base_n, case['n'], **_bn_kwargs(case))
    o = {'enc': enc}
    if enc[0] == 'ok':
        o['dec'] = call(utils.from_base_n, enc[1], **_bn_kwargs(case))
    return o


def flat_basen(case, o):
    if 'skip' in o:
        return None
    out = fres(o['enc'], fstr)
    if o['enc'][0] == 'ok':
        out += fres(o['dec'], lambda n: [n])
    return out


def term_basen(case, o):
    return '(CBaseN %s %s %s)' % (t_ostr(case['al']), t_oz(case['base']), G.z(case['n']))


def basen_domain(case):
    al = case['al'] if case['al'] is not None else DIGITS + LOWER
    base = case['base'] if case['base'] is not None else len(al)
    return len(set(al)) == len(al) and 2 <= base <= len(al) and case['n'] >= 0


def oracle_basen(case, o):
    if 'skip' in o or not basen_domain(case):
        return None
    if o['enc'][0] != 'ok':
        return ('base-n-encode-fails', 'to_base_n(%d) raises %s on a duplicate-free alphabet' % (case['n'], o['enc'][2]))
    if o['dec'] != ['ok', case['n']]:
        return ('base-n-roundtrip', 'from_base_n(to_base_n(%d)) = %r (encoded %r)' % (case['n'], o['dec'], o['enc'][1]))
    return None


def gen_basen_dec(rng, malformed):
    al = rng.choice([None, DIGITS + LOWER + UPPER, 'ab', 'xyz-'])
    chars = al if al is not None else DIGITS + LOWER
    s = rand_str(rng, chars, 0, 16)
    base = rng.choice([None, len(chars)])
    if malformed:
        m = rng.randrange(3)
        if m == 0:
            s = s + rng.choice(ODDCH) + rand_str(rng, chars, 0, 3)
        elif m == 1:
            base = rng.choice([-1, len(chars) + 1])
        else:
            base = rng.randint(0, len(chars))
    return {'kind': 'basen_dec', 'al': al, 'base': base, 's': s}


def impl_basen_dec(case):
    utils = mod('treadmill.utils')
    o = {'dec': call(utils.from_base_n, case['s'], **_bn_kwargs(case))}
    if o['dec'][0] == 'ok' and basen_domain(dict(case, n=0)):
        o['reenc'] = call(utils.to_base_n, o['dec'][1], **_bn_kwargs(case))
    return o


def oracle_basen_dec(case, o):
    """decode never yields a number whose encoding denotes another number (re-encode, re-decode)."""
    if 'reenc' not in o:
        return None
    utils = mod('treadmill.utils')
    if o['reenc'][0] != 'ok':
        return ('base-n-encode-fails', 'to_base_n(%r) raises %s' % (o['dec'][1], o['reenc'][2]))
    back = call(utils.from_base_n, o['reenc'][1], **_bn_kwargs(case))
    if back != o['dec']:
        return ('base-n-roundtrip', 'from_base_n(%r)=%r but its canonical encoding %r decodes to %r'
                % (case['s'], o['dec'][1], o['reenc'][1], back))
    return None


# ------------------------------------------------------------------ 1b. gen_uniqueid
M64, M77 = 2 ** 64 - 1, 2 ** 77 - 1


def gen_genuid(rng, malformed):
    style = rng.randrange(4)
    if style == 0:      # target a seed directly (boundaries of the 77-bit range and of 12/13 digits)
        seed = rng.choice([0, 1, 61, 62, 62 ** 12 - 1, 62 ** 12, 62 ** 12 + 1, M77, M77 - 1, 2 ** 76, 2 ** 64,
                           2 ** 64 - 1, rng.getrandbits(77), rng.getrandbits(rng.randint(1, 77))])
        ino, ctime_us, inst = seed & M64, seed >> 64, 0
    elif style == 1:    # realistic stat
        ino = rng.getrandbits(rng.choice([20, 32, 48, 64]))
        ctime_us = 1_700_000_000_000_000 + rng.getrandbits(40)
        inst = rng.randint(0, 9_999_999_999)
    else:
        ino = rng.getrandbits(64)
        ctime_us = rng.getrandbits(rng.choice([13, 14, 51, 60]))
        inst = rng.getrandbits(rng.choice([1, 10, 33, 34]))
    name = rand_str(rng, LOWER, 1, 5) + '.' + rand_str(rng, NAMECH, 1, 8)
    return {'kind': 'genuid', 'ino': ino, 'ctime_us': ctime_us, 'inst': inst, 'name': name}


class _Stat:
    def __init__(self, ino, ctime_us):
        import fractions
        self.st_ino = ino
        self.st_ctime = fractions.Fraction(ctime_us, 10 ** 6)   # exact: int(st_ctime * 10**6) == ctime_us


def impl_genuid(case):
    appcfg = mod('treadmill.appcfg')
    import os
    from unittest import mock
    path = '/nonexistent/cache/%s#%010d' % (case['name'], case['inst'])
    with mock.patch.object(os, 'stat', lambda _p: _Stat(case['ino'], case['ctime_us'])):
        uid = call(appcfg.gen_uniqueid, path)
        uname = call(appcfg.eventfile_unique_name, path)
    o = {'uid': uid, 'uname': uname}
    if uname[0] == 'ok':
        o['name'] = call(appcfg.app_name, uname[1])
        o['id'] = call(appcfg.app_unique_id, uname[1])
    return o


def flat_genuid(case, o):
    return fres(o['uid'], fstr)


def term_genuid(case, o):
    return '(CGenUid %s %s %s)' % (G.z(case['ino']), G.z(case['ctime_us']), G.z(case['inst']))


def oracle_genuid(case, o):
    utils = mod('treadmill.utils')
    seed = ((case['ctime_us'] << 64) + ((case['ino'] ^ (case['inst'] << 31)) & M64)) & M77
    if o['uid'][0] != 'ok':
        return ('uniqueid-fails', 'gen_uniqueid raises %s' % o['uid'][2])
    uid = o['uid'][1]
    al = DIGITS + LOWER + UPPER
    out = []
    if len(uid) != 13 or any(c not in al for c in uid):
        out.append(('uniqueid-not-13-chars', 'gen_uniqueid gives %r (%d characters) for seed %d' % (uid, len(uid), seed)))
    back = call(utils.from_base_n, uid, base=62, alphabet=al)
    if back != ['ok', seed]:
        out.append(('uniqueid-does-not-decode-to-seed', 'uniqueid %r decodes to %r, seed is %d' % (uid, back, seed)))
    iname = '%s#%010d' % (case['name'], case['inst'])
    if '#' not in case['name']:
        if o['uname'][0] != 'ok' or not (o['uname'][1].endswith('-' + uid) and len(uid) == 13):
            out.append(('unique-name-not-ending-in-13-char-id', 'eventfile_unique_name gives %r' % (o['uname'],)))
        if o.get('name') != ['ok', iname] or o.get('id') != ['ok', uid]:
            out.append(('unique-name-roundtrip', 'unique name %r decodes to (%r, %r), written (%r, %r)'
                        % (o['uname'], o.get('name'), o.get('id'), iname, uid)))
    return out or None


# ------------------------------------------------------------------ 1c. unique names
def gen_name(rng):
    base = rand_str(rng, LOWER, 1, 6) + '.' + rand_str(rng, NAMECH, 1, 12)
    return base + '#' + '%010d' % rng.randint(0, 9_999_999_999)


def gen_uid(rng):
    return rand_str(rng, DIGITS + LOWER + UPPER, 13, 13)


def mutate_name(rng, name, uid):
    m = rng.randrange(9)
    if m == 0:
        name = name.replace('#', '-')                     # no '#'
    elif m == 1:
        name = name.replace('.', '#', 1)                  # two '#'
    elif m == 2:
        name = name[:-3] + '-' + name[-3:]                # '-' in the instance part
    elif m == 3:
        uid = uid[:5] + '-' + uid[5:]                     # '-' in the id
    elif m == 4:
        uid = uid[:rng.randint(0, 12)]                    # short id: padded
    elif m == 5:
        uid = uid + rand_str(rng, DIGITS, 1, 4)           # long id
    elif m == 6:
        name = ''
    elif m == 7:
        name = name.replace('.', rng.choice(ODDCH), 1)
    else:
        uid = ''
    return name, uid


def gen_uniq(rng, malformed):
    name, uid = gen_name(rng), gen_uid(rng)
    if malformed:
        name, uid = mutate_name(rng, name, uid)
    # a second value close to the first (injectivity): move a dash between the parts, change one character, or equal
    n2, u2 = name, uid
    m = rng.randrange(5)
    if m == 0 and '-' in name:
        n2 = name.replace('-', '.', 1)
    elif m == 1:
        n2 = name.replace('#', '-#', 1)
    elif m == 2 and uid:
        u2 = uid[:-1] + ('0' if uid[-1] != '0' else '1')
    elif m == 3 and '#' in name:
        b, i = name.split('#', 1)
        n2 = b + '-' + i[:4] + '#' + i[4:]
    return {'kind': 'uniq', 'name': name, 'uid': uid, 'name2': n2, 'uid2': u2}


def impl_uniq(case):
    appcfg = mod('treadmill.appcfg')
    u = call(appcfg._fmt_unique_name, case['name'], case['uid'])
    o = {'u': u, 'u2': call(appcfg._fmt_unique_name, case['name2'], case['uid2'])}
    if u[0] == 'ok':
        o['name'] = call(appcfg.app_name, u[1])
        o['id'] = call(appcfg.app_unique_id, u[1])
    return o


def flat_uniq(case, o):
    if o['u'][0] != 'ok' or o['name'][0] != 'ok':
        return None
    return fstr(o['u'][1]) + fstr(o['name'][1]) + fres(o['id'], fstr)


def term_uniq(case, o):
    return '(CUniq %s %s)' % (t_str(case['name']), t_str(case['uid']))


def name_domain(name, uid):
    if name.count('#') != 1 or '-' in uid:
        return False
    return '-' not in name.split('#')[1]


def oracle_uniq(case, o):
    out = []
    if not name_domain(case['name'], case['uid']):
        return None
    padded = case['uid'].rjust(13, '0')
    if o['u'][0] != 'ok':
        return ('unique-name-encode-fails', '_fmt_unique_name raises %s' % o['u'][2])
    if o['name'] != ['ok', case['name']] or o['id'] != ['ok', padded]:
        out.append(('unique-name-roundtrip', 'unique name %r decodes to (%r, %r), written (%r, %r)'
                    % (o['u'][1], o['name'], o['id'], case['name'], padded)))
    if len(case['uid']) <= 13 and not (len(o['u'][1]) > 13 and o['u'][1][-14] == '-'):
        out.append(('unique-name-not-ending-in-13-char-id', 'unique name %r' % o['u'][1]))
    if name_domain(case['name2'], case['uid2']) and o['u2'] == o['u'] and \
            (case['name2'], case['uid2'].rjust(13, '0')) != (case['name'], padded):
        out.append(('unique-name-collision', '(%r, %r) and (%r, %r) share the unique name %r'
                    % (case['name'], case['uid'], case['name2'], case['uid2'], o['u'][1])))
    return out or None


def gen_uniq_dec(rng, malformed):
    u = gen_name(rng).replace('#', '-') + '-' + gen_uid(rng)
    if malformed:
        m = rng.randrange(5)
        if m == 0:
            u = rand_str(rng, NAMECH.replace('-', ''), 0, 12)      # no dash at all
        elif m == 1:
            u = rand_str(rng, LOWER, 1, 5) + '-' + rand_str(rng, LOWER, 0, 5)   # one dash
        elif m == 2:
            u = '-' * rng.randint(1, 4)
        elif m == 3:
            u = u + '-'
        else:
            u = rand_str(rng, NAMECH + '#', 0, 20)
    return {'kind': 'uniq_dec', 'u': u}


def impl_uniq_dec(case):
    appcfg = mod('treadmill.appcfg')
    o = {'name': call(appcfg.app_name, case['u']), 'id': call(appcfg.app_unique_id, case['u'])}
    if o['name'][0] == 'ok' and o['id'][0] == 'ok':
        o['reenc'] = call(appcfg._fmt_unique_name, o['name'][1], o['id'][1])
    return o


def flat_uniq_dec(case, o):
    if o['name'][0] != 'ok':
        return None
    return fstr(o['name'][1]) + fres(o['id'], fstr)


def oracle_uniq_dec(case, o):
    """decoding never returns another instance than the one written: whenever the decoded pair is in the
    domain and has a 13-character id, re-encoding gives the unique name back."""
    if 'reenc' not in o:
        return None
    name, uid = o['name'][1], o['id'][1]
    if name_domain(name, uid) and len(uid) >= 13 and o['reenc'] != ['ok', case['u']]:
        return ('unique-name-decodes-to-other-instance', '%r decodes to (%r, %r) which encodes to %r'
                % (case['u'], name, uid, o['reenc']))
    return None


# ------------------------------------------------------------------ 2. trace events
# (class id as Codec/Event.v cls_id, enum family, member name, constructor fields with their kind)
EVENT_CLASSES = [
    ('scheduled', False, [('where', 's'), ('why', 's')]),
    ('pending', False, [('why', 's')]),
    ('pending_delete', False, [('why', 's')]),
    ('configured', False, [('uniqueid', 's')]),
    ('deleted', False, []),
    ('finished', False, [('rc', 'i'), ('signal', 'i')]),
    ('aborted', False, [('why', 's')]),
    ('killed', False, [('is_oom', 'b')]),
    ('service_running', False, [('uniqueid', 's'), ('service', 's')]),
    ('service_exited', False, [('uniqueid', 's'), ('service', 's'), ('rc', 'i'), ('signal', 'i')]),
    ('server_state', True, [('state', 's')]),
    ('server_blackout', True, []),
    ('server_blackout_cleared', True, []),
]
EV_BY_NAME = {n: (i, srv, f) for i, (n, srv, f) in enumerate(EVENT_CLASSES)}
EV_CTOR = ['Scheduled', 'Pending', 'PendingDelete', 'Configured', 'Deleted', 'Finished', 'Aborted', 'Killed',
           'ServiceRunning', 'ServiceExited', 'ServerState', 'ServerBlackout', 'ServerBlackoutCleared']
WHY_CLASSES = ('scheduled', 'pending', 'pending_delete', 'aborted')
WORDS = ['evicted', 'created', 'deleted', 'blacklisted', 'srv1:down', 'srv2:frozen', 'user@REALM:created', '',
         'None', 'oom', 'memory', 'a.b', 'x:y:z', 'up', 'down', 'frozen']


def ev_family(server):
    m = mod('treadmill.trace.server.events' if server else 'treadmill.trace.app.events')
    return (m.ServerTraceEvent, m.ServerTraceEventTypes) if server else (m.AppTraceEvent, m.AppTraceEventTypes)


def gen_evstr(rng, odd):
    r = rng.random()
    if r < 0.5:
        return rng.choice(WORDS)
    s = rand_str(rng, NAMECH + ':', 0, 10)
    if odd and rng.random() < 0.5:
        s += rng.choice([',', '.', ':', ' ', '\n', 'é']) + rand_str(rng, LOWER, 0, 3)
    return s


def gen_body(rng, malformed):
    name, _srv, fields = EVENT_CLASSES[rng.randrange(len(EVENT_CLASSES))]
    vals = {}
    for f, kind in fields:
        if kind == 's':
            if f == 'why' and rng.random() < 0.12:
                v = None                                   # real callers pass why=None (scheduler/master.py)
            elif f == 'service':
                v = rng.choice(['web', 'web.server', 'a..b', '', 'sshd.1.2', gen_evstr(rng, malformed)])
            elif f in ('uniqueid',):
                v = gen_uid(rng) if not malformed else rng.choice([gen_uid(rng), 'a.b', '', None])
            elif f == 'where':
                v = rng.choice(['srv1', 'node-12.example.com', 'h']) if not malformed else \
                    rng.choice(['srv:1', '', None, 'a:b:c'])
            elif f == 'state':
                v = rng.choice(['up', 'down', 'frozen']) if not malformed else rng.choice([None, '', 'a,b'])
            else:
                v = gen_evstr(rng, malformed)
        elif kind == 'i':
            v = rng.choice([0, 1, -1, 9, 15, 127, 128, 255, 256, -255, rng.randint(-10 ** 6, 10 ** 6),
                            rng.getrandbits(70)])
        else:
            v = rng.random() < 0.5
        vals[f] = v
    return {'cls': name, 'fields': vals}


def gen_hdr(rng):
    return {'ts': rng.choice([None, rng.randint(0, 2 ** 31), 1500000000 + rng.randint(0, 10 ** 8)]),
            'source': rng.choice([None, 'tests', 'srv1.example.com']),
            'id': rng.choice([None, gen_name(rng), 'srv1']),
            'payload': rng.choice([None, '', 'some payload', '{"a": 1}'])}


def gen_event(rng, malformed):
    b = gen_body(rng, malformed)
    # a second body close to the first (injectivity)
    b2 = {'cls': b['cls'], 'fields': dict(b['fields'])}
    fields = EV_BY_NAME[b['cls']][2]
    if fields:
        f, kind = fields[rng.randrange(len(fields))]
        v = b['fields'][f]
        if kind == 's':
            b2['fields'][f] = rng.choice(['None', '', v if v is None else v + '.', v])
        elif kind == 'i':
            b2['fields'][f] = rng.choice([v, v + 1, -v])
        else:
            b2['fields'][f] = not v
    return {'kind': 'event', 'hdr': gen_hdr(rng), 'body': b, 'body2': b2}


def _mk_event(body, hdr):
    _i, srv, _f = EV_BY_NAME[body['cls']]
    _base, enum = ev_family(srv)
    cls = getattr(enum, body['cls']).value
    kw = dict(body['fields'])
    kw.update(timestamp=hdr['ts'], source=hdr['source'], payload=hdr['payload'])
    kw['servername' if srv else 'instanceid'] = hdr['id']
    return cls(**kw)


def _dump_event(ev, srv):
    """decoded event -> JSON-able dict {'cls', 'fields', 'hdr'}"""
    _base, enum = ev_family(srv)
    name = enum(type(ev)).name
    fields = {f: getattr(ev, f) for f, _k in EV_BY_NAME[name][2]}
    ts = ev.timestamp
    if isinstance(ts, float) and ts.is_integer():
        ts = int(ts)
    return {'cls': name, 'fields': fields,
            'hdr': {'ts': ts, 'source': ev.source, 'id': ev.servername if srv else ev.instanceid,
                    'payload': ev.payload}}


def impl_event(case):
    srv = EV_BY_NAME[case['body']['cls']][1]
    base, _enum = ev_family(srv)
    try:
        ev = _mk_event(case['body'], case['hdr'])
        data = ev.to_data()
        ev2 = _mk_event(case['body2'], case['hdr'])
        data2 = ev2.to_data()
    except Exception as e:
        return {'enc': ['err', errcode(e), '%s: %s' % (type(e).__name__, e)]}
    o = {'enc': ['ok', [data[3], data[4]]], 'enc2': [data2[3], data2[4]]}
    dec = call(lambda: base.from_data(*data))
    if dec[0] == 'ok':
        o['dec'] = ['ok', None if dec[1] is None else _dump_event(dec[1], srv)]
        o['equal'] = dec[1] is not None and (dec[1] == ev)
    else:
        o['dec'] = dec
    return o


def f_ostr(v):
    return [0] if v is None else [1] + fstr(v)


def f_hdr(h):
    return ([0] if h['ts'] is None else [1, h['ts']]) + f_ostr(h['source']) + f_ostr(h['id']) + f_ostr(h['payload'])


def f_body(b):
    i, _srv, fields = EV_BY_NAME[b['cls']]
    out = [i]
    for f, kind in fields:
        v = b['fields'][f]
        if kind == 's':
            if not (v is None or isinstance(v, str)):
                return None
            out += f_ostr(v)
        elif kind == 'i':
            if isinstance(v, bool) or not isinstance(v, int):
                return None
            out.append(v)
        else:
            if not isinstance(v, bool):
                return None
            out.append(1 if v else 0)
    return out


def flat_event(case, o):
    if o['enc'][0] != 'ok' or o['dec'][0] != 'ok':
        return None
    ty, d = o['enc'][1]
    if not isinstance(d, str):
        return None
    out = [0] + fstr(ty) + fstr(d)
    if o['dec'][1] is None:
        return out + [0]
    h = f_hdr(o['dec'][1]['hdr'])
    b = f_body(o['dec'][1])
    if b is None:
        return None
    return out + [1] + [len(h)] + h + b


def t_body(b):
    i, _srv, fields = EV_BY_NAME[b['cls']]
    args = []
    for f, kind in fields:
        v = b['fields'][f]
        args.append(t_ostr(v) if kind == 's' else (G.z(v) if kind == 'i' else G.b(v)))
    return '(%s)' % ' '.join([EV_CTOR[i]] + args) if args else EV_CTOR[i]


def term_event(case, o):
    return '(CEvent %s %s)' % (G.zlist(f_hdr(case['hdr'])), t_body(case['body']))


def body_domain(b):
    f = b['fields']
    c = b['cls']
    if any(f[k] is None for k, kind in EV_BY_NAME[c][2] if kind == 's'):
        return False
    if c == 'scheduled':
        return ':' not in f['where']
    if c in ('service_running', 'service_exited'):
        return '.' not in f['uniqueid']
    return True


def why_none_only(b):
    """outside the domain only because why is None (which real callers pass)"""
    if b['cls'] not in WHY_CLASSES or b['fields']['why'] is not None:
        return False
    return body_domain({'cls': b['cls'], 'fields': dict(b['fields'], why='')})


def oracle_event(case, o):
    b = case['body']
    if o['enc'][0] != 'ok':
        return ('event-encode-fails', 'to_data raises %s' % o['enc'][2]) if body_domain(b) else None
    written = {'cls': b['cls'], 'fields': b['fields'], 'hdr': case['hdr']}
    same = o['dec'][0] == 'ok' and o['dec'][1] == written and o.get('equal')
    out = []
    if body_domain(b):
        if not same:
            out.append(('event-roundtrip', '%s event %r encodes to %r and decodes to %r'
                        % (b['cls'], b['fields'], o['enc'][1], o['dec'])))
        b2 = case['body2']
        if body_domain(b2) and b2['fields'] != b['fields'] and o['enc2'] == o['enc'][1]:
            out.append(('event-collision', '%s events %r and %r share the encoding %r'
                        % (b['cls'], b['fields'], b2['fields'], o['enc'][1])))
    elif why_none_only(b) and not same:
        if b['cls'] == 'scheduled':
            out.append(('scheduled-why-none-decodes-as-string-None',
                        'ScheduledTraceEvent(where=%r, why=None) encodes to %r and decodes to why=%r'
                        % (b['fields']['where'], o['enc'][1][1],
                           o['dec'][1]['fields'].get('why') if o['dec'][0] == 'ok' and o['dec'][1] else o['dec'])))
        else:
            out.append(('event-why-none-decodes-as-empty-string',
                        '%s event with why=None encodes to %r and decodes to why=%r'
                        % (b['cls'], o['enc'][1][1],
                           o['dec'][1]['fields'].get('why') if o['dec'][0] == 'ok' and o['dec'][1] else o['dec'])))
    return out or None


def gen_event_dec(rng, malformed):
    srv = rng.random() < 0.2
    names = [n for n, s, _f in EVENT_CLASSES if s == srv]
    ty = rng.choice(names)
    d = rng.choice([gen_evstr(rng, True), '%d.%d' % (rng.randint(-300, 300), rng.randint(0, 64)),
                    '%s.%s.%d.%d' % (gen_uid(rng), rng.choice(['web', 'a.b', '']), rng.randint(-1, 255),
                                     rng.randint(0, 15)), 'oom', ''])
    if malformed:
        m = rng.randrange(7)
        if m == 0:
            ty = rng.choice(['unknown', 'Scheduled', 'scheduled ', '', 'server_state', 'pending'])
        elif m == 1:
            d = rng.choice(['1', '1.2.3', '1.x', 'x.1', ' 1 . 2 ', '+1.-0', '1_0.2', '1__0.2', '_1.2', '1_.2', '.',
                            '..', '1.', '.1', '- 1.2', '\t7\n.\x0c8\x1f', '0x1.2', '1e3.2', '٣.1'])
            ty = rng.choice(['finished', ty])
        elif m == 2:
            d = rng.choice(['u', 'u.1', 'u.1.2', 'u..1.2', 'u.s.1', 'u.s.x.2', 'u.s.1.y', '.s.1.2', 'u.a.b.c.1.2', '...',
                            'u.s. 1.2 ', 'u.s.+1.-2'])
            ty = rng.choice(['service_exited', 'service_running', ty])
        elif m == 3:
            d = rng.choice([':', 'a:', ':b', 'a:b:c', 'a', ''])
            ty = rng.choice(['scheduled', ty])
        elif m == 4:
            d = rng.choice(['oom', 'OOM', 'oom ', 'o', ''])
            ty = rng.choice(['killed', ty])
    return {'kind': 'event_dec', 'server': srv, 'ty': ty, 'd': d}


def impl_event_dec(case):
    base, _enum = ev_family(case['server'])
    dec = call(lambda: base.from_data(None, None, None, case['ty'], case['d']))
    if dec[0] != 'ok':
        return {'dec': dec}
    o = {'dec': ['ok', None if dec[1] is None else _dump_event(dec[1], case['server'])]}
    if dec[1] is not None:
        d2 = dec[1].to_data()
        again = base.from_data(*d2)
        o['reenc'] = [d2[3], d2[4]]
        o['stable'] = again is not None and again == dec[1]
    return o


def flat_event_dec(case, o):
    if o['dec'][0] != 'ok' or any(ord(c) > 127 for c in case['d']):
        return None     # int() of non-ASCII digits / whitespace is not modelled (counted as skipped)
    if o['dec'][1] is None:
        return [0]
    b = f_body(o['dec'][1])
    return None if b is None else [1] + b


def oracle_event_dec(case, o):
    """a decoded event re-encodes to something that decodes to the same event"""
    if o['dec'][0] == 'ok' and o['dec'][1] is not None and body_domain(o['dec'][1]) and not o['stable']:
        return ('event-decoded-value-does-not-roundtrip', '(%r, %r) decodes to %r which re-encodes to %r'
                % (case['ty'], case['d'], o['dec'][1], o['reenc']))
    return None


# ---- event-node names
class _FakeZk:
    class handler:   # noqa
        @staticmethod
        def event_object():
            import threading
            return threading.Event()

    def __init__(self):
        self.created = []

    def make_servers_acl(self):
        return 'acl'

    def make_default_acl(self, acl):
        return acl

    def create(self, path, payload, makepath=True, acl=None, sequence=False, ephemeral=False):
        self.created.append(path)
        return path

    def exists(self, _path):
        return False


class _AnyName:
    def __eq__(self, _o):
        return True

    def __ne__(self, _o):
        return False


def _decode_node(name):
    app_zk = mod('treadmill.trace.app.zk')
    got = []

    class Loop(app_zk.AppTraceLoop):
        def _process_event(self, object_name, timestamp, source, event_type, event_data, ctx):
            got.append([object_name, timestamp, source, event_type, event_data])
    loop = Loop(_FakeZk(), _AnyName(), None)
    r = call(loop._process_events, [name], None)
    if r[0] != 'ok':
        return r
    return ['ok', got[0] if got else None]


def gen_node(rng, malformed):
    inst = gen_name(rng)
    when = rng.choice(['%d.%d' % (1500000000 + rng.randint(0, 10 ** 8), rng.randint(0, 999999)),
                       str(rng.randint(0, 2 ** 31))])
    host = rng.choice(['srv1', 'node-12.example.com'])
    ty = rng.choice(['pending', 'scheduled', 'configured', 'service_running', 'deleted', 'pending_delete'])
    d = gen_evstr(rng, False).replace(',', ';')
    if malformed:
        m = rng.randrange(4)
        if m == 0:
            d = d + ',' + rand_str(rng, LOWER, 0, 3)
        elif m == 1:
            host = host + ',x'
        elif m == 2:
            when = when.replace('.', ',')
        else:
            inst = inst.replace('.', ',', 1)
    return {'kind': 'node', 'id': inst, 'when': when, 'host': host, 'ty': ty, 'd': d}


def impl_node(case):
    app_zk = mod('treadmill.trace.app.zk')
    from unittest import mock
    zk = _FakeZk()
    with mock.patch.object(app_zk, '_HOSTNAME', case['host']):
        r = call(app_zk.publish, zk, case['when'], case['id'], case['ty'], case['d'], None)
    if r[0] != 'ok':
        return {'enc': r}
    path = zk.created[0]
    z = mod('treadmill.zknamespace')
    shard_dir = z.path.trace(case['id'])
    if not path.startswith(shard_dir + '/'):
        return {'enc': ['err', E_OTHER, 'unexpected path %r' % path]}
    name = path[len(shard_dir) + 1:]
    return {'enc': ['ok', name], 'dec': _decode_node(name)}


def flat_node(case, o):
    if o['enc'][0] != 'ok':
        return None
    out = [0] + fstr(o['enc'][1])
    if o['dec'][0] != 'ok':
        return out + [0] if o['dec'][1] == E_VALUE else None
    if o['dec'][1] is None:
        return None
    return out + [1] + [x for p in o['dec'][1] for x in fstr(p)]


def oracle_node(case, o):
    fields = [case['id'], case['when'], case['host'], case['ty'], case['d']]
    if any(',' in f or '/' in f for f in fields):
        return None
    if o['enc'][0] != 'ok':
        return ('event-node-encode-fails', 'publish raises %s' % o['enc'][2])
    if o['dec'] != ['ok', fields]:
        return ('event-node-roundtrip', 'node %r decodes to %r, written %r' % (o['enc'][1], o['dec'], fields))
    return None


def gen_node_dec(rng, malformed):
    n = rng.choice([5, 5, 5, 4, 6, 1, 0, 7])
    name = ','.join(rand_str(rng, NAMECH + '#:', 0, 6) for _ in range(n))
    return {'kind': 'node_dec', 'name': name}


def flat_node_dec(case, o):
    if o['dec'][0] != 'ok':
        return [0] if o['dec'][1] == E_VALUE else None
    if o['dec'][1] is None:
        return None
    return [1] + [x for p in o['dec'][1] for x in fstr(p)]


def oracle_node_dec(case, o):
    if o['dec'][0] == 'ok' and o['dec'][1] is not None and ','.join(o['dec'][1]) != case['name']:
        return ('event-node-decodes-to-other-fields', '%r decodes to %r' % (case['name'], o['dec'][1]))
    return None


# ------------------------------------------------------------------ 3. firewall rule file names
import re as _re
_QUAD = _re.compile(r'\A[0-9]{1,3}(\.[0-9]{1,3}){3}\Z')
_CHAIN = _re.compile(r'\A[A-Za-z0-9_]{2,32}\Z')


def gen_ip(rng):
    return '.'.join(str(rng.choice([0, 1, 9, 10, 99, 100, 192, 255, 999, rng.randint(0, 255)])) for _ in range(4))


def gen_port(rng):
    return rng.choice([0, 0, 1, 22, 80, 8080, 9999, 10000, 65535, 65536, 99999, rng.randint(1, 99999)])


def gen_rule_value(rng, malformed):
    rtype = rng.choice(['dnat', 'dnat', 'snat', 'snat', 'pt'])
    chain = rng.choice(['PREROUTING_DNAT', 'POSTROUTING_SNAT', 'ab', 'x' * 32, 'T_' + rand_str(rng, LOWER + DIGITS + '_', 0, 12)])
    if rtype == 'pt':
        r = {'rtype': 'pt', 'src_ip': gen_ip(rng), 'dst_ip': gen_ip(rng)}
    else:
        r = {'rtype': rtype, 'proto': rng.choice(['tcp', 'udp']),
             'src_ip': rng.choice([None, gen_ip(rng)]), 'src_port': gen_port(rng),
             'dst_ip': rng.choice([None, gen_ip(rng)]), 'dst_port': gen_port(rng),
             'new_ip': gen_ip(rng), 'new_port': gen_port(rng)}
    if malformed:
        m = rng.randrange(8)
        if m == 0:
            chain = rng.choice(['a', 'x' * 33, 'with-dash', 'co:lon', '', 'é_chain'])
        elif m == 1 and rtype != 'pt':
            r['proto'] = rng.choice(['icmp', 'TCP', '', 'tcp6'])
        elif m == 2:
            r[rng.choice(['src_ip', 'dst_ip'])] = rng.choice(['0.0.0.0/0', '1.2.3', '1.2.3.4.5', '1000.1.1.1', '*',
                                                              'a.b.c.d', '1.2.3.4\n', '', '1.2.3.4:80', '1.2.3.4-5'])
        elif m == 3 and rtype != 'pt':
            r[rng.choice(['src_port', 'dst_port', 'new_port'])] = rng.choice([-1, 100000, 123456, -80])
        elif m == 4 and rtype != 'pt':
            r['new_ip'] = rng.choice(['*', '0.0.0.0/0', '', '1.2.3'])
    return chain, r


def gen_rule(rng, malformed):
    chain, r = gen_rule_value(rng, malformed)
    c2, r2 = chain, dict(r)
    m = rng.randrange(6)
    if m == 0 and r['rtype'] != 'pt':
        r2['rtype'] = 'snat' if r['rtype'] == 'dnat' else 'dnat'
    elif m == 1:
        r2['src_ip'], r2['dst_ip'] = r['dst_ip'], r['src_ip']
    elif m == 2 and r['rtype'] != 'pt':
        r2['src_port'], r2['dst_port'] = r['dst_port'], r['src_port']
    elif m == 3 and r['rtype'] != 'pt':
        r2['new_port'] = r['new_port'] + 1
    elif m == 4:
        c2 = chain + '_'
    return {'kind': 'rule', 'chain': chain, 'rule': r, 'chain2': c2, 'rule2': r2}


def _mk_rule(r):
    fw = mod('treadmill.firewall')
    if r['rtype'] == 'pt':
        return fw.PassThroughRule(r['src_ip'], r['dst_ip'])
    cls = fw.DNATRule if r['rtype'] == 'dnat' else fw.SNATRule
    return cls(proto=r['proto'], new_ip=r['new_ip'], new_port=r['new_port'], src_ip=r['src_ip'],
               src_port=r['src_port'], dst_ip=r['dst_ip'], dst_port=r['dst_port'])


def _dump_rule(rule):
    fw = mod('treadmill.firewall')
    if isinstance(rule, fw.PassThroughRule):
        return {'rtype': 'pt', 'src_ip': rule.src_ip, 'dst_ip': rule.dst_ip}
    d = {'rtype': 'dnat' if isinstance(rule, fw.DNATRule) else 'snat', 'proto': rule.proto,
         'src_port': rule.src_port, 'dst_port': rule.dst_port, 'new_ip': rule.new_ip, 'new_port': rule.new_port}
    for k in ('src_ip', 'dst_ip'):
        v = getattr(rule, k)
        d[k] = None if v is fw.ANY_IP else v
    return d


def _get_rule(name):
    rf = mod('treadmill.rulefile')
    r = call(rf.RuleMgr.get_rule, name)
    if r[0] == 'ok' and r[1] is not None:
        return ['ok', [r[1][0], _dump_rule(r[1][1])]], r[1]
    return r, None


def impl_rule(case):
    rf = mod('treadmill.rulefile')
    try:
        rule, rule2 = _mk_rule(case['rule']), _mk_rule(case['rule2'])
    except Exception as e:
        return {'enc': ['err', errcode(e), '%s: %s' % (type(e).__name__, e)]}
    enc = call(rf.RuleMgr._filenameify, case['chain'], rule)
    o = {'enc': enc, 'enc2': call(rf.RuleMgr._filenameify, case['chain2'], rule2), 'same_value': rule == rule2}
    if enc[0] == 'ok':
        o['dec'], raw = _get_rule(enc[1])
        o['equal'] = raw is not None and raw == (case['chain'], rule)
    return o


def f_rule(d):
    if d['rtype'] == 'pt':
        return [2] + fstr(d['src_ip']) + fstr(d['dst_ip'])
    return ([0 if d['rtype'] == 'dnat' else 1] + fstr(d['proto']) + f_ostr(d['src_ip']) + [d['src_port']]
            + f_ostr(d['dst_ip']) + [d['dst_port']] + fstr(d['new_ip']) + [d['new_port']])


def _ascii(s):
    return all(ord(c) < 128 for c in s)


def flat_rule(case, o):
    if o['enc'][0] != 'ok' or o['dec'][0] != 'ok' or not _ascii(o['enc'][1]):
        return None
    out = [0] + fstr(o['enc'][1])
    if o['dec'][1] is None:
        return out + [0]
    return out + [1] + fstr(o['dec'][1][0]) + f_rule(o['dec'][1][1])


def t_rule(r):
    if r['rtype'] == 'pt':
        return '(PassThrough %s %s)' % (t_str(r['src_ip']), t_str(r['dst_ip']))
    return '(%s %s %s %s %s %s %s %s)' % ('DNAT' if r['rtype'] == 'dnat' else 'SNAT', t_str(r['proto']),
                                          t_ostr(r['src_ip']), G.z(r['src_port']), t_ostr(r['dst_ip']),
                                          G.z(r['dst_port']), t_str(r['new_ip']), G.z(r['new_port']))


def rule_domain(chain, r):
    if not _CHAIN.match(chain):
        return False
    if r['rtype'] == 'pt':
        return bool(_QUAD.match(r['src_ip']) and _QUAD.match(r['dst_ip']))
    return (r['proto'] in ('tcp', 'udp') and all(r[k] is None or _QUAD.match(r[k]) for k in ('src_ip', 'dst_ip'))
            and bool(_QUAD.match(r['new_ip'])) and all(0 <= r[k] <= 99999 for k in ('src_port', 'dst_port', 'new_port')))


def oracle_rule(case, o):
    if not rule_domain(case['chain'], case['rule']):
        return None
    if o['enc'][0] != 'ok':
        return ('rule-file-encode-fails', '_filenameify raises %s' % o['enc'][2])
    out = []
    if not (o['dec'] == ['ok', [case['chain'], case['rule']]] and o['equal']):
        out.append(('rule-file-roundtrip', 'rule %r in chain %r is written as %r which reads back as %r'
                    % (case['rule'], case['chain'], o['enc'][1], o['dec'])))
    if rule_domain(case['chain2'], case['rule2']) and o['enc2'] == o['enc'] and \
            not (o['same_value'] and case['chain2'] == case['chain']):
        out.append(('rule-file-collision', '(%r, %r) and (%r, %r) share the file name %r'
                    % (case['chain'], case['rule'], case['chain2'], case['rule2'], o['enc'][1])))
    return out or None


def gen_rule_dec(rng, malformed):
    rf_chain, r = gen_rule_value(rng, False)
    if r['rtype'] == 'pt':
        name = '%s:passthrough:%s-%s' % (rf_chain, r['src_ip'], r['dst_ip'])
    else:
        def p(v):
            return '*' if v in (0, None) else str(v)
        name = '%s:%s:%s:%s:%s:%s:%s-%s:%s' % (rf_chain, r['rtype'], r['proto'], p(r['src_ip']), p(r['src_port']),
                                               p(r['dst_ip']), p(r['dst_port']), r['new_ip'], r['new_port'])
    m = rng.randrange(14)
    if m == 0:
        name += '\n'
    elif m == 1:
        name += rng.choice(['\n\n', ' ', ':', '0', 'x', '\r\n'])
    elif m == 2:
        name = name.replace(':', ': ', 1)
    elif m == 3:
        i = rng.randrange(len(name))
        name = name[:i] + rng.choice(ODDCH + ['0', '00', '*', ':', '-', '.']) + name[i:]
    elif m == 4:
        i = rng.randrange(len(name))
        name = name[:i] + name[i + 1:]
    elif m == 5:
        name = name.replace('-', ':', 1)
    elif m == 6:
        name = _re.sub(r'(\d+)$', lambda mm: '0' * rng.randint(1, 3) + mm.group(1), name)     # leading zeros
    elif m == 7:
        name = name.replace('dnat', 'snat') if 'dnat' in name else name.replace('snat', 'dnat')
    elif m == 8:
        name = name.replace('tcp', rng.choice(['icmp', 'TCP', 'tcpudp', '']))
    elif m == 9:
        name = rand_str(rng, NAMECH + ':*', 0, 30)
    return {'kind': 'rule_dec', 'name': name}


def impl_rule_dec(case):
    rf = mod('treadmill.rulefile')
    dec, raw = _get_rule(case['name'])
    o = {'dec': dec}
    if raw is not None:
        re_name = call(rf.RuleMgr._filenameify, raw[0], raw[1])
        o['reenc'] = re_name
        if re_name[0] == 'ok':
            back = call(rf.RuleMgr.get_rule, re_name[1])
            o['stable'] = back[0] == 'ok' and back[1] == raw
    return o


def flat_rule_dec(case, o):
    if o['dec'][0] != 'ok' or not _ascii(case['name']):
        return None
    if o['dec'][1] is None:
        return [0]
    return [1] + fstr(o['dec'][1][0]) + f_rule(o['dec'][1][1])


def oracle_rule_dec(case, o):
    if o['dec'][0] == 'ok' and o['dec'][1] is not None and not o.get('stable'):
        return ('rule-file-decoded-value-does-not-roundtrip', 'file name %r reads as %r which is written as %r'
                % (case['name'], o['dec'][1], o.get('reenc')))
    return None


# ------------------------------------------------------------------ 4. ZooKeeper payloads
JKEYS = ['', 'a', 'b', 'name', 'memory', 'cpu', 'a b', 'é', 'k"q', 'k\\b', 'A', 'aa', 'ab', '10', '9', '\n', 'ключ', '_id']
JSTRS = ['', 'x', 'proid.app#0000000001', 'tab\there', 'nl\n', 'quote"', 'back\\slash', '/', '\x00\x1f\x7f', 'é',
         'λ日本', '1', 'null', 'true', '퟿', '\x08\x0c\r']


def gen_jvalue(rng, depth):
    r = rng.random()
    if depth <= 0 or r < 0.45:
        k = rng.randrange(5)
        if k == 0:
            return None
        if k == 1:
            return rng.random() < 0.5
        if k == 2:
            return rng.choice([0, 1, -1, 10, 255, -256, 2 ** 31, -2 ** 63, 10 ** 25, rng.randint(-10 ** 6, 10 ** 6)])
        return rng.choice(JSTRS + [rand_str(rng, NAMECH + ' "\\', 0, 8)])
    if r < 0.7:
        return [gen_jvalue(rng, depth - 1) for _ in range(rng.randint(0, 4))]
    d = {}
    for _ in range(rng.randint(0, 4)):
        d[rng.choice(JKEYS)] = gen_jvalue(rng, depth - 1)
    return d


def mutate_jvalue(rng, v):
    """a value near v (injectivity): bool<->int, '1'<->1, None<->'null', reorder nothing"""
    if isinstance(v, bool):
        return int(v)
    if isinstance(v, int):
        return rng.choice([str(v), v + 1, v == 1])
    if v is None:
        return rng.choice(['null', '', [], {}])
    if isinstance(v, str):
        return rng.choice([v + ' ', [v], None if v == 'null' else v])
    if isinstance(v, list):
        if not v:
            return {}
        i = rng.randrange(len(v))
        return v[:i] + [mutate_jvalue(rng, v[i])] + v[i + 1:]
    if not v:
        return []
    k = rng.choice(list(v))
    d = dict(v)
    d[k] = mutate_jvalue(rng, v[k])
    return d


def gen_zk(rng, malformed):
    r = rng.random()
    if r < 0.08:
        d = {'t': 'none'}
    elif r < 0.14:
        d = {'t': 'bytes', 'b': rng.choice(['', 'raw', '{"a": 1}', '[1, 2', '123', 'x: 1'])}
    elif r < 0.22:
        d = {'t': 'str', 's': rng.choice(['', 'abc', '123', 'true', '{}', '"quoted"', ' [1] ', 'a: b', 'null'])}
    else:
        v = gen_jvalue(rng, 3)
        if (rng.random() < 0.8 and not isinstance(v, (dict, list))) or v is None or isinstance(v, str):
            v = rng.choice([[v], {'k': v}])     # a top-level None / str takes the other branches of _payload
        v2 = mutate_jvalue(rng, v) if rng.random() < 0.7 else v
        d = {'t': 'obj', 'v': v, 'v2': v if v2 is None or isinstance(v2, str) else v2}
    return {'kind': 'zk', 'data': d}


class _ZkGet:
    def __init__(self, payload):
        self.payload = payload

    def get(self, _path, watch=None):
        return self.payload, 'metadata'


def _zk_decode(payload):
    zkutils = mod('treadmill.zkutils')
    yamlw = mod('treadmill.yamlwrapper')
    from unittest import mock
    used = []
    orig = yamlw.load

    def load(*a, **kw):
        used.append(1)
        return orig(*a, **kw)
    with mock.patch.object(yamlw, 'load', load):
        r = call(zkutils.get_with_metadata, _ZkGet(payload), '/some/node')
    if r[0] == 'ok':
        r = ['ok', r[1][0]]
    return r, bool(used)


def _zdata(d):
    if d['t'] == 'none':
        return None
    if d['t'] == 'bytes':
        return d['b'].encode('ascii')
    if d['t'] == 'str':
        return d['s']
    return d['v']


def _jsonable(v):
    """decoded object -> JSON-able with floats / bytes marked"""
    if isinstance(v, float):
        return {'__float__': repr(v)}
    if isinstance(v, bytes):
        return {'__bytes__': list(v)}
    if isinstance(v, list):
        return [_jsonable(x) for x in v]
    if isinstance(v, dict):
        return {'__dict__': [[k, _jsonable(x)] for k, x in v.items()]}
    if v is None or isinstance(v, (bool, int, str)):
        return v
    return {'__other__': repr(v)}


def impl_zk(case):
    zkutils = mod('treadmill.zkutils')
    d = case['data']
    p = call(zkutils._payload, _zdata(d))
    if p[0] != 'ok':
        return {'payload': p}
    o = {'payload': ['ok', list(p[1])]}
    dec, used_yaml = _zk_decode(p[1])
    o['yaml'] = used_yaml
    o['dec'] = ['ok', _jsonable(dec[1])] if dec[0] == 'ok' else dec
    if d['t'] == 'obj':
        o['strict_equal'] = dec[0] == 'ok' and strict_eq(dec[1], d['v'])
        p2 = call(zkutils._payload, d['v2'])
        o['same_payload'] = p2 == p
    return o


def strict_eq(a, b):
    if type(a) is not type(b):
        return False
    if isinstance(a, list):
        return len(a) == len(b) and all(strict_eq(x, y) for x, y in zip(a, b))
    if isinstance(a, dict):
        return set(a) == set(b) and all(strict_eq(a[k], b[k]) for k in a)
    return a == b


def f_value(v):
    """flatten a decoded (jsonable-marked) value like C15Run.fvalue; None if outside the model's universe"""
    if v is None:
        return [0]
    if isinstance(v, bool):
        return [1, 1 if v else 0]
    if isinstance(v, int):
        return [2, v]
    if isinstance(v, str):
        return [3] + fstr(v)
    if isinstance(v, list):
        out = [4, len(v)]
        for x in v:
            f = f_value(x)
            if f is None:
                return None
            out += f
        return out
    if isinstance(v, dict) and '__dict__' in v:
        out = [5, len(v['__dict__'])]
        for k, x in v['__dict__']:
            f = f_value(x)
            if f is None or not isinstance(k, str):
                return None
            out += fstr(k) + f
        return out
    return None


def _chars_ok(v):
    if isinstance(v, str):
        return all(ord(c) < 0xD800 for c in v)
    if isinstance(v, list):
        return all(_chars_ok(x) for x in v)
    if isinstance(v, dict):
        return all(isinstance(k, str) and _chars_ok(k) and _chars_ok(x) for k, x in v.items())
    return v is None or isinstance(v, (bool, int))


def flat_decoded(o, payload_bytes):
    if o['dec'][0] != 'ok':
        return None
    if o['yaml']:
        return [0, 0] if len(payload_bytes) == 0 and o['dec'][1] is None else ([1] if payload_bytes else None)
    f = f_value(o['dec'][1])
    return None if f is None else [0] + f


def flat_zk(case, o):
    d = case['data']
    if o['payload'][0] != 'ok' or (d['t'] == 'obj' and not _chars_ok(d['v'])):
        return None
    pb = o['payload'][1]
    if any(b > 127 for b in pb):
        return None
    fd = flat_decoded(o, pb)
    return None if fd is None else [0, len(pb)] + pb + fd


def t_value(v):
    if v is None:
        return 'VNull'
    if isinstance(v, bool):
        return '(VBool %s)' % G.b(v)
    if isinstance(v, int):
        return '(VInt %s)' % G.z(v)
    if isinstance(v, str):
        return '(VStr %s)' % t_str(v)
    if isinstance(v, list):
        return '(VList %s)' % G.lst([t_value(x) for x in v])
    return '(VDict %s)' % G.lst(['(%s, %s)' % (t_str(k), t_value(x)) for k, x in v.items()])


def term_zk(case, o):
    d = case['data']
    if d['t'] == 'none':
        return '(CZk ZNone)'
    if d['t'] == 'bytes':
        return '(CZk (ZBytes %s))' % t_str(d['b'])
    if d['t'] == 'str':
        return '(CZk (ZStr %s))' % t_str(d['s'])
    return '(CZk (ZObj %s))' % t_value(d['v'])


def oracle_zk(case, o):
    d = case['data']
    if o['payload'][0] != 'ok':
        return ('zk-payload-encode-fails', '_payload raises %s' % o['payload'][2]) if d['t'] in ('none', 'obj') else None
    pb = bytes(o['payload'][1])
    if d['t'] == 'none':
        if pb != b'' or o['dec'] != ['ok', None]:
            return ('zk-none-payload', 'None is stored as %r and read back as %r' % (pb, o['dec']))
        return None
    if d['t'] != 'obj' or not _chars_ok(d['v']):
        return None
    out = []
    if pb == b'':
        out.append(('zk-payload-collision', 'object %r is stored as the empty payload (which means None)' % (d['v'],)))
    if not o['strict_equal']:
        out.append(('zk-payload-roundtrip', 'object %r is stored as %r and read back as %r' % (d['v'], pb, o['dec'])))
    if o['same_payload'] and _chars_ok(d['v2']) and not strict_eq(d['v'], d['v2']):
        out.append(('zk-payload-collision', 'objects %r and %r share the payload %r' % (d['v'], d['v2'], pb)))
    return out or None


def gen_zk_dec(rng, malformed):
    import json as _json
    v = gen_jvalue(rng, 3)
    if not isinstance(v, (dict, list)):
        v = [v]
    s = _json.dumps(v, sort_keys=rng.random() < 0.5)
    m = rng.randrange(16)
    if m == 0:
        s = s.replace(', ', rng.choice([',', ' , ', ',\n\t', ',\r ']))
    elif m == 1:
        s = s.replace(': ', rng.choice([':', ' : ', ':\n']))
    elif m == 2:
        s = rng.choice([' ', '\n', '\t ']) + s + rng.choice([' ', '\r\n', ''])
    elif m == 3:
        s = s[:-1] + rng.choice([',', ', ', ',]', ',}']) + s[-1:]
    elif m == 4:
        i = rng.randrange(len(s) + 1)
        s = s[:i] + rng.choice(['0', '-', '.5', 'e1', '"', '\\', ',', ' ', '1.5', 'NaN', '1e5', '1E-2', '\\u00E9',
                                '\\ud83d\\ude00', '\\/', '\t', "'", 'x']) + s[i:]
    elif m == 5:
        s = s[:rng.randrange(len(s) + 1)]
    elif m == 6:
        s = s + rng.choice(['x', ']', ' []', '0', ','])
    elif m == 7:
        s = '{"a": 1, "b": [2, {"a": null}], "a": %s, "c": 3, "b": true}' % rng.choice(['"x"', '0', '[]', '-0', '007'])
    elif m == 8:
        s = rng.choice(['', ' ', 'null', 'true', 'false', 'nul', 'tru', 'True', 'None', '-', '-0', '-01', '01', '0x10',
                        '1.', '.5', '1e', '1e+', '-Infinity', 'Infinity', 'NaN', 'Nan', '- 1', '[-]', '"\x7f"',
                        '"a\tb"', '["\\x"]', '[1 2]', '{a: 1}', "{'a': 1}", '{"a" 1}', '{"a": }', '{1: 2}',
                        '[[[[[[[[[[]]]]]]]]]]', '"unterminated', '"\\u12"', '"\\u12G4"', '"\\uD7FF"', '"\\ud800"'])
    elif m == 9:
        s = s.replace('\\u00', rng.choice(['\\u00', '\\U00', '\\u0'])).replace('e9', 'E9')
    return {'kind': 'zk_dec', 'payload': s}


def impl_zk_dec(case):
    pb = case['payload'].encode('ascii', 'replace')
    dec, used_yaml = _zk_decode(pb)
    return {'yaml': used_yaml, 'dec': ['ok', _jsonable(dec[1])] if dec[0] == 'ok' else ['err', dec[1], dec[2]],
            'payload': list(pb)}


def flat_zk_dec(case, o):
    if _re.search(r'\\u[dD][89a-fA-F]', case['payload']):
        return None          # surrogate escapes are outside the model
    if _re.search(r'NaN|Infinity|[0-9][.eE]', case['payload']):
        return None          # floats are outside the model (it answers "unmodelled" as soon as it meets one)
    if o['dec'][0] != 'ok':
        return [1] if o['yaml'] and o['payload'] else None       # yaml.load raised: still the YAML fallback
    return flat_decoded(o, o['payload'])


def oracle_zk_dec(case, o):
    """what was decoded as JSON re-encodes to a payload that decodes to the same object"""
    if o['dec'][0] != 'ok' or o['yaml']:
        return None
    zkutils = mod('treadmill.zkutils')

    def back(v):
        if isinstance(v, dict) and '__dict__' in v:
            return {k: back(x) for k, x in v['__dict__']}
        if isinstance(v, list):
            return [back(x) for x in v]
        return v
    f = f_value(o['dec'][1])
    if f is None:
        return None
    v = back(o['dec'][1])
    if not isinstance(v, (dict, list)) or not _chars_ok(v):
        return None
    again, _y = _zk_decode(zkutils._payload(v))
    if again[0] != 'ok' or not strict_eq(again[1], v):
        return ('zk-payload-roundtrip', 'decoded object %r does not survive a store/read cycle: %r' % (v, again))
    return None


# ------------------------------------------------------------------ 5. LDAP entries
LDAP_SCHEMAS = [('Application', a) for a in ('_schema', '_svc_schema', '_svc_restart_schema', '_endpoint_schema',
                                             '_environ_schema', '_affinity_schema', '_vring_schema',
                                             '_vring_rule_schema', 'schema()')] + \
               [('CellAllocation', a) for a in ('_schema', '_assign_schema', 'schema()')] + \
               [('Partition', a) for a in ('_schema', '_limit_schema', 'schema()')]
LSTRS = ['', 'x', '10%', '2G', 'proid.app', 'native:foo', 'a b', 'é', 'TRUE', 'false', '0', 'tm-x;y', '12']


def ldap_schema(cname, aname):
    m = mod('treadmill.admin._ldap')
    cls = getattr(m, cname)
    return cls.schema() if aname == 'schema()' else getattr(cls, aname)


def _tcode(t):
    if t is str:
        return 's'
    if t is int:
        return 'i'
    if t is bool:
        return 'b'
    if t is dict:
        return 'd'
    if isinstance(t, list):
        return 'ls' if t[0] is str else 'li'
    return None


def gen_fval(rng, code, malformed):
    r = rng.random()
    if r < 0.1:
        return {'n': None}
    if code == 's':
        if r < 0.2:
            return {'i': rng.randint(-5, 10 ** 6)}          # coerced by six.text_type
        return {'s': rng.choice(LSTRS + [rand_str(rng, NAMECH, 0, 8)])}
    if code == 'i':
        return {'i': rng.choice([0, 1, -1, 5, 60, 8080, 2 ** 40, rng.randint(-100, 10 ** 5)])}
    if code == 'b':
        return {'b': rng.random() < 0.5}
    if code == 'ls':
        return {'ls': [rng.choice(LSTRS) for _ in range(rng.randint(0, 3))]}
    if code == 'li':
        return {'li': [rng.randint(-3, 300) for _ in range(rng.randint(0, 3))]}
    d = gen_jvalue(rng, 2)
    return {'d': d if isinstance(d, dict) else {'k': d}}


def gen_ldap(rng, malformed):
    cname, aname = LDAP_SCHEMAS[rng.randrange(len(LDAP_SCHEMAS))]
    sch = ldap_schema(cname, aname)
    o = []
    seen = set()
    for _a, f, t in sch:
        if f is None or f in seen or rng.random() < 0.35:
            continue
        seen.add(f)
        o.append([f, gen_fval(rng, _tcode(t), malformed)])
    if rng.random() < 0.15:
        o.append(['not_in_schema', {'s': 'x'}])
    rng.shuffle(o)
    return {'kind': 'ldap', 'cls': cname, 'schema': aname, 'obj': o}


def _py_fval(tv):
    (k, v), = tv.items()
    return v


def _py_obj(o):
    return {k: _py_fval(tv) for k, tv in o}


def _tag_fval(v):
    if v is None:
        return {'n': None}
    if isinstance(v, bool):
        return {'b': v}
    if isinstance(v, int):
        return {'i': v}
    if isinstance(v, str):
        return {'s': v}
    if isinstance(v, dict):
        return {'d': _jsonable(v)}
    if isinstance(v, list):
        if all(isinstance(x, str) for x in v):
            return {'ls': v}
        if all(isinstance(x, int) and not isinstance(x, bool) for x in v):
            return {'li': v}
    return {'other': repr(v)}


def _tag_entry(e):
    return [[k, [x if isinstance(x, (str, bool)) else {'other': repr(x)} for x in vs]] for k, vs in e.items()]


def impl_ldap(case):
    m = mod('treadmill.admin._ldap')
    sch = ldap_schema(case['cls'], case['schema'])
    enc = call(m._dict_2_entry, _py_obj(case['obj']), sch)
    if enc[0] != 'ok':
        return {'enc': enc}
    o = {'enc': ['ok', _tag_entry(enc[1])]}
    dec = call(lambda: m._entry_2_dict(m._remove_empty(enc[1]), sch))
    o['dec'] = ['ok', [[k, _tag_fval(v)] for k, v in dec[1].items()]] if dec[0] == 'ok' else dec
    return o


def f_eval(x):
    if isinstance(x, bool):
        return [3, 1 if x else 0]
    if isinstance(x, str):
        return [1] + fstr(x)
    return None


def f_entry(te):
    out = [len(te)]
    for k, vs in te:
        out += fstr(k) + [len(vs)]
        for x in vs:
            f = f_eval(x)
            if f is None:
                return None
            out += f
    return out


def f_fval(tv):
    (k, v), = tv.items()
    if k == 'n':
        return [0]
    if k == 's':
        return [1] + fstr(v)
    if k == 'i':
        return [2, v]
    if k == 'b':
        return [3, 1 if v else 0]
    if k == 'ls':
        return [4, len(v)] + [y for x in v for y in [1] + fstr(x)]
    if k == 'li':
        return [4, len(v)] + [y for x in v for y in [2, x]]
    if k == 'd':
        f = f_value(v)
        return None if f is None else [5] + f
    return None


def f_obj(to):
    out = [len(to)]
    for k, tv in to:
        f = f_fval(tv)
        if f is None:
            return None
        out += fstr(k) + f
    return out


def flat_ldap(case, o):
    if o['enc'][0] != 'ok':
        return None
    fe = f_entry(o['enc'][1])
    if fe is None:
        return None
    if o['dec'][0] != 'ok':
        return [0] + fe + [o['dec'][1]]
    fo = f_obj(o['dec'][1])
    return None if fo is None else [0] + fe + [0] + fo


def t_fval(tv):
    (k, v), = tv.items()
    if k == 'n':
        return 'FNone'
    if k == 's':
        return '(FStr %s)' % t_str(v)
    if k == 'i':
        return '(FInt %s)' % G.z(v)
    if k == 'b':
        return '(FBool %s)' % G.b(v)
    if k == 'ls':
        return '(FStrs %s)' % G.lst([t_str(x) for x in v])
    if k == 'li':
        return '(FInts %s)' % G.zlist(v)
    return '(FDict %s)' % G.lst(['(%s, %s)' % (t_str(kk), t_value(x)) for kk, x in v.items()])


def t_obj(o):
    return G.lst(['(%s, %s)' % (t_str(k), t_fval(tv)) for k, tv in o])


def t_entry(te):
    return G.lst(['(%s, %s)' % (t_str(k), G.lst(['(EBool %s)' % G.b(x) if isinstance(x, bool) else '(EStr %s)' % t_str(x)
                                                for x in vs])) for k, vs in te])


def _sname(case):
    return '%s.%s' % (case['cls'], case['schema'])


def ldap_expected(code, tv):
    """Python restatement of Codec/Ldap.v expected_field: what obj'[f] must be, None = absent"""
    is_list = code in ('ls', 'li')
    if tv is None or 'n' in tv:
        return {'ls': []} if is_list else None
    (k, v), = tv.items()
    if k in ('ls', 'li'):
        return {'ls': []} if not v else tv
    if k == 'i' and code == 's':
        return {'s': str(v)}
    return tv


def ldap_typed(code, tv):
    (k, v), = tv.items()
    if k == 'n':
        return True
    if k == 'i':
        return code in ('i', 's')
    if k == 'd':
        return code == 'd' and _chars_ok(v)
    return k == code


def _same_fval(a, b):
    if a is None or b is None:
        return a is b
    (ka, va), = a.items()
    (kb, vb), = b.items()
    if ka in ('ls', 'li') and kb in ('ls', 'li') and not va and not vb:
        return True
    if ka == 'd' and kb == 'd':
        def back(v):
            if isinstance(v, dict) and '__dict__' in v:
                return {k: back(x) for k, x in v['__dict__']}
            if isinstance(v, list):
                return [back(x) for x in v]
            return v
        return strict_eq(back(va), back(vb))
    return ka == kb and va == vb and type(va) is type(vb)


def oracle_ldap(case, o):
    sch = ldap_schema(case['cls'], case['schema'])
    given = dict((k, tv) for k, tv in case['obj'])
    rows = {}
    for _a, f, t in sch:
        if f is not None:
            rows.setdefault(f, _tcode(t))
    if not all(ldap_typed(rows[f], tv) for f, tv in given.items() if f in rows):
        return None
    if o['enc'][0] != 'ok':
        return ('ldap-entry-encode-fails', '_dict_2_entry raises %s' % o['enc'][2])
    if o['dec'][0] != 'ok':
        return ('ldap-entry-roundtrip', '%s: object %r is stored as %r which cannot be read back: %s'
                % (_sname(case), case['obj'], o['enc'][1], o['dec'][2]))
    got = dict((k, tv) for k, tv in o['dec'][1])
    bad = [f for f in rows if not _same_fval(got.get(f), ldap_expected(rows[f], given.get(f)))]
    bad += [f for f in got if f not in rows]
    if bad:
        return ('ldap-entry-roundtrip', '%s: fields %r of %r read back as %r (entry %r)'
                % (_sname(case), bad, case['obj'], o['dec'][1], o['enc'][1]))
    return None


def gen_ldap_dec(rng, malformed):
    cname, aname = LDAP_SCHEMAS[rng.randrange(len(LDAP_SCHEMAS))]
    sch = ldap_schema(cname, aname)
    e = []
    seen = set()
    for a, _f, t in sch:
        if a in seen or rng.random() < 0.4:
            continue
        seen.add(a)
        code = _tcode(t)
        if code == 'i':
            vs = rng.choice([['5'], ['-1'], [' 7 '], ['x'], [], ['1', '2'], [True], ['1_0'], ['+3']])
        elif code == 'b':
            vs = rng.choice([[True], [False], ['TRUE'], ['false'], ['False'], ['0'], ['1'], [''], [], ['no']])
        elif code == 'li':
            vs = rng.choice([[], ['1'], ['1', '22', '-3'], ['x'], ['1', '']])
        elif code == 'ls':
            vs = [rng.choice(LSTRS) for _ in range(rng.randint(0, 3))]
        elif code == 'd':
            vs = rng.choice([['{}'], ['{"b": 1, "a": [true, null]}'], ['[1]'], ['{'], [], ['{"a": "\\u00e9"}', 'x']])
        else:
            vs = rng.choice([[rng.choice(LSTRS)], [], ['a', 'b'], [True]])
        e.append([a, vs])
    if rng.random() < 0.2:
        e.append(['unknown-attr', ['x']])
    rng.shuffle(e)
    return {'kind': 'ldap_dec', 'cls': cname, 'schema': aname, 'entry': e}


def impl_ldap_dec(case):
    m = mod('treadmill.admin._ldap')
    sch = ldap_schema(case['cls'], case['schema'])
    dec = call(m._entry_2_dict, dict((k, list(vs)) for k, vs in case['entry']), sch)
    if dec[0] != 'ok':
        return {'dec': dec}
    o = {'dec': ['ok', [[k, _tag_fval(v)] for k, v in dec[1].items()]]}
    again = call(lambda: m._entry_2_dict(m._remove_empty(m._dict_2_entry(dec[1], sch)), sch))
    o['stable'] = again[0] == 'ok' and strict_eq(again[1], dec[1])
    return o


def flat_ldap_dec(case, o):
    if o['dec'][0] != 'ok':
        return [o['dec'][1]] if o['dec'][1] in (E_VALUE, E_INDEX) else None
    sch = ldap_schema(case['cls'], case['schema'])
    dict_fields = {f for _a, f, t in sch if t is dict}
    if any(k in dict_fields and 'd' not in tv for k, tv in o['dec'][1]):
        return None      # a dict-typed attribute holding JSON that is not an object: outside the model
    fo = f_obj(o['dec'][1])
    return None if fo is None else [0] + fo


def oracle_ldap_dec(case, o):
    if o['dec'][0] != 'ok' or f_obj(o['dec'][1]) is None:
        return None
    sch = ldap_schema(case['cls'], case['schema'])
    rows = {}
    for _a, f, t in sch:
        if f is not None:
            rows.setdefault(f, _tcode(t))
    if not all(ldap_typed(rows[f], tv) for f, tv in o['dec'][1] if f in rows):
        return None
    if not o['stable']:
        return ('ldap-decoded-object-does-not-roundtrip', '%s: entry %r reads as %r which does not survive store + load'
                % (_sname(case), case['entry'], o['dec'][1]))
    return None


# ---- _diff_entries
DATTRS = ['cpu', 'memory', 'trait', 'app', 'service-name;tm-service-0', 'service-name;tm-service-1', 'shared-ip']
DVALS = ['a', 'b', 'c', '10%', '', 'A', True, False, 'True']


def gen_dentry(rng, odd):
    e = []
    for a in rng.sample(DATTRS, rng.randint(0, len(DATTRS))):
        vs = [rng.choice(DVALS) for _ in range(rng.choice([0, 1, 1, 2, 3]))]
        if not odd:
            vs = list(dict.fromkeys(vs))
        e.append([a.upper() if odd and rng.random() < 0.2 else a, vs])
    return e


def gen_diff(rng, malformed):
    old = gen_dentry(rng, malformed)
    new = gen_dentry(rng, malformed)
    r = rng.random()
    if r < 0.3 and old:          # same attribute, same value set in another order
        a, vs = rng.choice(old)
        new = [kv for kv in new if kv[0] != a] + [[a, list(reversed(vs))]]
    elif r < 0.4:
        new = [[a, list(vs)] for a, vs in old]
    return {'kind': 'diff', 'old': old, 'new': new}


def _apply_mods(entry, diff):
    """a minimal LDAP modify (attribute names case-insensitive): ADD adds values, REPLACE sets, DELETE removes"""
    e = {k.lower(): list(v) for k, v in entry.items()}
    for attr, ops in diff.items():
        for op, vals in ops:
            k = attr.lower()
            if op == 'MODIFY_ADD':
                e[k] = e.get(k, []) + list(vals)
            elif op == 'MODIFY_REPLACE':
                e[k] = list(vals)
            elif op == 'MODIFY_DELETE':
                e.pop(k, None)
    return e


def impl_diff(case):
    m = mod('treadmill.admin._ldap')
    old = dict((k, list(v)) for k, v in case['old'])
    new = dict((k, list(v)) for k, v in case['new'])
    d = call(m._diff_entries, old, new)
    if d[0] != 'ok':
        return {'diff': d}
    mods = [[a, op, list(vals)] for a, ops in d[1].items() for op, vals in ops]
    after = _apply_mods(old, d[1])
    return {'diff': ['ok', mods], 'after': [[k, v] for k, v in after.items()]}


def flat_diff(case, o):
    if o['diff'][0] != 'ok' or len(dict(case['old'])) != len(case['old']) or len(dict(case['new'])) != len(case['new']):
        return None
    return f_mods(o['diff'][1])


def f_mods(mods):
    out = [len(mods)]
    for a, op, vals in mods:
        code = {'MODIFY_ADD': 0, 'MODIFY_REPLACE': 1, 'MODIFY_DELETE': 2}.get(op)
        if code is None or not _ascii(a):
            return None
        out += fstr(a) + [code]
        if code != 2:
            out.append(len(vals))
            for x in vals:
                f = f_eval(x)
                if f is None:
                    return None
                out += f
    return out


def _vset(vs):
    return {(type(x).__name__, x) for x in vs}


def oracle_diff(case, o):
    keys_old, keys_new = [k for k, _ in case['old']], [k for k, _ in case['new']]
    if any(k != k.lower() for k in keys_old + keys_new) or len(set(keys_old)) != len(keys_old) \
            or len(set(keys_new)) != len(keys_new):
        return None
    if o['diff'][0] != 'ok':
        return ('ldap-diff-fails', '_diff_entries raises %s' % o['diff'][2])
    after, new = dict(o['after']), dict(case['new'])
    bad = [a for a in set(after) | set(new) | set(keys_old) if _vset(after.get(a, [])) != _vset(new.get(a, []))]
    if bad:
        return ('ldap-diff-does-not-yield-new', 'old %r + diff %r = %r, new entry is %r (attributes %r differ)'
                % (case['old'], o['diff'][1], o['after'], case['new'], sorted(bad)))
    return None


# ---- the update path: create(o1) then update(o2) through _dict_2_entry, _diff_entries, LDAP modify, read back
UPD_SCHEMAS = [('CellAllocation', '_schema'), ('Partition', '_schema'), ('Application', '_schema'),
               ('Application', '_svc_schema'), ('Application', '_endpoint_schema'), ('Partition', '_limit_schema'),
               ('CellAllocation', 'schema()')]


def gen_typed_fval(rng, code):
    tv = gen_fval(rng, code, False)
    while 'n' in tv:
        tv = gen_fval(rng, code, False)
    return tv


def gen_ldap_update(rng, malformed):
    cname, aname = UPD_SCHEMAS[rng.randrange(len(UPD_SCHEMAS))]
    sch = ldap_schema(cname, aname)
    rows = []
    for _a, f, t in sch:
        if f is not None and f not in [r[0] for r in rows]:
            rows.append((f, _tcode(t)))
    o1 = [[f, gen_typed_fval(rng, c)] for f, c in rows if rng.random() < 0.75]
    d1 = dict(o1)
    o2 = []
    for f, c in rows:
        r = rng.random()
        if r < 0.45:
            continue                                   # not mentioned in the update: must stay as it is
        if r < 0.72:
            o2.append([f, {'n': None}])                # emptied: the way the code base clears an attribute
        elif r < 0.80 and f in d1:
            o2.append([f, d1[f]])                      # same value again
        elif r < 0.86 and f in d1 and c in ('ls', 'li') and len(d1[f][c]) > 1:
            o2.append([f, {c: list(reversed(d1[f][c]))}])      # same value set, other order
        else:
            o2.append([f, gen_typed_fval(rng, c)])
    rng.shuffle(o2)
    return {'kind': 'ldap_update', 'cls': cname, 'schema': aname, 'obj': o1, 'update': o2}


def impl_ldap_update(case):
    m = mod('treadmill.admin._ldap')
    sch = ldap_schema(case['cls'], case['schema'])
    try:
        # LdapObject.create: entry = _remove_empty(self.to_entry(attrs)) ; admin.create(dn, entry)
        stored = m._remove_empty(m._dict_2_entry(_py_obj(case['obj']), sch))
        # LdapObject.update: new_entry = self.to_entry(attrs) ; Admin.update: old = get(dn, plain keys of new)
        new_entry = m._dict_2_entry(_py_obj(case['update']), sch)
        wanted = m._entry_plain_keys(new_entry)
        old_entry = {k: list(v) for k, v in stored.items() if k.split(';', 1)[0] in wanted}
        diff = m._diff_entries(old_entry, new_entry)
    except Exception as e:
        return {'mods': ['err', errcode(e), '%s: %s' % (type(e).__name__, e)]}
    mods = [[a, op, list(vals)] for a, ops in diff.items() for op, vals in ops]
    after = _apply_mods(stored, diff)           # the modelled LDAP modify
    dec = call(m._entry_2_dict, after, sch)
    return {'mods': ['ok', mods], 'new_entry': _tag_entry(new_entry), 'after': [[k, v] for k, v in after.items()],
            'dec': ['ok', [[k, _tag_fval(v)] for k, v in dec[1].items()]] if dec[0] == 'ok' else dec}


def flat_ldap_update(case, o):
    if o['mods'][0] != 'ok':
        return None
    fm = f_mods(o['mods'][1])
    if fm is None:
        return None
    if o['dec'][0] != 'ok':
        return [0] + fm + [o['dec'][1]]
    fo = f_obj(o['dec'][1])
    return None if fo is None else [0] + fm + [0] + fo


def _same_fval_set(a, b):
    """like _same_fval, list values compared as sets (LDAP attribute values are a set)"""
    if a is not None and b is not None:
        (ka, va), = a.items()
        (kb, vb), = b.items()
        if ka in ('ls', 'li') and kb == ka:
            return set(va) == set(vb)
    return _same_fval(a, b)


def oracle_ldap_update(case, o):
    sch = ldap_schema(case['cls'], case['schema'])
    rows = {}
    for _a, f, t in sch:
        if f is not None:
            rows.setdefault(f, _tcode(t))
    first, upd = dict(case['obj']), dict(case['update'])
    if not all(ldap_typed(rows[f], tv) for d in (first, upd) for f, tv in d.items() if f in rows):
        return None
    if o['mods'][0] != 'ok':
        return ('ldap-update-fails', 'the update path raises %s' % o['mods'][2])
    if o['dec'][0] != 'ok':
        return ('ldap-update-roundtrip', '%s: after create %r and update %r the entry %r cannot be read: %s'
                % (_sname(case), case['obj'], case['update'], o['after'], o['dec'][2]))
    got = dict(o['dec'][1])
    not_cleared, wrong = [], []
    for f, code in rows.items():
        tv = upd.get(f)
        if tv is not None and 'n' in tv:                           # emptied by the update
            if not _same_fval(got.get(f), ldap_expected(code, None)):
                not_cleared.append(f)
            continue
        if tv is None or (code in ('ls', 'li') and not _py_fval(tv)):
            want = ldap_expected(code, first.get(f))               # not mentioned (an empty list in an update
        else:                                                      #  dict produces no attribute: left alone)
            want = ldap_expected(code, tv)
        if not _same_fval_set(got.get(f), want):
            wrong.append(f)
    out = []
    if not_cleared:
        out.append(('ldap-update-does-not-clear-emptied-field',
                    '%s: created %r, updated with %r: fields %r set to None still read back as %r '
                    '(new entry %r, modifications %r)' % (_sname(case), case['obj'], case['update'], not_cleared,
                                                          [[f, got.get(f)] for f in not_cleared], o['new_entry'],
                                                          o['mods'][1])))
    if wrong:
        out.append(('ldap-update-roundtrip',
                    '%s: created %r, updated with %r: fields %r read back as %r (modifications %r)'
                    % (_sname(case), case['obj'], case['update'], wrong, [[f, got.get(f)] for f in wrong],
                       o['mods'][1])))
    return out or None


# ---- the per-class wrappers Application / CellAllocation / Partition .to_entry / .from_entry : ORACLE ONLY
def gen_ldap_obj(rng, malformed):
    cname = rng.choice(['Application', 'CellAllocation', 'Partition'])
    res = {'cpu': rng.choice(['10%', '200%']), 'memory': rng.choice(['1G', '512M']), 'disk': rng.choice(['1G', '20G'])}
    if cname == 'Application':
        o = dict(res, _id='proid.' + rand_str(rng, LOWER, 1, 5))
        if rng.random() < 0.7:
            o['services'] = [{'name': n, 'command': '/bin/' + n, **({'restart': {'limit': rng.randint(0, 9), 'interval': 30}}
                                                                     if rng.random() < 0.5 else {})}
                             for n in rng.sample(['web', 'sshd', 'a.b', 'z'], rng.randint(0, 3))]
        if rng.random() < 0.6:
            o['endpoints'] = [{'name': n, 'port': rng.randint(0, 65535), **({'proto': 'udp'} if rng.random() < 0.3 else {})}
                              for n in rng.sample(['http', 'ssh', 'x'], rng.randint(0, 3))]
        if rng.random() < 0.5:
            o['environ'] = [{'name': n, 'value': rng.choice(LSTRS)} for n in rng.sample(['A', 'B', 'PATH'], rng.randint(0, 3))]
        if rng.random() < 0.4:
            o['affinity_limits'] = {k: rng.randint(0, 5) for k in rng.sample(['server', 'rack', 'pod'], rng.randint(0, 3))}
        if rng.random() < 0.4:
            o['ephemeral_ports'] = {k: rng.randint(0, 9) for k in rng.sample(['tcp', 'udp'], rng.randint(0, 2))}
        if rng.random() < 0.4:
            o['tickets'] = rng.sample(['u@R', 'v@R'], rng.randint(0, 2))
        if rng.random() < 0.3:
            o['shared_ip'] = rng.random() < 0.5
        if rng.random() < 0.3:
            o['vring'] = {'cells': rng.sample(['c1', 'c2'], rng.randint(0, 2)),
                          'rules': [{'pattern': p, 'endpoints': ['http']} for p in rng.sample(['p.*', 'q.*'], rng.randint(0, 2))]}
    elif cname == 'CellAllocation':
        o = dict(res, cell='c1', rank=rng.randint(0, 100), traits=rng.sample(['ssd', 'gpu'], rng.randint(0, 2)))
        if rng.random() < 0.5:
            o['partition'] = rng.choice(['_default', 'p1'])
        if rng.random() < 0.6:
            o['assignments'] = [{'pattern': p, 'priority': rng.randint(0, 100)}
                                for p in rng.sample(['proid.a*', 'proid.b*', 'x.*'], rng.randint(0, 3))]
    else:
        o = dict(res, _id='p1')
        if rng.random() < 0.5:
            o['systems'] = rng.sample([1, 2, 30], rng.randint(0, 3))
        if rng.random() < 0.5:
            o['down-threshold'] = rng.randint(0, 10)
        if rng.random() < 0.4:
            o['data'] = {'b': 1, 'a': {'z': [1, 2], 'y': None}}
        if rng.random() < 0.6:
            o['limits'] = [dict(res, trait=t) for t in rng.sample(['ssd', 'gpu', 'x'], rng.randint(0, 3))]
    return {'kind': 'ldap_obj', 'cls': cname, 'obj': o}


def _wrap_rt(cname, o):
    import copy
    m = mod('treadmill.admin._ldap')
    inst = getattr(m, cname)(None)
    return inst.from_entry(m._remove_empty(inst.to_entry(copy.deepcopy(o))))


def impl_ldap_obj(case):
    once = call(_wrap_rt, case['cls'], case['obj'])
    if once[0] != 'ok':
        return {'once': once}
    # the wrappers fill in defaults on the way in AND on the way out (ephemeral_ports {} -> {'tcp': 0, 'udp': 0}),
    # so the normal form is reached after two round trips; it must be stable from then on
    twice = call(_wrap_rt, case['cls'], once[1])
    thrice = call(_wrap_rt, case['cls'], twice[1]) if twice[0] == 'ok' else twice
    return {'once': ['ok', _jsonable(once[1])], 'idempotent': thrice[0] == 'ok' and strict_eq(thrice[1], twice[1]),
            'kept': [k for k, v in case['obj'].items() if isinstance(v, (str, int, bool)) and
                     not (k in once[1] and strict_eq(once[1][k], v))]}


def oracle_ldap_obj(case, o):
    if o['once'][0] != 'ok':
        return ('ldap-object-roundtrip', '%s %r cannot be stored and read back: %s' % (case['cls'], case['obj'], o['once'][2]))
    if o['kept'] or not o['idempotent']:
        return ('ldap-object-roundtrip', '%s %r reads back as %r (scalar fields changed: %r, second round trip stable: %s)'
                % (case['cls'], case['obj'], o['once'][1], o['kept'], o['idempotent']))
    return None


# ------------------------------------------------------------------ registry
KINDS = {
    'basen': dict(gen=gen_basen, impl=impl_basen, flat=flat_basen, term=term_basen, oracle=oracle_basen,
                  nontrivial=lambda c, o: c['n'] > 0, weight=3),
    'basen_dec': dict(gen=gen_basen_dec, impl=impl_basen_dec, flat=lambda c, o: fres(o['dec'], lambda n: [n]),
                      term=lambda c, o: '(CBaseNDec %s %s %s)' % (t_ostr(c['al']), t_oz(c['base']), t_str(c['s'])),
                      oracle=oracle_basen_dec, nontrivial=lambda c, o: len(c['s']) > 0, weight=1),
    'genuid': dict(gen=gen_genuid, impl=impl_genuid, flat=flat_genuid, term=term_genuid, oracle=oracle_genuid,
                   nontrivial=lambda c, o: True, weight=3),
    'uniq': dict(gen=gen_uniq, impl=impl_uniq, flat=flat_uniq, term=term_uniq, oracle=oracle_uniq,
                 nontrivial=lambda c, o: bool(c['name']), weight=3),
    'uniq_dec': dict(gen=gen_uniq_dec, impl=impl_uniq_dec, flat=flat_uniq_dec,
                     term=lambda c, o: '(CUniqDec %s)' % t_str(c['u']), oracle=oracle_uniq_dec,
                     nontrivial=lambda c, o: '-' in c['u'], weight=1),
    'event': dict(gen=gen_event, impl=impl_event, flat=flat_event, term=term_event, oracle=oracle_event,
                  nontrivial=lambda c, o: bool(c['body']['fields']), weight=5),
    'event_dec': dict(gen=gen_event_dec, impl=impl_event_dec, flat=flat_event_dec,
                      term=lambda c, o: '(CEventDec %s %s %s)' % (G.b(c['server']), t_str(c['ty']), t_str(c['d'])),
                      oracle=oracle_event_dec, nontrivial=lambda c, o: bool(c['d']), weight=2),
    'node': dict(gen=gen_node, impl=impl_node, flat=flat_node,
                 term=lambda c, o: '(CNode %s %s %s %s %s)' % tuple(t_str(c[k]) for k in ('id', 'when', 'host', 'ty', 'd')),
                 oracle=oracle_node, nontrivial=lambda c, o: bool(c['d']), weight=2),
    'node_dec': dict(gen=gen_node_dec, impl=lambda c: {'dec': _decode_node(c['name'])}, flat=flat_node_dec,
                     term=lambda c, o: '(CNodeDec %s)' % t_str(c['name']), oracle=oracle_node_dec,
                     nontrivial=lambda c, o: ',' in c['name'], weight=1),
    'rule': dict(gen=gen_rule, impl=impl_rule, flat=flat_rule,
                 term=lambda c, o: '(CRule %s %s)' % (t_str(c['chain']), t_rule(c['rule'])), oracle=oracle_rule,
                 nontrivial=lambda c, o: True, weight=4),
    'rule_dec': dict(gen=gen_rule_dec, impl=impl_rule_dec, flat=flat_rule_dec,
                     term=lambda c, o: '(CRuleDec %s)' % t_str(c['name']), oracle=oracle_rule_dec,
                     nontrivial=lambda c, o: bool(c['name']), weight=3),
    'zk': dict(gen=gen_zk, impl=impl_zk, flat=flat_zk, term=term_zk, oracle=oracle_zk,
               nontrivial=lambda c, o: c['data']['t'] == 'obj' and bool(c['data']['v']), weight=4),
    'zk_dec': dict(gen=gen_zk_dec, impl=impl_zk_dec, flat=flat_zk_dec,
                   term=lambda c, o: '(CZkDec %s)' % G.zlist(o['payload']), oracle=oracle_zk_dec,
                   nontrivial=lambda c, o: bool(c['payload']), weight=3),
    'ldap': dict(gen=gen_ldap, impl=impl_ldap, flat=flat_ldap,
                 term=lambda c, o: '(CLdap %s %s)' % (t_str(_sname(c)), t_obj(c['obj'])), oracle=oracle_ldap,
                 nontrivial=lambda c, o: bool(c['obj']), weight=4),
    'ldap_dec': dict(gen=gen_ldap_dec, impl=impl_ldap_dec, flat=flat_ldap_dec,
                     term=lambda c, o: '(CLdapDec %s %s)' % (t_str(_sname(c)), t_entry(c['entry'])),
                     oracle=oracle_ldap_dec, nontrivial=lambda c, o: bool(c['entry']), weight=2),
    'diff': dict(gen=gen_diff, impl=impl_diff, flat=flat_diff,
                 term=lambda c, o: '(CDiff %s %s)' % (t_entry(c['old']), t_entry(c['new'])), oracle=oracle_diff,
                 nontrivial=lambda c, o: bool(c['old']) and bool(c['new']), weight=3),
    'ldap_update': dict(gen=gen_ldap_update, impl=impl_ldap_update, flat=flat_ldap_update,
                        term=lambda c, o: '(CLdapUpdate %s %s %s)' % (t_str(_sname(c)), t_obj(c['obj']), t_obj(c['update'])),
                        oracle=oracle_ldap_update,
                        nontrivial=lambda c, o: any('n' in tv for _f, tv in c['update']) and bool(c['obj']), weight=3),
    'ldap_obj': dict(gen=gen_ldap_obj, impl=impl_ldap_obj, flat=lambda c, o: None, term=lambda c, o: 'CNone',
                     oracle=oracle_ldap_obj, nontrivial=lambda c, o: True, weight=1),
}
SCHEDULE = [k for k, d in KINDS.items() for _ in range(d['weight'])]


def gen_case(rng, i):
    kind = SCHEDULE[i % len(SCHEDULE)]
    malformed = rng.random() < 0.25
    c = KINDS[kind]['gen'](rng, malformed)
    c['malformed'] = malformed
    return c


def impl_run(case):
    return KINDS[case['kind']]['impl'](case)


def expected(case, o):
    return KINDS[case['kind']]['flat'](case, o)


def case_term(case, o):
    return KINDS[case['kind']]['term'](case, o)


def oracle(case, o):
    return KINDS[case['kind']]['oracle'](case, o)


def nontrivial(case, o):
    return KINDS[case['kind']]['nontrivial'](case, o)


def _extra(_r, cases, obs):
    dist = {}
    for c, o in zip(cases, obs):
        d = dist.setdefault(c['kind'], {'cases': 0, 'malformed_stream': 0, 'errors': 0})
        d['cases'] += 1
        d['malformed_stream'] += 1 if c.get('malformed') else 0
        d['errors'] += 1 if any(isinstance(v, list) and v and v[0] == 'err' for v in o.values()) else 0
    skipped = {}
    for c, o in zip(cases, obs):
        if expected(c, o) is None:
            skipped[c['kind']] = skipped.get(c['kind'], 0) + 1
    return {'distribution': dist, 'skipped_in_correspondence_by_kind': skipped,
            'skipped_note': 'ldap_obj has no model (oracle only); the others are inputs outside a model (non-ASCII '
                            'for regex/int(), floats, surrogate escapes, YAML fallback, non-terminating to_base_n)'}


TRUSTED = [
    'Coq 8.16.1 kernel (coqc); vm_compute for the table checks (C15_*_tables_ok, C15_ldap_schemas_*), the Examples '
    'and the refuted witness; no native_compute',
    'Print Assumptions: closed under the global context for every theorem of Props/C15.v',
    'translator harness/tables_c15.py: module values (alphabets, patterns, regex .pattern text, enum member tables with '
    '__slots__, LDAP schema tables) and fail-closed AST pattern matching (gen_uniqueid, _fmt_unique_name, app_name, '
    'app_unique_id, publish, _path_trace_shard, _process_events); format specs parsed and cross-checked against '
    'str.format on a probe',
    'hand-written models Codec/*.v of the codec functions, tied by differential execution (cases.v + vm_compute) '
    'on structured and malformed streams; flattening code of harness/props/c15.py and Codec/C15Run.v',
    'modelled, not verified: strings are lists of code points; Python str.format / % / rsplit / split / join / replace '
    '/ int() / str(int); re semantics of the three rule-file regexes (ASCII: \\w and \\d also accept non-ASCII in '
    'Python - such names are skipped by the correspondence); json.dumps / json.loads on null, bool, int, str, list, '
    'dict (floats, surrogate escapes and the YAML fallback on non-empty payloads are outside the model and skipped); '
    'yaml.load(b"") is None; LDAP: create() stores _remove_empty(entry), modify = ADD / REPLACE / DELETE on '
    'attribute value lists',
    'gen_uniqueid: os.stat supplied as data (inode, ctime in microseconds as an exact Fraction); float rounding of '
    'st_ctime * 10**6 is not modelled',
    'event-node names: the real encoder is trace.app.zk.publish on a recording zkclient fake, the real decoder is '
    'TraceLoop._process_events on a subclass that records _process_event arguments',
    'NOT modelled (oracle only, kind ldap_obj): the per-class wrappers Application / CellAllocation / Partition '
    '.to_entry / .from_entry (service restart defaults, ephemeral ports, affinity dict, vring, option-indexed lists '
    '_to_obj_list / _group_entry_by_opt / _grouped_to_list_of_dict) - exercised on the real classes with a '
    'stability + scalar-field-preservation oracle, no theorem',
]
ASSUMPTIONS = [
    'base-N: alphabet without duplicate characters, 2 <= base <= len(alphabet), n >= 0 (for n < 0 or base 1 the '
    'Python loop does not terminate: modelled as an explicit error, excluded)',
    'unique names: instance name = base#inst with no # in base, no # and no - in inst; unique id without -; '
    'ids shorter than 13 are zero-padded by the encoder (round trip is to the padded id)',
    'events: where is a string without ":"; why of scheduled events None or any string; why/uniqueid/state of the '
    'other classes a string (None is the known finding event-why-none-decodes-as-empty-string); uniqueid of service '
    'events without "."; rc/signal ints; is_oom bool; event types are enum member names (not other attributes of the '
    'Enum class); node names: no "," (and no "/") in instance id, timestamp, host, type, data',
    'rule files: chain [A-Za-z0-9_]{2,32}; proto tcp|udp; src/dst address the firewall.ANY_IP object itself or a '
    'dotted quad of 1-3 ASCII digits (an equal but not identical "0.0.0.0/0" string is written as such and not '
    'readable: outside the domain); ports 0..99999 with 0 = wildcard',
    'ZooKeeper payloads: dict / list / int / bool objects over null, bool, int, str (code points < 0xD800), list, '
    'dict with distinct str keys; a top-level str or bytes payload is stored raw and NOT covered (the str "123" reads '
    'back as the int 123); None <-> empty payload',
    'LDAP: object fields typed as their schema row (None allowed, int allowed in str fields); entries pass through '
    '_remove_empty as in LdapObject.create; _diff_entries: distinct lower-case attribute names, values str or bool, '
    'equality of values as sets',
]


def run(tier, seed):
    # per-class LDAP wrappers and the option-indexed list codec: Codec/LdapCls.v, Props/C15Ldap.v, harness/props/c15ldap.py
    from . import c15ldap

    def extra(r, cases, obs):
        cov = _extra(r, cases, obs)
        u = c15ldap.stage(r, seed, tier)
        cov['extra_obligations'] = cov.get('extra_obligations', 0) + u.pop('ldapcls_obligations')
        cov.update(u)
        return cov
    core.standard_run(PID, tier, seed, {
        'model_vos': ['Codec/C15Run', 'Gen/Tables'],
        'table_sections': ['c15_names', 'c15_events', 'c15_rules', 'c15_ldap', 'source_shape'] + list(c15ldap.SECTIONS),
        'preamble': PREAMBLE, 'run_fn': RUN_FN, 'in_type': 'c15case',
        'gen_case': gen_case, 'impl_run': impl_run, 'expected': expected, 'case_term': case_term,
        'oracle': oracle, 'nontrivial': nontrivial,
        'n_quick': 4800, 'n_thorough': 30000, 'search_quick': 4000, 'search_thorough': 100000,
        'corpus': 'c15.json',
        'rule': 'seeded generator (one random.Random(seed)); 21 case kinds (encode+decode and decode-only per codec: '
                'base-N, gen_uniqueid, unique names, events, event nodes, rule files, ZooKeeper payloads, LDAP '
                'entries, _diff_entries, LDAP create+update+read through the real update path, LDAP class wrappers) in a fixed weighted rotation; every case is drawn from '
                'the malformed stream with probability 1/4 (inputs outside the stated domain; decoders are fed '
                'mutated and arbitrary strings); encode cases carry a second nearby value for the injectivity '
                'oracle; non-trivial = not the empty/zero/default object of its kind',
        'trusted': list(TRUSTED) + list(c15ldap.TRUSTED), 'assumptions': list(ASSUMPTIONS) + list(c15ldap.ASSUMPTIONS),
        'anchors': ANCHORS, 'extra': extra,
    })


def replay_case(case):
    if isinstance(case, dict) and case.get('engine') == 'E-ldapcls':
        from . import c15ldap
        return c15ldap.replay_case(case)
    v = oracle(case, impl_run(case))
    if isinstance(v, list):
        return (', '.join(x[0] for x in v), '; '.join(x[1] for x in v)) if v else None
    return v
